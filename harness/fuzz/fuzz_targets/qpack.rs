//! C11: arbitrary bytes as an encoded field section, judged by the reference decoder.
#![no_main]
use libfuzzer_sys::fuzz_target;
use vcheck::props::c11;
use vcheck::report::{KnownFindings, Report};

fuzz_target!(|data: &[u8]| {
    static INIT: std::sync::Once = std::sync::Once::new();
    INIT.call_once(vcheck::panics::install_hook);
    if data.len() > 400 {
        return;
    }
    let mut rep = Report::new();
    c11::fuzz_one(data, &mut rep);
    if let Some(v) = rep.violations.first() {
        let known = KnownFindings::load(Some("/verif/known_findings.json"));
        if known.lookup("C11", &v.sig).is_none() {
            eprintln!("VIOLATION property=C11 signature={} detail={}", v.sig, v.detail);
            std::process::abort();
        }
    }
});
