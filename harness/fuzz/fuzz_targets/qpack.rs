//! libFuzzer entry for the `qpack` target: see vcheck::fuzzing (shared with `vcheck fuzz-replay`).
//! Aborts only on a violation that /verif/known_findings.json does not list.
#![no_main]
use libfuzzer_sys::fuzz_target;
use vcheck::report::KnownFindings;

fuzz_target!(|data: &[u8]| {
    static INIT: std::sync::Once = std::sync::Once::new();
    INIT.call_once(vcheck::panics::install_hook);
    let prop = vcheck::fuzzing::property_of("qpack").unwrap();
    let viol = vcheck::fuzzing::run("qpack", data);
    if viol.is_empty() {
        return;
    }
    let known = KnownFindings::load(std::env::var("VCHECK_KNOWN").ok().as_deref().or(Some("/verif/known_findings.json")));
    for (sig, detail) in viol {
        if known.lookup(prop, &sig).is_none() {
            eprintln!("VIOLATION property={} signature={} detail={}", prop, sig, detail);
            std::process::abort();
        }
    }
});
