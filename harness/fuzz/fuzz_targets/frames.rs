//! C02: arbitrary bytes as a stream, cut by a mask taken from the input, FIN or open.
#![no_main]
use libfuzzer_sys::fuzz_target;
use vcheck::props::c02;
use vcheck::report::{KnownFindings, Report};

fuzz_target!(|data: &[u8]| {
    static INIT: std::sync::Once = std::sync::Once::new();
    INIT.call_once(vcheck::panics::install_hook);
    if data.len() < 10 || data.len() > 300 {
        return;
    }
    let mask = u64::from_le_bytes([data[0], data[1], data[2], data[3], data[4], data[5], data[6], data[7]]);
    let fin = data[8] & 1 == 1;
    let pend = data[8] & 2 == 2;
    let s = &data[9..];
    let mut rep = Report::new();
    c02::fuzz_one(s, mask, fin, pend, &mut rep);
    if let Some(v) = rep.violations.first() {
        let known = KnownFindings::load(Some("/verif/known_findings.json"));
        if known.lookup("C02", &v.sig).is_none() {
            eprintln!("VIOLATION property=C02 signature={} detail={}", v.sig, v.detail);
            std::process::abort();
        }
    }
});
