//! C06: arbitrary bytes -> peer script (total decoder) -> real h3 endpoint over simquic, under the
//! panic catcher and the quiescence hang oracle. Aborts only on a violation that
//! /verif/known_findings.json does not list.
#![no_main]
use libfuzzer_sys::fuzz_target;
use vcheck::props::c06;
use vcheck::report::{KnownFindings, Report};

fuzz_target!(|data: &[u8]| {
    static INIT: std::sync::Once = std::sync::Once::new();
    INIT.call_once(vcheck::panics::install_hook);
    if data.len() < 4 {
        return;
    }
    let h3_is_server = data[0] & 1 == 0;
    let split = data[0] & 2 == 2;
    let nreq = 1 + (data[1] % 3) as usize;
    let seed = u16::from_le_bytes([data[2], data[3]]) as u64;
    let ops = c06::decode(&data[4..]);
    let mut rep = Report::new();
    fastrand::seed(seed);
    c06::check_script(&ops, h3_is_server, split, nreq, seed, &mut rep);
    if let Some(v) = rep.violations.first() {
        let known = KnownFindings::load(Some("/verif/known_findings.json"));
        if known.lookup("C06", &v.sig).is_none() {
            eprintln!("VIOLATION property=C06 signature={} detail={}", v.sig, v.detail);
            std::process::abort();
        }
    }
});
