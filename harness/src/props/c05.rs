//! C05 — one connection error, seen everywhere, never lost between tasks.
//!
//! E4 racerig: the connection driver and 1..3 request handles run on real OS threads. One actor
//! makes ONE driver poll, every other actor makes ONE call on a request handle that raises a
//! connection error in a single poll (the transport is pre-staged). h3's positional hooks
//! (`driver:pce:0|1|2`, `stream:scw:0|1`) cut the driver poll into (check | register | rest) per
//! pass through `poll_connection_error` and a handle call into (store | wake); the rig forces
//! every ordering of those segments, then all threads are joined and the "later API calls" are
//! made from the controller thread. The same scenarios also run free (no parking).
//!
//! Two families of handle calls: errors h3 detects ITSELF on the stream (malformed input, its own
//! state; `CloseStream::handle_connection_error_on_stream`) and connection errors the TRANSPORT
//! reports on an operation of that one stream (`StreamErrorIncoming::ConnectionErrorIncoming` from
//! `poll_data` / `send_data`; `CloseStream::handle_quic_stream_error`). For the second family the
//! simulated transport stages the error on one stream half only: the connection stays open and no
//! other pending transport operation is woken (an adapter fault, or a connection loss one stream
//! sees first), so the ONLY thing that can reach a parked driver is h3's own wake. Such a call is cut
//! at a scheduling point of the harness inside the transport (`sim:inject`, right before the error
//! is returned to h3) and at `stream:scw:1`: segment one = (transport error | store), segment
//! two = wake. It does not stop at `stream:scw:0`, so the segment count is the same as for the
//! first family, and its first segment starts under the harness's control whichever function of
//! h3 the error then takes.
//!
//! Two set-up dimensions carry state into the race. (a) Whose waker: the driver was never polled /
//! polled before with the waker of the task that makes the raced poll / polled before with ANOTHER
//! waker A (the driver was moved to another task, or is polled through a combinator that hands out
//! its own wakers) while the raced poll and every later poll get waker B. "The driver's waker" in
//! oracle 4 is the one passed to its most recent poll that returned Pending, i.e. B; wakes of A are
//! logged apart (`EvKind::StaleWake`) and announce nothing. (b) `Extra::Closing`: graceful shutdown
//! has begun (GOAWAY sent by `shutdown`, or the peer's GOAWAY processed), the staged requests are in
//! flight inside the grace set; a connection error is as fatal as before and oracle 2 still wants
//! the QUIC connection closed with the winner's code.
//!
//! A full driver poll (`server::Connection::accept()`, `client::Connection::poll_close()`) passes
//! through `poll_connection_error` 3..5 times; `ConnectionInner::poll_accept_bi` and
//! `poll_accept_recv` (public through the `inner` field; the latter is what h3-webtransport's
//! `AcceptUni` polls) pass once. Both kinds are driven: the 1-pass calls with all
//! (3+2k)!/(3!*2^k) priority orders, the full polls with a depth-first enumeration of all maximal
//! schedules (a driver that returns at the check simply drops out).
//!
//! Oracles (forced runs: every event totally ordered by the controller, the error cell read at
//! every decision point; free runs: cell read after the join, order only as far as relaxed stamps
//! decide it):
//!  1. the winner is the first error stored: the cell holds the own error of the call whose
//!     segment performed the first store, and never anything else afterwards;
//!  2. the first `close` h3 issues carries the winner's code when h3 detected the winner itself,
//!     H3_INTERNAL_ERROR when the winner is a transport `InternalError` (h3 has to tell the peer),
//!     there is none when the winner came from the peer or is a transport timeout (the connection
//!     is gone already); `Drop`'s later `close(H3_NO_ERROR)` is ignored exactly as QUIC ignores a
//!     second close;
//!  3. every later driver call returns the winner; every handle that reports a connection error
//!     reports the winner (variant, code, reason);
//!  4. no lost wake-up: driver's poll returned Pending + an error is stored => the driver's waker
//!     (the one handed to that poll) was woken at or after the segment that stored it (a wake before
//!     the store announces nothing, nor does a wake of the waker of an earlier poll made for another task).

use crate::panics;
use crate::racerig::{self as rr, Dfs, EvKind, Event, Mode, Rig, SeqChooser};
use crate::refimpl::frames as rf;
use crate::report::Report;
use crate::sim::apps::{CliConn, CliSend, CliStream, ConnErr, Err as AErr, SrvConn, SrvStream};
use crate::sim::rawpeer as raw;
use crate::sim::{self, lock, InjectHook, InjectOn, Net, NetAction, NetCfg, SimConn, CLIENT, SERVER};
use crate::util::{hash64, Rng};
use crate::{Gen, PropDef, Tier};
use bytes::{Buf, Bytes};
use h3::quic::{Connection as _, ConnectionErrorIncoming};
use h3::{ConnectionState as _, SharedState};
use serde_json::{json, Value};
use std::cell::RefCell;
use std::collections::HashMap;
use std::future::Future;
use std::sync::{Arc, OnceLock};
use std::task::{Context, Poll, Waker};

type B = Bytes;
type Resolver = h3::server::RequestResolver<SimConn<B>, B>;

pub fn def() -> PropDef {
    PropDef {
        id: "C05",
        rule: "a case = (scenario, schedule). Scenario = (h3 side server|client; driver call = full driver poll \
               [server accept() / client poll_close(): 3..5 passes through poll_connection_error] | \
               inner.poll_accept_bi | inner.poll_accept_recv [1 pass]; driver polled before with the same \
               task's waker | never polled | polled before with ANOTHER waker A, the raced poll and all later \
               polls with waker B (driver moved to another task / polled through a combinator); extra = none | \
               peer CONNECTION_CLOSE(0x101) already delivered | an \
               error the driver finds itself in the rest of its poll (control stream FIN 0x104, \
               server-initiated bidi 0x103, second control stream 0x103) | graceful shutdown begun with the \
               staged requests in flight inside the grace set (server: shutdown(0) completed, GOAWAY written - with the next request id when accept() handed out \
               the requests, with 0 when the extension path took the streams from the transport and h3 accepted none itself; \
               client: full driver polled before has processed the peer's GOAWAY(next request id), otherwise \
               its own shutdown(0)); another-waker shapes: extra none|driver-detects only, 3 representative \
               handle calls; shutdown shapes: same/never waker, 5 handle calls, one per expected close; a multiset of 1..3 request-handle \
               calls each raising a connection error in one poll: first frame not HEADERS 0x105, CANCEL_PUSH \
               on a request stream 0x105, HTTP/2 frame type 0x105, frame cut by FIN 0x106, undecodable QPACK \
               trailers 0x200, GOAWAY already buffered in h3 0x105 (raised without a transport call), drop of \
               the last SendRequest 0x100; and connection errors the transport reports on an operation of that \
               ONE stream, the simulated connection staying open and no other pending transport operation \
               being woken: InternalError / Timeout / ApplicationClose(0x107) from recv_data's poll_data, \
               InternalError from send_data). Real OS threads: one makes ONE driver poll, the others one handle \
               call each; h3's hooks cut the driver poll into check|register|rest per pass and a handle call \
               into store|wake (a transport-reported error: from the harness's own point inside the transport \
               to the wake hook | wake); between two decisions of the controller exactly one actor runs one segment. \
               Forced: for 1-pass driver calls ALL (3+2k)!/(3!*2^k) = 10/210/7560 priority orders over the \
               live actors (k=1,2 quick; k=3 thorough) x all error multisets x 34 scenario shapes; for full \
               driver polls a depth-first enumeration of every maximal schedule (k=1,2 quick, 20 shapes x all \
               multisets; k=3 thorough: 32 scenarios = 12 of the shapes x 1-3 error combinations + one each for \
               another-waker and shutdown-begun per side). Free-running: the same \
               scenarios without parking, seed-derived spin delays at the hooks and the start line (2*10^4 \
               quick / 10^6 thorough / 2000 lite). After the join: calls on every handle, 3 more driver \
               polls, calls on every handle again, then handles, connection and SendRequest are dropped. \
               Oracles: (1) the error cell (read at every decision point) first holds the own error of the \
               call whose segment stored first and never changes; (2) the first close issued by h3 carries \
               the winner's code iff h3 detected the winner, 0x102 iff the winner is a transport InternalError \
               (none when it came from the peer or is a transport Timeout; Drop's close(H3_NO_ERROR) ignored); \
               (3) every later driver call returns the winner and every handle \
               reporting a connection error reports the winner (variant, code, reason); (4) driver Pending + \
               error stored => the waker handed to that poll was woken at or after the storing segment (free \
               runs: at all); a wake of the waker of an earlier poll made for another task does not count. \
               Non-trivial distinct = distinct (scenario, executed segment order) resp. (scenario, hook stamp order).",
        assumptions: || {
            vec![
                "a call's own error (what it raises when it is alone) is measured by a solo run of the same staged stream and cross-checked against the code the scenario table expects".into(),
                "transport-reported errors: h3::quic allows a stream operation to return ConnectionErrorIncoming while other operations of the connection are still pending (h3-quinn's send_data does: InternalError on a second write before poll_ready); simquic reports the staged error on that stream half only, every time it is used, keeps the connection open and wakes nobody, so the driver learns of it through h3 alone. Expected: cell and every report Remote(InternalError(reason)) + close(0x102) by h3 | Timeout, no close | Remote(ApplicationClose(0x107)), no close".into(),
                "the raced driver poll and all later driver polls of one scenario are made with one task's waker (B); an EARLIER poll may have been made with another task's waker (A: the driver moved, or a combinator with its own wakers) - std::task::Context allows a different waker on every poll and the last one is the one to wake; two tasks polling driver functions of one connection concurrently is out of scope".into(),
                "graceful shutdown begun = `closing` set in the shared state by h3's own shutdown()/GOAWAY processing, checked in the set-up together with 'no error stored, nothing closed'; RFC 9114 5.2: a GOAWAY does not close the connection, requests inside the grace set go on, a connection error afterwards is still closed with its code (5.3/8)".into(),
                "simquic: first close wins, every close call is logged; after its own close the closing side's transport calls fail with a local-close error, which h3 must map to the stored winner".into(),
                "free-running verdicts do not depend on timing: agreement of all reports with the stored error, its membership in the set of raised errors, 'not certainly stored after another' by relaxed stamps, the close code and the wake rule".into(),
                "close reason text and additional close calls with the winner already closed are recorded, not judged (QUIC ignores them)".into(),
                "watchdog: 20 s without progress => threads released and joined, run inconclusive, never a violation".into(),
            ]
        },
        gens,
        run_case,
        finish,
    }
}

// ---------------------------------------------------------------------------------------------
// scenario space

#[derive(Clone, Copy, Debug, PartialEq, Eq, Hash, PartialOrd, Ord)]
pub enum Kind {
    /// first frame of the message is SETTINGS: resolve_request()/recv_response() => 0x105
    First,
    /// CANCEL_PUSH after the head: recv_data() => 0x105
    Unexpected,
    /// HTTP/2 frame type 0x2 after the head: recv_data() => 0x105 (other reason text)
    Forbidden,
    /// frame cut by FIN: recv_data() => 0x106
    Cut,
    /// undecodable QPACK in the trailers: recv_trailers() => 0x200
    Qpack,
    /// GOAWAY already buffered inside h3 at end of stream: recv_data() => 0x105 without a transport call
    Buffered,
    /// drop of the last SendRequest (client) => H3_NO_ERROR
    DropLast,
    /// the transport reports `InternalError(reason)` on this stream's `poll_data`: recv_data() =>
    /// Remote(InternalError(reason)), h3 closes with H3_INTERNAL_ERROR
    TransportInternal,
    /// the transport reports `Timeout` on this stream's `poll_data`: recv_data() => Timeout, no close
    TransportTimeout,
    /// the transport reports `ApplicationClose { 0x107 }` on this stream's `poll_data`: recv_data() =>
    /// Remote(ApplicationClose(0x107)), no close
    TransportAppClose,
    /// the transport reports `InternalError(reason)` on this stream's `send_data`: send_data() =>
    /// Remote(InternalError(reason)), h3 closes with H3_INTERNAL_ERROR
    TransportSendInternal,
}

/// error code of the CONNECTION_CLOSE a `TransportAppClose` stream reports (not the code of `Extra::PeerClose`)
pub const TRANSPORT_APP_CLOSE_CODE: u64 = rf::H3_EXCESSIVE_LOAD;
const TRANSPORT_INTERNAL_REASON_RECV: &str = "simquic: internal error reported on one receive stream";
const TRANSPORT_INTERNAL_REASON_SEND: &str = "simquic: internal error reported on one send stream";
const TRANSPORT_KINDS: [Kind; 4] = [Kind::TransportInternal, Kind::TransportTimeout, Kind::TransportAppClose, Kind::TransportSendInternal];
/// an actor whose call is cut at `sim:inject` does not stop again before the store
const PASS_SCW0: &[&str] = &["stream:scw:0"];

impl Kind {
    fn name(self) -> &'static str {
        match self {
            Kind::First => "first-not-headers",
            Kind::Unexpected => "cancel-push",
            Kind::Forbidden => "h2-frame",
            Kind::Cut => "cut-by-fin",
            Kind::Qpack => "bad-qpack",
            Kind::Buffered => "buffered-goaway",
            Kind::DropLast => "drop-last-sendrequest",
            Kind::TransportInternal => "transport-internal-error",
            Kind::TransportTimeout => "transport-timeout",
            Kind::TransportAppClose => "transport-application-close",
            Kind::TransportSendInternal => "transport-internal-error-on-send",
        }
    }
    /// the code of the error h3 detects itself (None: the error is reported by the transport)
    fn expected_code(self) -> Option<u64> {
        match self {
            Kind::First | Kind::Unexpected | Kind::Forbidden | Kind::Buffered => Some(rf::H3_FRAME_UNEXPECTED),
            Kind::Cut => Some(rf::H3_FRAME_ERROR),
            Kind::Qpack => Some(rf::QPACK_DECOMPRESSION_FAILED),
            Kind::DropLast => Some(rf::H3_NO_ERROR),
            Kind::TransportInternal | Kind::TransportTimeout | Kind::TransportAppClose | Kind::TransportSendInternal => None,
        }
    }
    /// raised from h3's own buffers / state, whatever the transport says
    fn transport_independent(self) -> bool {
        matches!(self, Kind::Buffered | Kind::DropLast)
    }
    /// the connection error the transport reports on one half of this handle's stream, and nowhere else
    fn transport_error(self) -> Option<(InjectOn, ConnectionErrorIncoming)> {
        match self {
            Kind::TransportInternal => Some((InjectOn::Recv, ConnectionErrorIncoming::InternalError(TRANSPORT_INTERNAL_REASON_RECV.into()))),
            Kind::TransportTimeout => Some((InjectOn::Recv, ConnectionErrorIncoming::Timeout)),
            Kind::TransportAppClose => Some((InjectOn::Recv, ConnectionErrorIncoming::ApplicationClose { error_code: TRANSPORT_APP_CLOSE_CODE })),
            Kind::TransportSendInternal => Some((InjectOn::Send, ConnectionErrorIncoming::InternalError(TRANSPORT_INTERNAL_REASON_SEND.into()))),
            _ => None,
        }
    }
    fn is_transport(self) -> bool {
        self.transport_error().is_some()
    }
    /// What the connection's outcome must be when this transport-reported error is the first one
    /// (h3/src/error/connection_error_creators.rs: `convert_to_connection_error` maps Quic(Timeout) to
    /// ConnectionError::Timeout and every other Quic(e) to ConnectionError::Remote(e)), written down
    /// independently of h3's conversion.
    fn expected_transport_outcome(self) -> Option<ConnErr> {
        match self {
            Kind::TransportInternal => Some(ConnErr::RemoteInternal(TRANSPORT_INTERNAL_REASON_RECV.into())),
            Kind::TransportTimeout => Some(ConnErr::Timeout),
            Kind::TransportAppClose => Some(ConnErr::RemoteApp { code: TRANSPORT_APP_CLOSE_CODE }),
            Kind::TransportSendInternal => Some(ConnErr::RemoteInternal(TRANSPORT_INTERNAL_REASON_SEND.into())),
            _ => None,
        }
    }
}

#[derive(Clone, Copy, Debug, PartialEq, Eq, Hash)]
pub enum DriverOp {
    /// server: one poll of `accept()`; client: `poll_close()`
    Full,
    /// `conn.inner.poll_accept_bi(cx)` (one pass through poll_connection_error)
    AcceptBi,
    /// `conn.inner.poll_accept_recv(cx)` (one pass; what h3-webtransport's AcceptUni polls)
    AcceptRecv,
}

#[derive(Clone, Copy, Debug, PartialEq, Eq, Hash)]
pub enum Extra {
    None,
    /// the peer's CONNECTION_CLOSE(0x101) was delivered before the experiment
    PeerClose,
    /// the driver finds an error of its own in the rest of its poll
    DriverDetect,
    /// Graceful shutdown has begun before the experiment (`closing` is set in the shared state), the
    /// staged request streams are in flight and inside the grace set. Server: `shutdown(0)` was called
    /// and completed (GOAWAY written; after `accept()` handed out the requests its id is the next
    /// request id, otherwise h3 has accepted nothing itself and announces 0). Client: a full driver that
    /// was polled before has processed the peer's GOAWAY(next request id) in that poll; otherwise the
    /// client called its own `shutdown(0)` (GOAWAY written). No error, no close comes out of that.
    Closing,
}

/// was the driver call made before (it returned Pending), and with which waker?
#[derive(Clone, Copy, Debug, PartialEq, Eq, Hash)]
pub enum Warm {
    Never,
    /// with the waker of the same task that makes the raced poll and all later polls
    Same,
    /// With ANOTHER waker (A): the driver was polled on one task and then moved to another, or is now
    /// polled through a combinator that hands out its own wakers. The raced poll and every later poll
    /// get waker B; only a wake of B reaches the task that polls the driver now.
    Other,
}

impl Warm {
    fn polled(self) -> bool {
        self != Warm::Never
    }
}

pub const PEER_CLOSE_CODE: u64 = rf::H3_GENERAL_PROTOCOL_ERROR;
const CELL_OBS: &str = "error cell now holds ";

#[derive(Clone, Copy, Debug, PartialEq, Eq, Hash)]
pub struct Shape {
    pub side: usize,
    pub op: DriverOp,
    /// the driver call was made before (returned Pending)
    pub warm: Warm,
    pub extra: Extra,
}

impl Shape {
    fn name(&self) -> String {
        format!(
            "{}/{}/{}/{}",
            sim::side_name(self.side),
            match self.op {
                DriverOp::Full => {
                    if self.side == SERVER {
                        "accept()"
                    } else {
                        "poll_close()"
                    }
                }
                DriverOp::AcceptBi => "inner.poll_accept_bi",
                DriverOp::AcceptRecv => "inner.poll_accept_recv",
            },
            match self.warm {
                Warm::Never => "never-polled",
                Warm::Same => "polled-before",
                Warm::Other => "polled-before-with-another-waker",
            },
            match self.extra {
                Extra::None => "plain",
                Extra::PeerClose => "peer-close-delivered",
                Extra::DriverDetect => "driver-detects-own-error",
                Extra::Closing => "graceful-shutdown-begun",
            }
        )
    }
}

fn shapes(one_pass: bool) -> Vec<Shape> {
    let mut v = Vec::new();
    for side in [SERVER, CLIENT] {
        let ops: &[DriverOp] = if one_pass { &[DriverOp::AcceptBi, DriverOp::AcceptRecv] } else { &[DriverOp::Full] };
        for &op in ops {
            for warm in [Warm::Never, Warm::Same, Warm::Other] {
                for extra in [Extra::None, Extra::PeerClose, Extra::DriverDetect, Extra::Closing] {
                    if extra == Extra::DriverDetect && op == DriverOp::AcceptBi {
                        continue; // nothing h3 itself can find in poll_accept_bi
                    }
                    if warm == Warm::Other && matches!(extra, Extra::PeerClose | Extra::Closing) {
                        // the waker matters where the driver can end up Pending: not with the peer's close
                        // delivered (every poll finds it); the two new dimensions are not multiplied
                        continue;
                    }
                    v.push(Shape { side, op, warm, extra });
                }
            }
        }
    }
    v
}

fn alphabet(s: &Shape) -> Vec<Kind> {
    let mut v = if s.extra == Extra::PeerClose {
        // every call that touches the transport raises the peer's close (a dead connection reports that
        // before anything staged on one stream): one representative
        vec![Kind::Unexpected, Kind::Buffered]
    } else if s.warm == Warm::Other {
        // whose waker is woken does not depend on what the error is: one call that reads from the
        // transport, one that does not, one whose error the transport reports
        vec![Kind::Unexpected, Kind::Buffered, Kind::TransportInternal]
    } else if s.extra == Extra::Closing {
        // one call per expected close: 0x105 (with and without a transport call), 0x106, 0x102, none
        vec![Kind::Unexpected, Kind::Cut, Kind::Buffered, Kind::TransportInternal, Kind::TransportTimeout]
    } else {
        let mut v = vec![Kind::First, Kind::Unexpected, Kind::Forbidden, Kind::Cut, Kind::Qpack, Kind::Buffered];
        v.extend(TRANSPORT_KINDS);
        v
    };
    if s.side == CLIENT {
        v.push(Kind::DropLast);
    }
    v
}

/// multisets of size k over the alphabet (non-decreasing), DropLast at most once
fn combos(s: &Shape, k: usize) -> Vec<Vec<Kind>> {
    fn rec(al: &[Kind], from: usize, k: usize, cur: &mut Vec<Kind>, out: &mut Vec<Vec<Kind>>) {
        if cur.len() == k {
            out.push(cur.clone());
            return;
        }
        for i in from..al.len() {
            if al[i] == Kind::DropLast && cur.contains(&Kind::DropLast) {
                continue;
            }
            cur.push(al[i]);
            rec(al, i, k, cur, out);
            cur.pop();
        }
    }
    let al = alphabet(s);
    let mut out = Vec::new();
    rec(&al, 0, k, &mut Vec::new(), &mut out);
    out
}

type Entry = (Shape, Vec<Kind>);

fn table(one_pass: bool, k: usize) -> &'static Vec<Entry> {
    static T: OnceLock<Vec<Vec<Entry>>> = OnceLock::new();
    let all = T.get_or_init(|| {
        let mut t = Vec::new();
        for op in [true, false] {
            for k in 1..=3 {
                let mut v = Vec::new();
                for s in shapes(op) {
                    for c in combos(&s, k) {
                        v.push((s, c));
                    }
                }
                t.push(v);
            }
        }
        t
    });
    &all[(if one_pass { 0 } else { 3 }) + k - 1]
}

/// the k=3 full-driver enumeration is restricted to these combinations
fn table_full_k3() -> &'static Vec<Entry> {
    static T: OnceLock<Vec<Entry>> = OnceLock::new();
    T.get_or_init(|| {
        let mut v = Vec::new();
        for (side, warm, extra) in [SERVER, CLIENT].into_iter().flat_map(|s| [Warm::Same, Warm::Never].into_iter().flat_map(move |w| [Extra::None, Extra::PeerClose, Extra::DriverDetect].into_iter().map(move |e| (s, w, e)))) {
            {
                let s = Shape { side, op: DriverOp::Full, warm, extra };
                let cs: Vec<Vec<Kind>> = if extra == Extra::PeerClose {
                    vec![vec![Kind::Unexpected, Kind::Buffered, Kind::Buffered]]
                } else if side == SERVER {
                    vec![vec![Kind::First, Kind::Cut, Kind::Qpack], vec![Kind::Unexpected, Kind::Forbidden, Kind::Buffered], vec![Kind::Cut, Kind::TransportInternal, Kind::TransportTimeout]]
                } else {
                    vec![vec![Kind::Unexpected, Kind::Cut, Kind::DropLast], vec![Kind::First, Kind::Qpack, Kind::Buffered], vec![Kind::TransportAppClose, Kind::TransportSendInternal, Kind::DropLast]]
                };
                for c in cs {
                    v.push((s, c));
                }
            }
        }
        // the driver polled before with another waker; graceful shutdown begun
        for side in [SERVER, CLIENT] {
            let last = if side == SERVER { Kind::Cut } else { Kind::DropLast };
            v.push((Shape { side, op: DriverOp::Full, warm: Warm::Other, extra: Extra::None }, vec![Kind::Unexpected, Kind::Buffered, Kind::TransportInternal]));
            v.push((Shape { side, op: DriverOp::Full, warm: Warm::Same, extra: Extra::Closing }, vec![Kind::Unexpected, Kind::TransportInternal, last]));
        }
        v
    })
}

fn seg_counts(k: usize) -> Vec<usize> {
    let mut c = vec![3usize];
    c.extend(std::iter::repeat(2).take(k));
    c
}

fn miri_entries() -> Vec<Entry> {
    // the lite tier under Miri runs the first two entries only: every dimension is in those
    let s = Shape { side: SERVER, op: DriverOp::AcceptBi, warm: Warm::Never, extra: Extra::None };
    vec![
        (Shape { warm: Warm::Other, ..s }, vec![Kind::Unexpected]),
        (Shape { extra: Extra::Closing, ..s }, vec![Kind::TransportInternal]),
        (s, vec![Kind::Unexpected]),
        (s, vec![Kind::TransportInternal]),
    ]
}

fn gens(tier: Tier) -> Vec<Gen> {
    if cfg!(miri) {
        return vec![Gen::exhaustive("forced_1pass_k1", 10 * miri_entries().len() as u64), Gen::new("free_running", 20)];
    }
    let n1 = |k: usize| table(true, k).len() as u64 * rr::n_orderings(&seg_counts(k));
    let mut v = vec![Gen::exhaustive("solo", (shapes(true).len() + shapes(false).len()) as u64), Gen::exhaustive("forced_1pass_k1", n1(1))];
    match tier {
        Tier::Lite => {
            v.push(Gen::new("free_running", 2_000));
        }
        Tier::Quick => {
            v.push(Gen::exhaustive("forced_full_k1", table(false, 1).len() as u64));
            v.push(Gen::exhaustive("forced_1pass_k2", n1(2)));
            v.push(Gen::exhaustive("forced_full_k2", table(false, 2).len() as u64));
            v.push(Gen::new("free_running", 20_000));
        }
        Tier::Thorough => {
            v.push(Gen::exhaustive("forced_full_k1", table(false, 1).len() as u64));
            v.push(Gen::exhaustive("forced_1pass_k2", n1(2)));
            v.push(Gen::exhaustive("forced_full_k2", table(false, 2).len() as u64));
            v.push(Gen::exhaustive("forced_full_k3", table_full_k3().len() as u64));
            v.push(Gen::exhaustive("forced_1pass_k3", n1(3)));
            v.push(Gen::new("free_running", 1_000_000));
        }
    }
    v
}

fn finish(tier: Tier, rep: &mut Report) {
    if cfg!(miri) {
        return;
    }
    let floors: &[(&str, u64)] = match tier {
        Tier::Lite => &[("forced_schedules", 100), ("free_iterations", 1_000), ("outcome[error-seen-directly]", 10), ("outcome[pending-then-woken]", 10)],
        Tier::Quick => &[
            ("forced_schedules", 50_000),
            ("free_iterations", 10_000),
            ("outcome[error-seen-directly]", 5_000),
            ("outcome[pending-then-woken]", 5_000),
            ("winner_is[handle]", 5_000),
            ("winner_is[driver]", 100),
            ("h3_first_close[0x105]", 1_000),
            ("h3_first_close[0x106]", 100),
            ("h3_first_close[0x200]", 100),
            ("h3_first_close[0x100]", 100),
            ("h3_first_close[none]", 100),
            ("later_results[connection-error]", 50_000),
            ("hook_hits[driver:pce:1]", 10_000),
            ("hook_hits[stream:scw:1]", 10_000),
        ],
        Tier::Thorough => &[
            ("forced_schedules", 3_000_000),
            ("free_iterations", 500_000),
            ("outcome[error-seen-directly]", 100_000),
            ("outcome[pending-then-woken]", 100_000),
            ("winner_is[handle]", 100_000),
            ("winner_is[driver]", 1_000),
            ("h3_first_close[0x105]", 10_000),
            ("h3_first_close[none]", 1_000),
            ("later_results[connection-error]", 1_000_000),
        ],
    };
    for (k, floor) in floors {
        if rep.get(k) < *floor {
            rep.inconclusive(format!("{} = {} below floor {}", k, rep.get(k), floor));
        }
    }
    // connection errors the transport reports on one handle's stream: every variant in every mode, as
    // the winner, and with a driver that had returned Pending before the error was stored (the only
    // runs in which h3's wake is what brings the error to the driver)
    // (runs per variant: forced 1-pass, forced full, free; as winner; then: winner with a Pending
    // driver forced, free; closes with H3_INTERNAL_ERROR; calls cut at sim:inject)
    let (per_variant, totals): ([u64; 4], [u64; 4]) = match tier {
        Tier::Lite => ([1, 0, 1, 1], [1, 0, 1, 4]),
        Tier::Quick => ([5_000, 5_000, 1_000, 5_000], [1_000, 200, 5_000, 10_000]),
        Tier::Thorough => ([100_000, 10_000, 10_000, 50_000], [10_000, 1_000, 10_000, 100_000]),
    };
    let mut tfloors: Vec<(String, u64)> = Vec::new();
    for k in TRANSPORT_KINDS {
        for (mode, floor) in [("forced-1pass", per_variant[0]), ("forced-full", per_variant[1]), ("free", per_variant[2])] {
            tfloors.push((format!("transport_error_runs[{},{}]", mode, k.name()), floor));
        }
        tfloors.push((format!("transport_error_winner[{}]", k.name()), per_variant[3]));
    }
    tfloors.push(("transport_error_winner_outcome[forced,pending-then-woken]".into(), totals[0]));
    tfloors.push(("transport_error_winner_outcome[free,pending-then-woken]".into(), totals[1]));
    tfloors.push((format!("h3_first_close[{:#x}]", rf::H3_INTERNAL_ERROR), totals[2]));
    tfloors.push((format!("hook_hits[{}]", rr::INJECT), totals[3]));
    // the driver polled earlier with another task's waker: runs per mode, and runs in which the raced poll
    // ended Pending and its own waker was woken after the store (the only ones that tell which waker h3
    // holds); graceful shutdown begun: runs per mode, per way of beginning it, and runs in which h3's
    // first close carried the winner's code
    let dims: [u64; 12] = match tier {
        Tier::Lite => [1, 0, 1, 1, 0, 1, 1, 0, 1, 1, 1, 1],
        Tier::Quick => [2_000, 2_000, 2_000, 200, 100, 1_000, 5_000, 5_000, 1_000, 10_000, 2_000, 1_000],
        Tier::Thorough => [10_000, 5_000, 50_000, 500, 1_000, 5_000, 20_000, 10_000, 20_000, 50_000, 5_000, 5_000],
    };
    for (k, floor) in [
        ("other_waker_runs[forced-1pass]", dims[0]),
        ("other_waker_runs[forced-full]", dims[1]),
        ("other_waker_runs[free]", dims[2]),
        ("other_waker_outcome[forced,pending-then-woken]", dims[3]),
        ("other_waker_outcome[free,pending-then-woken]", dims[4]),
        ("wakes_of_the_earlier_polls_waker", dims[5]),
        ("closing_runs[forced-1pass]", dims[6]),
        ("closing_runs[forced-full]", dims[7]),
        ("closing_runs[free]", dims[8]),
        ("closing_close_carries_the_winners_code", dims[9]),
        ("closing_begun_by[server-shutdown]", dims[10]),
        ("closing_begun_by[client-shutdown]", dims[10]),
        ("closing_begun_by[client-processed-peer-goaway]", dims[11]),
    ] {
        tfloors.push((k.to_string(), floor));
    }
    for (k, floor) in &tfloors {
        if rep.get(k) < *floor {
            rep.inconclusive(format!("{} = {} below floor {}", k, rep.get(k), floor));
        }
    }
    if rep.get("schedule_overrun") > 0 {
        rep.inconclusive(format!("{} forced 1-pass schedules had more driver segments than planned: the enumeration is not complete", rep.get("schedule_overrun")));
    }
    let n = rr::PASS_THROUGH.load(std::sync::atomic::Ordering::Relaxed);
    rep.add("hook_passages_by_non_actor_threads", n);
}

// ---------------------------------------------------------------------------------------------
// scenario construction

enum Conn {
    Srv(Box<SrvConn<B>>),
    Cli(Box<CliConn<B>>),
}

enum Handle {
    Resolver(Box<Resolver>),
    Srv(Box<SrvStream<B>>),
    Cli(Box<CliStream<B>>),
    SendReq(Box<CliSend<B>>),
    Gone,
}

#[derive(Clone, Debug, PartialEq)]
pub enum OpOut {
    Pending,
    Ok(&'static str),
    Err(AErr),
    Dropped,
}

#[derive(Clone, Debug, PartialEq)]
pub enum DriverOut {
    Pending,
    Err(ConnErr),
    Unexpected(String),
}

struct Scenario {
    net: Net,
    h3_side: usize,
    conn: Conn,
    handles: Vec<Handle>,
    /// the SendRequest when no actor drops it
    keep: Option<Box<CliSend<B>>>,
}

fn ready<F: Future>(fut: F, what: &str) -> Result<F::Output, String> {
    let mut f = std::pin::pin!(fut);
    let mut cx = Context::from_waker(Waker::noop());
    for _ in 0..16 {
        if let Poll::Ready(v) = f.as_mut().poll(&mut cx) {
            return Ok(v);
        }
    }
    Err(format!("set-up: {} stayed pending", what))
}

fn bad_qpack_section() -> Vec<u8> {
    // prefix RIC=0, base=0, then an indexed static field line with index 127 (table has 99 entries)
    vec![0x00, 0x00, 0xff, 0x40]
}

/// bytes the raw peer sends on the stream of a handle of this kind, and whether it FINs
fn staged_bytes(kind: Kind, h3_side: usize) -> (Vec<u8>, bool) {
    let head = if h3_side == SERVER { raw::headers_frame(&raw::simple_request_headers()) } else { raw::headers_frame(&raw::simple_response_headers(200)) };
    let mut v = Vec::new();
    match kind {
        Kind::First => {
            v.extend(rf::settings_frame(&[(rf::S_MAX_FIELD_SECTION_SIZE, 4096)]));
            (v, false)
        }
        Kind::Unexpected => {
            v.extend(head);
            v.extend(rf::varint_frame(rf::T_CANCEL_PUSH, 1));
            (v, false)
        }
        Kind::Forbidden => {
            v.extend(head);
            v.extend(rf::frame(0x2, &[0, 0, 0, 0, 1]));
            (v, false)
        }
        Kind::Cut => {
            v.extend(head);
            v.extend([0x01, 0x0a, 0x00, 0x00, 0x00]);
            (v, true)
        }
        Kind::Qpack => {
            v.extend(head);
            v.extend(raw::headers_frame(&bad_qpack_section()));
            (v, true)
        }
        Kind::Buffered => {
            v.extend(head);
            v.extend(raw::data_frame(b"abc"));
            v.extend(rf::varint_frame(rf::T_GOAWAY, 0));
            (v, true)
        }
        Kind::DropLast => (v, false),
        // a well-formed message head and nothing more: what the call raises comes from the transport
        Kind::TransportInternal | Kind::TransportTimeout | Kind::TransportAppClose | Kind::TransportSendInternal => {
            v.extend(head);
            (v, false)
        }
    }
}

fn deliver_all(n: &mut sim::NetInner, id: u64, sender: usize, fin: bool) {
    n.deliver_bytes(id, sender, usize::MAX);
    if fin {
        n.raw_fin(sender, id);
        let mut r = Rng::new(0);
        n.apply(NetAction::DeliverFin { id, sender }, &mut r);
    }
}

fn poll_driver(conn: &mut Conn, op: DriverOp, w: &Waker) -> DriverOut {
    let mut cx = Context::from_waker(w);
    match (conn, op) {
        (Conn::Srv(c), DriverOp::Full) => {
            let mut fut = std::pin::pin!(c.accept());
            match fut.as_mut().poll(&mut cx) {
                Poll::Pending => DriverOut::Pending,
                Poll::Ready(Err(e)) => DriverOut::Err(ConnErr::from_h3(&e)),
                Poll::Ready(Ok(Some(_))) => DriverOut::Unexpected("accept() returned a request".into()),
                Poll::Ready(Ok(None)) => DriverOut::Unexpected("accept() returned None".into()),
            }
        }
        (Conn::Cli(c), DriverOp::Full) => match c.poll_close(&mut cx) {
            Poll::Pending => DriverOut::Pending,
            Poll::Ready(e) => DriverOut::Err(ConnErr::from_h3(&e)),
        },
        (Conn::Srv(c), DriverOp::AcceptBi) => match c.inner.poll_accept_bi(&mut cx) {
            Poll::Pending => DriverOut::Pending,
            Poll::Ready(Err(e)) => DriverOut::Err(ConnErr::from_h3(&e)),
            Poll::Ready(Ok(_)) => DriverOut::Unexpected("poll_accept_bi returned a stream".into()),
        },
        (Conn::Cli(c), DriverOp::AcceptBi) => match c.inner.poll_accept_bi(&mut cx) {
            Poll::Pending => DriverOut::Pending,
            Poll::Ready(Err(e)) => DriverOut::Err(ConnErr::from_h3(&e)),
            Poll::Ready(Ok(_)) => DriverOut::Unexpected("poll_accept_bi returned a stream".into()),
        },
        // Ok(()) = no error now; the caller (e.g. h3-webtransport AcceptUni) returns Pending
        (Conn::Srv(c), DriverOp::AcceptRecv) => match c.inner.poll_accept_recv(&mut cx) {
            Ok(()) => DriverOut::Pending,
            Err(e) => DriverOut::Err(ConnErr::from_h3(&e)),
        },
        (Conn::Cli(c), DriverOp::AcceptRecv) => match c.inner.poll_accept_recv(&mut cx) {
            Ok(()) => DriverOut::Pending,
            Err(e) => DriverOut::Err(ConnErr::from_h3(&e)),
        },
    }
}

fn data_out<T: Buf>(r: Poll<Result<Option<T>, h3::error::StreamError>>) -> OpOut {
    match r {
        Poll::Pending => OpOut::Pending,
        Poll::Ready(Ok(Some(b))) => {
            let _ = b.remaining();
            OpOut::Ok("data")
        }
        Poll::Ready(Ok(None)) => OpOut::Ok("end-of-body"),
        Poll::Ready(Err(e)) => OpOut::Err(AErr::from_h3(&e)),
    }
}

fn unit_out(r: Poll<Result<(), h3::error::StreamError>>) -> OpOut {
    match r {
        Poll::Pending => OpOut::Pending,
        Poll::Ready(Ok(())) => OpOut::Ok("ok"),
        Poll::Ready(Err(e)) => OpOut::Err(AErr::from_h3(&e)),
    }
}

fn once<F: Future>(fut: F) -> Poll<F::Output> {
    let mut f = std::pin::pin!(fut);
    f.as_mut().poll(&mut Context::from_waker(Waker::noop()))
}

fn recv_data_once(h: &mut Handle) -> OpOut {
    let mut cx = Context::from_waker(Waker::noop());
    match h {
        Handle::Srv(s) => data_out(s.poll_recv_data(&mut cx)),
        Handle::Cli(s) => data_out(s.poll_recv_data(&mut cx)),
        _ => OpOut::Ok("n/a"),
    }
}

fn send_data_once(h: &mut Handle) -> OpOut {
    match h {
        Handle::Srv(s) => unit_out(once(s.send_data(Bytes::from_static(b"body")))),
        Handle::Cli(s) => unit_out(once(s.send_data(Bytes::from_static(b"body")))),
        _ => OpOut::Ok("n/a"),
    }
}

fn recv_trailers_once(h: &mut Handle) -> OpOut {
    let mut cx = Context::from_waker(Waker::noop());
    let r = match h {
        Handle::Srv(s) => s.poll_recv_trailers(&mut cx),
        Handle::Cli(s) => s.poll_recv_trailers(&mut cx),
        _ => return OpOut::Ok("n/a"),
    };
    match r {
        Poll::Pending => OpOut::Pending,
        Poll::Ready(Ok(Some(_))) => OpOut::Ok("trailers"),
        Poll::Ready(Ok(None)) => OpOut::Ok("no-trailers"),
        Poll::Ready(Err(e)) => OpOut::Err(AErr::from_h3(&e)),
    }
}

/// the ONE call of a stream actor: a single poll
fn first_op(h: &mut Handle, kind: Kind) -> (&'static str, OpOut) {
    match kind {
        Kind::First => match std::mem::replace(h, Handle::Gone) {
            Handle::Resolver(r) => {
                let out = match once(r.resolve_request()) {
                    Poll::Pending => OpOut::Pending,
                    Poll::Ready(Ok((_req, s))) => {
                        *h = Handle::Srv(Box::new(s));
                        OpOut::Ok("request")
                    }
                    Poll::Ready(Err(e)) => OpOut::Err(AErr::from_h3(&e)),
                };
                ("resolve_request", out)
            }
            Handle::Cli(mut s) => {
                let out = match once(s.recv_response()) {
                    Poll::Pending => OpOut::Pending,
                    Poll::Ready(Ok(_)) => OpOut::Ok("response"),
                    Poll::Ready(Err(e)) => OpOut::Err(AErr::from_h3(&e)),
                };
                *h = Handle::Cli(s);
                ("recv_response", out)
            }
            other => {
                *h = other;
                ("n/a", OpOut::Ok("n/a"))
            }
        },
        Kind::Unexpected | Kind::Forbidden | Kind::Cut | Kind::Buffered => ("recv_data", recv_data_once(h)),
        Kind::TransportInternal | Kind::TransportTimeout | Kind::TransportAppClose => ("recv_data", recv_data_once(h)),
        Kind::TransportSendInternal => ("send_data", send_data_once(h)),
        Kind::Qpack => ("recv_trailers", recv_trailers_once(h)),
        Kind::DropLast => {
            let old = std::mem::replace(h, Handle::Gone);
            drop(old);
            ("drop(SendRequest)", OpOut::Dropped)
        }
    }
}

fn get_request() -> http::Request<()> {
    http::Request::builder().method("GET").uri("https://example.com/").body(()).expect("valid request")
}

/// "all later API calls on every handle": round 0 is made before the driver is polled again,
/// round 1 after
fn later_calls(h: &mut Handle, round: usize) -> Vec<(&'static str, OpOut)> {
    let mut v = Vec::new();
    match h {
        Handle::Srv(s) => {
            v.push(("recv_data", data_out(s.poll_recv_data(&mut Context::from_waker(Waker::noop())))));
            if round == 0 {
                let resp = http::Response::builder().status(200).body(()).expect("valid response");
                v.push(("send_response", unit_out(once(s.send_response(resp)))));
            } else {
                v.push(("send_data", unit_out(once(s.send_data(Bytes::from_static(b"later"))))));
                v.push(("finish", unit_out(once(s.finish()))));
            }
        }
        Handle::Cli(s) => {
            v.push(("recv_data", data_out(s.poll_recv_data(&mut Context::from_waker(Waker::noop())))));
            if round == 0 {
                v.push(("send_data", unit_out(once(s.send_data(Bytes::from_static(b"later"))))));
            } else {
                v.push(("finish", unit_out(once(s.finish()))));
            }
        }
        Handle::SendReq(s) => {
            let out = match once(s.send_request(get_request())) {
                Poll::Pending => OpOut::Pending,
                Poll::Ready(Ok(_)) => OpOut::Ok("stream"),
                Poll::Ready(Err(e)) => OpOut::Err(AErr::from_h3(&e)),
            };
            v.push(("send_request", out));
        }
        Handle::Resolver(_) | Handle::Gone => {}
    }
    v
}

fn build(shape: &Shape, kinds: &[Kind], w: &Waker) -> Result<Scenario, String> {
    let h3_side = shape.side;
    let raw_side = raw::other(h3_side);
    let net = sim::new_net(NetCfg::default());
    let ctrl = {
        let mut n = lock(&net);
        raw::mark_raw(&mut n, raw_side);
        let ctrl = raw::open_control(&mut n, raw_side, &[]);
        deliver_all(&mut n, ctrl, raw_side, false);
        ctrl
    };
    let mut handles: Vec<Handle> = Vec::new();
    // the request stream of each handle, in the order of `kinds` (None: the SendRequest)
    let mut stream_ids: Vec<Option<u64>> = Vec::new();
    let mut keep = None;
    let mut conn;
    if h3_side == SERVER {
        let mut c: SrvConn<B> = ready(h3::server::builder().send_grease(false).build::<_, B>(SimConn::<B>::new(&net, SERVER)), "server build")?.map_err(|e| format!("set-up: server build failed: {}", e))?;
        {
            let mut n = lock(&net);
            for k in kinds {
                let id = n.raw_open(CLIENT, true);
                let (bytes, fin) = staged_bytes(*k, SERVER);
                n.raw_write(CLIENT, id, &bytes);
                deliver_all(&mut n, id, CLIENT, fin);
                stream_ids.push(Some(id));
            }
        }
        let mut resolvers: Vec<Resolver> = Vec::new();
        if shape.op == DriverOp::Full && shape.warm.polled() {
            // the documented path: accept() hands out the requests, one more poll parks the driver
            for _ in 0..kinds.len() + 1 {
                let mut cx = Context::from_waker(w);
                let mut fut = std::pin::pin!(c.accept());
                match fut.as_mut().poll(&mut cx) {
                    Poll::Ready(Ok(Some(r))) => resolvers.push(r),
                    Poll::Pending => break,
                    Poll::Ready(Ok(None)) => return Err("set-up: accept() returned None".into()),
                    Poll::Ready(Err(e)) => return Err(format!("set-up: accept() failed: {}", e)),
                }
            }
        } else {
            // the extension path (h3-webtransport): streams accepted from the transport directly
            let mut side = SimConn::<B>::new(&net, SERVER);
            let mut cx = Context::from_waker(Waker::noop());
            for _ in 0..kinds.len() {
                match side.poll_accept_bidi(&mut cx) {
                    Poll::Ready(Ok(s)) => resolvers.push(c.create_resolver(h3::frame::FrameStream::new(h3::stream::BufRecvStream::new(s)))),
                    _ => return Err("set-up: request stream not acceptable".into()),
                }
            }
        }
        if resolvers.len() != kinds.len() {
            return Err(format!("set-up: {} of {} requests accepted", resolvers.len(), kinds.len()));
        }
        for (r, k) in resolvers.into_iter().zip(kinds) {
            if *k == Kind::First {
                handles.push(Handle::Resolver(Box::new(r)));
                continue;
            }
            let (_req, mut s) = ready(r.resolve_request(), "resolve_request")?.map_err(|e| format!("set-up: resolve_request failed: {}", e))?;
            prepare_stream_srv(&mut s, *k)?;
            handles.push(Handle::Srv(Box::new(s)));
        }
        conn = Conn::Srv(Box::new(c));
    } else {
        let (c, mut send): (CliConn<B>, CliSend<B>) = ready(h3::client::builder().send_grease(false).build::<_, _, B>(SimConn::<B>::new(&net, CLIENT)), "client build")?.map_err(|e| format!("set-up: client build failed: {}", e))?;
        for k in kinds {
            if *k == Kind::DropLast {
                stream_ids.push(None);
                continue;
            }
            let mut s: CliStream<B> = ready(send.send_request(get_request()), "send_request")?.map_err(|e| format!("set-up: send_request failed: {}", e))?;
            let id = s.id().into_inner();
            stream_ids.push(Some(id));
            {
                let mut n = lock(&net);
                let (bytes, fin) = staged_bytes(*k, CLIENT);
                n.raw_write(SERVER, id, &bytes);
                deliver_all(&mut n, id, SERVER, fin);
            }
            if *k != Kind::First {
                ready(s.recv_response(), "recv_response")?.map_err(|e| format!("set-up: recv_response failed: {}", e))?;
                prepare_stream_cli(&mut s, *k)?;
            }
            handles.push(Handle::Cli(Box::new(s)));
        }
        // the DropLast actor owns the only SendRequest; otherwise it is kept alive to the end
        let mut send = Some(Box::new(send));
        let mut placed: Vec<Handle> = Vec::new();
        let mut it = handles.into_iter();
        for k in kinds {
            if *k == Kind::DropLast {
                placed.push(Handle::SendReq(send.take().ok_or("set-up: two DropLast actors")?));
            } else {
                placed.push(it.next().ok_or("set-up: handle missing")?);
            }
        }
        handles = placed;
        keep = send;
        conn = Conn::Cli(Box::new(c));
    }
    // graceful shutdown begun by the peer: the client's full driver reads the GOAWAY in its warm-up poll.
    // The identifier is the next request id: every request in flight is inside the grace set.
    let peer_goaway = shape.extra == Extra::Closing && h3_side == CLIENT && shape.op == DriverOp::Full && shape.warm.polled();
    if peer_goaway {
        let next_request = 4 * stream_ids.iter().flatten().count() as u64;
        let mut n = lock(&net);
        n.raw_write(raw_side, ctrl, &rf::varint_frame(rf::T_GOAWAY, next_request));
        deliver_all(&mut n, ctrl, raw_side, false);
    }
    if shape.warm.polled() && !(h3_side == SERVER && shape.op == DriverOp::Full) {
        match poll_driver(&mut conn, shape.op, w) {
            DriverOut::Pending => {}
            other => return Err(format!("set-up: warm-up poll returned {:?}", other)),
        }
    }
    if shape.extra == Extra::Closing {
        // graceful shutdown begun by this side (after the warm-up: `shutdown` does not poll the driver)
        if !peer_goaway {
            let r = match &mut conn {
                Conn::Srv(c) => ready(c.shutdown(0), "shutdown")?,
                Conn::Cli(c) => ready(c.shutdown(0), "shutdown")?,
            };
            r.map_err(|e| format!("set-up: shutdown failed: {}", e))?;
        }
        let shared = match &conn {
            Conn::Srv(c) => c.inner.shared.clone(),
            Conn::Cli(c) => c.inner.shared.clone(),
        };
        if !shared.is_closing() {
            return Err("set-up: graceful shutdown has not begun (closing is not set)".into());
        }
        if let Some(e) = shared.get_conn_error() {
            return Err(format!("set-up: beginning the graceful shutdown raised {:?}", e));
        }
        if !lock(&net).close_calls.is_empty() {
            return Err("set-up: beginning the graceful shutdown closed the connection".into());
        }
    }
    {
        let mut n = lock(&net);
        let mut r = Rng::new(0);
        match shape.extra {
            Extra::None | Extra::Closing => {}
            Extra::PeerClose => {
                n.close(raw_side, PEER_CLOSE_CODE, b"raw peer close");
                n.apply(NetAction::DeliverClose, &mut r);
            }
            Extra::DriverDetect => match (shape.op, h3_side) {
                (DriverOp::Full, SERVER) => {
                    n.raw_fin(raw_side, ctrl);
                    n.apply(NetAction::DeliverFin { id: ctrl, sender: raw_side }, &mut r);
                }
                (DriverOp::Full, _) => {
                    let id = n.raw_open(SERVER, true);
                    n.raw_write(SERVER, id, &[0x00]);
                    deliver_all(&mut n, id, SERVER, false);
                }
                (DriverOp::AcceptRecv, _) => {
                    let id = raw::open_control(&mut n, raw_side, &[]);
                    deliver_all(&mut n, id, raw_side, false);
                }
                (DriverOp::AcceptBi, _) => return Err("set-up: no driver-detected error for poll_accept_bi".into()),
            },
        }
    }
    // last of all: the connection errors the transport will report on ONE stream. Nothing is closed
    // and nobody is woken; the set-up above (and the driver's warm-up poll) saw a healthy transport.
    {
        let mut n = lock(&net);
        for (k, id) in kinds.iter().zip(&stream_ids) {
            if let (Some((on, error)), Some(id)) = (k.transport_error(), id) {
                // the call that meets the error becomes schedulable right before the error enters h3
                let hook = InjectHook(Arc::new(|| rr::harness_point(rr::INJECT)));
                n.stage_conn_error(h3_side, *id, on, error, Some(hook));
            }
        }
    }
    Ok(Scenario { net, h3_side, conn, handles, keep })
}

fn prepare_stream_srv(s: &mut SrvStream<B>, k: Kind) -> Result<(), String> {
    if k == Kind::TransportSendInternal {
        // the body the call will send follows a response head
        let resp = http::Response::builder().status(200).body(()).expect("valid response");
        return ready(s.send_response(resp), "send_response")?.map_err(|e| format!("set-up: send_response failed: {}", e));
    }
    let mut cx = Context::from_waker(Waker::noop());
    prepared(k, data_out(match k {
        Kind::Qpack | Kind::Buffered => s.poll_recv_data(&mut cx),
        _ => return Ok(()),
    }))
}

fn prepare_stream_cli(s: &mut CliStream<B>, k: Kind) -> Result<(), String> {
    let mut cx = Context::from_waker(Waker::noop());
    prepared(k, data_out(match k {
        Kind::Qpack | Kind::Buffered => s.poll_recv_data(&mut cx),
        _ => return Ok(()),
    }))
}

fn prepared(k: Kind, out: OpOut) -> Result<(), String> {
    match (k, &out) {
        (Kind::Qpack, OpOut::Ok("end-of-body")) | (Kind::Buffered, OpOut::Ok("data")) => Ok(()),
        _ => Err(format!("set-up: preparing a {} stream: recv_data returned {:?}", k.name(), out)),
    }
}

// ---------------------------------------------------------------------------------------------
// running a scenario

pub struct RunResult {
    /// forced: the controller's totally ordered log
    pub log: Vec<Event>,
    /// free: per actor (stamp, hook)
    pub free_logs: Vec<Vec<(u64, &'static str)>>,
    pub decisions: Vec<(usize, usize)>,
    /// forced: the successive contents of the error cell seen at the decision points
    pub stored_seq: Vec<ConnErr>,
    /// the error cell after the join
    pub stored_after_join: Option<ConnErr>,
    /// ... and after all later calls
    pub stored_final: Option<ConnErr>,
    pub driver_first: DriverOut,
    pub stream_first: Vec<(&'static str, OpOut)>,
    pub wakes_during: u64,
    /// wakes of the waker of the driver's EARLIER poll (`Warm::Other`) during the experiment
    pub stale_wakes_during: u64,
    /// (who, call, result) in call order; who = 0 driver, i+1 handle i
    pub later: Vec<(usize, &'static str, OpOut)>,
    pub driver_later: Vec<DriverOut>,
    pub closes_before_drop: Vec<sim::CloseInfo>,
    pub closes_after_drop: Vec<sim::CloseInfo>,
    pub panic: Option<panics::PanicInfo>,
}

pub enum Sched<'a> {
    Forced(&'a mut dyn FnMut(&[(rr::ActorId, &'static str)]) -> usize),
    /// per actor: spin iterations per hook point and start skew
    Free(Vec<([u32; 5], u32)>),
}

/// ground truth: the content of the connection's error cell, in the public error vocabulary
fn stored_error(shared: &SharedState) -> Option<ConnErr> {
    use h3::error::internal_error::ErrorOrigin;
    use h3::error::{ConnectionError, LocalError};
    use h3::quic::ConnectionErrorIncoming;
    shared.get_conn_error().map(|o| match o {
        ErrorOrigin::Internal(e) => ConnErr::from_h3(&ConnectionError::Local { error: LocalError::from(e) }),
        ErrorOrigin::Quic(ConnectionErrorIncoming::Timeout) => ConnErr::Timeout,
        ErrorOrigin::Quic(q) => ConnErr::from_h3(&ConnectionError::Remote(q)),
    })
}

fn h3_closes(net: &Net, side: usize) -> Vec<sim::CloseInfo> {
    lock(net).close_calls.iter().filter(|c| c.by == side).cloned().collect()
}

/// Err = harness trouble (inconclusive)
pub fn run_scenario(shape: &Shape, kinds: &[Kind], sched: Sched) -> Result<RunResult, String> {
    let k = kinds.len();
    let mode = if matches!(sched, Sched::Forced(_)) { Mode::Forced } else { Mode::Free };
    let rig = Rig::new(mode, k + 1);
    // B: the waker of the task that makes the raced poll and every later poll
    let w = rig.waker();
    // A: the waker of an earlier poll on behalf of another task; nobody listens to it any more
    let stale = rig.stale_waker();
    let sc = build(shape, kinds, if shape.warm == Warm::Other { &stale } else { &w })?;
    let Scenario { net, h3_side, conn, handles, keep } = sc;
    let shared: Arc<SharedState> = match &conn {
        Conn::Srv(c) => c.inner.shared.clone(),
        Conn::Cli(c) => c.inner.shared.clone(),
    };
    rig.reset_wakes();
    let _ = rig.take_log(); // wakes of the set-up phase are not part of the experiment
    let plans: Vec<([u32; 5], u32)> = match &sched {
        Sched::Free(p) => p.clone(),
        Sched::Forced(_) => vec![([0; 5], 0); k + 1],
    };
    let op = shape.op;
    // actor 0: ONE driver poll; actors 1..=k: ONE handle call each (pool threads of this controller)
    let submitted = rr::with_pool(|pool| -> Result<_, String> {
        let driver_ticket = {
            let rig = rig.clone();
            let w = w.clone();
            let (spin, skew) = plans[0];
            let mut conn = conn;
            pool.submit(0, move || {
                let (r, log) = rig.enter(0, spin, skew, || panics::catch(|| poll_driver(&mut conn, op, &w)));
                (conn, r, log)
            })?
        };
        let mut stream_tickets = Vec::new();
        for (i, (h, kind)) in handles.into_iter().zip(kinds.iter().copied()).enumerate() {
            let rig = rig.clone();
            let (spin, skew) = plans[i + 1];
            let mut h = h;
            // a transport-reported error: cut at sim:inject (before the error enters h3) and at scw:1
            let pass: &'static [&'static str] = if kind.is_transport() { PASS_SCW0 } else { &[] };
            stream_tickets.push(pool.submit(i + 1, move || {
                let (r, log) = rig.enter_passing(i + 1, spin, skew, pass, || panics::catch(|| first_op(&mut h, kind)));
                (h, r, log)
            })?);
        }
        Ok((driver_ticket, stream_tickets))
    });
    let (driver_ticket, stream_tickets) = match submitted {
        Ok(x) => x,
        Err(e) => {
            // some actors may already be running: without the others they could park for ever
            rig.abort();
            rr::with_pool(|p| p.abandon());
            return Err(e);
        }
    };
    let mut decisions = Vec::new();
    let mut watchdog = false;
    let mut stored_seq: Vec<ConnErr> = Vec::new();
    if let Sched::Forced(choose) = sched {
        let net2 = net.clone();
        let mut seen = 0usize;
        let mut last: Option<ConnErr> = None;
        let mut observe = || {
            // every actor is parked or has finished: the scenario is quiescent
            let mut v = Vec::new();
            let cur = stored_error(&shared);
            if cur != last {
                v.push(format!("{}{}", CELL_OBS, cur.as_ref().map(show).unwrap_or_else(|| "empty".into())));
                if let Some(e) = &cur {
                    stored_seq.push(e.clone());
                }
                last = cur;
            }
            let n = lock(&net2);
            for c in n.close_calls.iter().skip(seen) {
                v.push(format!("close(by={}, code={:#x}, reason={:?})", sim::side_name(c.by), c.code, String::from_utf8_lossy(&c.reason)));
            }
            seen = n.close_calls.len();
            v
        };
        let end = rig.control(choose, &mut observe);
        decisions = end.decisions;
        watchdog = end.watchdog_fired;
    }
    let mut panic = None;
    let patience = rr::watchdog() + std::time::Duration::from_secs(5);
    let lost = |what: &str| {
        rr::with_pool(|p| p.abandon());
        format!("watchdog: the {} actor never returned (actor threads abandoned)", what)
    };
    let Some((mut conn, driver_first, dlog)) = driver_ticket.wait(patience) else {
        rig.abort();
        return Err(lost("driver"));
    };
    let driver_first = match driver_first {
        Ok(d) => d,
        Err(p) => {
            panic = Some(p);
            DriverOut::Unexpected("panic".into())
        }
    };
    let mut free_logs = vec![dlog];
    let mut handles: Vec<Handle> = Vec::new();
    let mut stream_first = Vec::new();
    for t in stream_tickets {
        let Some((h, r, log)) = t.wait(patience) else {
            rig.abort();
            return Err(lost("handle"));
        };
        handles.push(h);
        free_logs.push(log);
        match r {
            Ok(o) => stream_first.push(o),
            Err(p) => {
                panic.get_or_insert(p);
                stream_first.push(("panic", OpOut::Pending));
            }
        }
    }
    if watchdog {
        return Err("watchdog: no progress for 20 s in a forced schedule (threads released and joined)".into());
    }
    let wakes_during = rig.wakes();
    let stale_wakes_during = rig.stale_wakes();
    let log = rig.take_log();
    let stored_after_join = stored_error(&shared);
    let mut later = Vec::new();
    let mut driver_later = Vec::new();
    let mut closes_before_drop = Vec::new();
    if panic.is_none() {
        let r = panics::catch(|| {
            for (i, h) in handles.iter_mut().enumerate() {
                for (call, out) in later_calls(h, 0) {
                    later.push((i + 1, call, out));
                }
            }
            for _ in 0..3 {
                driver_later.push(poll_driver(&mut conn, op, &w));
            }
            for (i, h) in handles.iter_mut().enumerate() {
                for (call, out) in later_calls(h, 1) {
                    later.push((i + 1, call, out));
                }
            }
        });
        if let Err(p) = r {
            panic = Some(p);
        }
        closes_before_drop = h3_closes(&net, h3_side);
    }
    // dropping raises no new outcome: handles first, then the connection, then the SendRequest
    let r = panics::catch(move || {
        drop(handles);
        drop(conn);
        drop(keep);
    });
    if let Err(p) = r {
        panic.get_or_insert(p);
    }
    let closes_after_drop = h3_closes(&net, h3_side);
    let stored_final = stored_error(&shared);
    Ok(RunResult { log, free_logs, decisions, stored_seq, stored_after_join, stored_final, driver_first, stream_first, wakes_during, stale_wakes_during, later, driver_later, closes_before_drop, closes_after_drop, panic })
}

// ---------------------------------------------------------------------------------------------
// solo runs: what each call raises when it is alone

thread_local! {
    static OWN: RefCell<HashMap<(usize, Kind, bool), Result<ConnErr, String>>> = RefCell::new(HashMap::new());
    static DRIVER_OWN: RefCell<HashMap<Shape, Result<Option<ConnErr>, String>>> = RefCell::new(HashMap::new());
}

/// the connection error a handle call of this kind raises when nothing else happens
fn own_error(side: usize, kind: Kind, peer_close: bool) -> Result<ConnErr, String> {
    if let Some(r) = OWN.with(|m| m.borrow().get(&(side, kind, peer_close)).cloned()) {
        return r;
    }
    let r = (|| {
        let shape = Shape { side, op: DriverOp::Full, warm: Warm::Never, extra: if peer_close { Extra::PeerClose } else { Extra::None } };
        let w = Waker::noop().clone();
        let mut sc = build(&shape, &[kind], &w)?;
        let (_, out) = first_op(&mut sc.handles[0], kind);
        let reported = match out {
            OpOut::Err(AErr::Conn(c)) => Some(c),
            OpOut::Dropped => None,
            other => return Err(format!("solo {}: the call returned {:?} instead of a connection error", kind.name(), other)),
        };
        let d = poll_driver(&mut sc.conn, DriverOp::Full, &w);
        let stored = match d {
            DriverOut::Err(c) => c,
            // the call reported a connection error and the driver, polled afterwards, does not: the
            // statement's "the driver reports it on every later call" in the trivial schedule
            other if reported.is_some() => return Err(format!("solo {}: the call reported {:?} but the driver returned {:?} afterwards", kind.name(), reported, other)),
            other => return Err(format!("solo {}: the driver returned {:?} after the call", kind.name(), other)),
        };
        if let Some(r) = reported {
            if r != stored {
                return Err(format!("solo {}: the call reported {:?} but the driver {:?}", kind.name(), r, stored));
            }
        }
        let want = if peer_close && !kind.transport_independent() {
            ConnErr::RemoteApp { code: PEER_CLOSE_CODE }
        } else if let Some(code) = kind.expected_code() {
            ConnErr::Local { code, reason: String::new() }
        } else {
            kind.expected_transport_outcome().ok_or_else(|| format!("solo {}: no expectation in the scenario table", kind.name()))?
        };
        let ok = match (&want, &stored) {
            (ConnErr::RemoteApp { code: a }, ConnErr::RemoteApp { code: b }) => a == b,
            // an error h3 detects: the code is fixed, the reason text is h3's
            (ConnErr::Local { code: a, .. }, ConnErr::Local { code: b, .. }) => a == b,
            // an error the transport reports: variant and reason pass through unchanged
            (ConnErr::RemoteInternal(a), ConnErr::RemoteInternal(b)) => a == b,
            (ConnErr::Timeout, ConnErr::Timeout) => true,
            _ => false,
        };
        if !ok {
            return Err(format!("solo {}: raised {:?}, the scenario table expects {:?}", kind.name(), stored, want));
        }
        Ok(stored)
    })();
    OWN.with(|m| m.borrow_mut().insert((side, kind, peer_close), r.clone()));
    r
}

/// what the driver call of this shape finds on its own (None: it parks)
fn driver_own(shape: &Shape) -> Result<Option<ConnErr>, String> {
    if let Some(r) = DRIVER_OWN.with(|m| m.borrow().get(shape).cloned()) {
        return r;
    }
    let r = (|| {
        let w = Waker::noop().clone();
        let mut sc = build(shape, &[], &w)?;
        let d = poll_driver(&mut sc.conn, shape.op, &w);
        let want: Option<(bool, u64)> = match shape.extra {
            Extra::None | Extra::Closing => None,
            Extra::PeerClose => Some((false, PEER_CLOSE_CODE)),
            Extra::DriverDetect => Some((
                true,
                match (shape.op, shape.side) {
                    (DriverOp::Full, SERVER) => rf::H3_CLOSED_CRITICAL_STREAM,
                    _ => rf::H3_STREAM_CREATION_ERROR,
                },
            )),
        };
        match (d, want) {
            (DriverOut::Pending, None) => Ok(None),
            (DriverOut::Err(ConnErr::Local { code, reason }), Some((true, c))) if code == c => Ok(Some(ConnErr::Local { code, reason })),
            (DriverOut::Err(ConnErr::RemoteApp { code }), Some((false, c))) if code == c => Ok(Some(ConnErr::RemoteApp { code })),
            (d, want) => Err(format!("solo driver {}: returned {:?}, the scenario table expects {:?}", shape.name(), d, want)),
        }
    })();
    DRIVER_OWN.with(|m| m.borrow_mut().insert(*shape, r.clone()));
    r
}

// ---------------------------------------------------------------------------------------------
// judging

fn h3_detected(e: &ConnErr) -> bool {
    matches!(e, ConnErr::Local { .. } | ConnErr::RemoteInternal(_))
}

fn close_code_of(e: &ConnErr) -> Option<(u64, String)> {
    match e {
        ConnErr::Local { code, reason } => Some((*code, reason.clone())),
        ConnErr::RemoteInternal(r) => Some((rf::H3_INTERNAL_ERROR, r.clone())),
        _ => None,
    }
}

/// readable form with hexadecimal codes
fn show(e: &ConnErr) -> String {
    match e {
        ConnErr::Local { code, reason } => format!("Local({:#x}, {:?})", code, reason),
        ConnErr::RemoteApp { code } => format!("Remote(ApplicationClose {:#x})", code),
        ConnErr::RemoteInternal(r) => format!("Remote(InternalError {:?})", r),
        other => format!("{:?}", other),
    }
}

fn seg_name(point: &str) -> &'static str {
    match point {
        "driver:pce:0" => "check",
        "driver:pce:1" => "register",
        "driver:pce:2" => "rest",
        "stream:scw:0" => "store",
        // from the transport's report of the error to the wake hook (stream:scw:0 is passed)
        rr::INJECT => "transport error + store",
        "stream:scw:1" => "wake",
        _ => "?",
    }
}

fn actor_name(a: usize, kinds: &[Kind]) -> String {
    if a == 0 {
        "driver".into()
    } else {
        format!("handle{}[{}]", a - 1, kinds[a - 1].name())
    }
}

/// the executed schedule, one line per segment
fn written_schedule(log: &[Event], kinds: &[Kind]) -> Vec<String> {
    let mut v = Vec::new();
    for e in log {
        match &e.kind {
            EvKind::Release(p) => v.push(format!("{}: {} ({}..)", actor_name(e.actor.unwrap_or(0), kinds), seg_name(p), p)),
            EvKind::Wake => v.push(format!("    driver's waker woken by {}", e.actor.map(|a| actor_name(a, kinds)).unwrap_or_else(|| "?".into()))),
            EvKind::StaleWake => v.push(format!("    the waker of the driver's EARLIER poll (another task's, nobody listens to it) woken by {}", e.actor.map(|a| actor_name(a, kinds)).unwrap_or_else(|| "?".into()))),
            EvKind::Obs(o) => v.push(format!("    {}", o)),
            EvKind::Finish => v.push(format!("    {} returned", actor_name(e.actor.unwrap_or(0), kinds))),
            EvKind::Hook(_) => {}
        }
    }
    v
}

fn trace_sig(log: &[Event]) -> u64 {
    let v: Vec<(usize, &str)> = log.iter().filter_map(|e| if let EvKind::Release(p) = e.kind { Some((e.actor.unwrap_or(0), p)) } else { None }).collect();
    hash64(&v)
}

struct Issue {
    prio: u32,
    sig: String,
    detail: String,
}

pub struct Judged {
    pub winner: Option<ConnErr>,
    pub outcome: &'static str,
}

/// Evaluate the oracles on one run. `forced` selects oracle 1 (winner from the event order).
fn judge(shape: &Shape, kinds: &[Kind], run: &RunResult, forced: bool, rep: &mut Report, case: &Value) -> Option<Judged> {
    rep.evaluations += 1;
    if let Some(p) = &run.panic {
        if p.in_repo() {
            rep.violation(format!("C05/panic[{}:{}]", p.file(), p.msg_key()), format!("h3 panicked in scenario {} {:?}: {} at {}", shape.name(), kinds, p.msg, p.loc), case.clone());
        } else {
            rep.inconclusive(format!("harness panic in C05 scenario: {} at {}", p.msg, p.loc));
        }
        return None;
    }
    // own errors
    let peer = shape.extra == Extra::PeerClose;
    let mut own: Vec<ConnErr> = Vec::new();
    for kd in kinds {
        match own_error(shape.side, *kd, peer) {
            Ok(e) => own.push(e),
            Err(why) => {
                rep.inconclusive(why);
                return None;
            }
        }
    }
    let d_own = match driver_own(shape) {
        Ok(e) => e,
        Err(why) => {
            rep.inconclusive(why);
            return None;
        }
    };
    // the experiment must have done what was planned
    if let DriverOut::Unexpected(s) = &run.driver_first {
        rep.inconclusive(format!("scenario {}: driver poll: {}", shape.name(), s));
        return None;
    }
    for (i, (call, out)) in run.stream_first.iter().enumerate() {
        let ok = matches!(out, OpOut::Err(AErr::Conn(_))) || (kinds[i] == Kind::DropLast && *out == OpOut::Dropped);
        if !ok {
            rep.inconclusive(format!("scenario {}: {} {} did not raise a connection error in one poll: {:?}", shape.name(), kinds[i].name(), call, out));
            return None;
        }
    }
    let mut issues: Vec<Issue> = Vec::new();
    // ---- oracle 1: the winner = the first error stored. Ground truth: the error cell itself, read by
    // the controller at every decision point (forced) / after the join and at the end (free).
    let winner: Option<ConnErr>;
    let mut winner_who = "handle";
    // step at which the segment that performed the first store was released
    let mut store_seg_start: Option<u64> = None;
    // forced: the handle call whose segment performed the first store
    let mut storing_kind: Option<Kind> = None;
    if forced {
        let Some(pos) = run.log.iter().position(|e| matches!(&e.kind, EvKind::Obs(o) if o.starts_with(CELL_OBS))) else {
            rep.inconclusive(format!("scenario {}: no store was observed although every call returned", shape.name()));
            return None;
        };
        let Some(seg) = run.log[..pos].iter().rev().find(|e| matches!(e.kind, EvKind::Release(_))) else {
            rep.inconclusive(format!("scenario {}: an error was stored before any actor reached a hook", shape.name()));
            return None;
        };
        let storer = seg.actor.unwrap_or(0);
        store_seg_start = Some(seg.step);
        let stored = run.stored_seq[0].clone();
        let storers_own = if storer == 0 { d_own.clone() } else { Some(own[storer - 1].clone()) };
        if storers_own.as_ref() != Some(&stored) {
            issues.push(Issue {
                prio: 1,
                sig: "C05/first-store-holds-another-error".into(),
                detail: format!("the first store was made by {} (own error {:?}) but the cell then held {}", actor_name(storer, kinds), storers_own.as_ref().map(show), show(&stored)),
            });
        }
        if run.stored_seq.len() > 1 || run.stored_final.as_ref() != Some(&stored) {
            issues.push(Issue {
                prio: 1,
                sig: "C05/stored-error-replaced".into(),
                detail: format!("the error cell held {} first, later {:?}, at the end {:?}", show(&stored), run.stored_seq.iter().skip(1).map(show).collect::<Vec<_>>(), run.stored_final.as_ref().map(show)),
            });
        }
        if storer == 0 {
            winner_who = "driver";
        } else {
            storing_kind = Some(kinds[storer - 1]);
        }
        winner = Some(stored);
    } else {
        winner = run.stored_after_join.clone();
        if let Some(e) = &winner {
            if run.stored_final.as_ref() != Some(e) {
                issues.push(Issue { prio: 1, sig: "C05/stored-error-replaced".into(), detail: format!("the error cell held {} after the join, at the end {:?}", show(e), run.stored_final.as_ref().map(show)) });
            }
            if !own.contains(e) && d_own.as_ref() != Some(e) {
                issues.push(Issue {
                    prio: 1,
                    sig: "C05/stored-error-was-never-raised".into(),
                    detail: format!("the cell holds {} but the calls raised {:?} (driver itself: {:?})", show(e), own.iter().map(show).collect::<Vec<_>>(), d_own.as_ref().map(show)),
                });
            } else {
                // the order of the stores as far as the stamps decide it (see free_possible_winners):
                // the winner must not be an error that was certainly stored after another one
                let first_possible = free_possible_winners(run, &own, &d_own);
                rep.count(if first_possible.len() == 1 { "free_runs_store_order_decided_by_stamps" } else { "free_runs_store_order_open" });
                if !first_possible.contains(e) {
                    issues.push(Issue {
                        prio: 1,
                        sig: "C05/stored-error-was-raised-after-another".into(),
                        detail: format!("the cell holds {}, but by the hook stamps only {:?} can have been stored first", show(e), first_possible.iter().map(show).collect::<Vec<_>>()),
                    });
                }
            }
            if d_own.as_ref() == Some(e) && !own.contains(e) {
                winner_who = "driver";
            }
        }
    }
    let Some(win) = winner.clone() else {
        rep.inconclusive(format!("scenario {}: no error is stored although every call returned a connection error", shape.name()));
        return None;
    };
    // ---- oracle 3: everybody reports the winner
    if let DriverOut::Err(e) = &run.driver_first {
        if *e != win {
            issues.push(Issue { prio: 3, sig: "C05/driver-reports-other-error[first-poll]".into(), detail: format!("winner {:?}, the driver's poll returned {:?}", win, e) });
        }
    }
    for (i, d) in run.driver_later.iter().enumerate() {
        match d {
            DriverOut::Err(e) if *e == win => {}
            DriverOut::Err(e) => issues.push(Issue { prio: 4, sig: "C05/driver-reports-other-error[later-poll]".into(), detail: format!("winner {:?}, later driver poll #{} returned {:?}", win, i + 1, e) }),
            other => issues.push(Issue { prio: 4, sig: "C05/driver-does-not-report-stored-error[later-poll]".into(), detail: format!("winner {:?} is stored, later driver poll #{} returned {:?}", win, i + 1, other) }),
        }
    }
    for (i, (call, out)) in run.stream_first.iter().enumerate() {
        if let OpOut::Err(AErr::Conn(e)) = out {
            if *e != win {
                issues.push(Issue { prio: 3, sig: "C05/handle-reports-other-error[raising-call]".into(), detail: format!("winner {:?}, {} {} returned {:?}", win, actor_name(i + 1, kinds), call, e) });
            }
        }
    }
    for (who, call, out) in &run.later {
        rep.count(match out {
            OpOut::Err(AErr::Conn(_)) => "later_results[connection-error]",
            OpOut::Err(_) => "later_results[other-error]",
            OpOut::Pending => "later_results[pending]",
            _ => "later_results[ok]",
        });
        if let OpOut::Err(AErr::Conn(e)) = out {
            if *e != win {
                issues.push(Issue { prio: 4, sig: "C05/handle-reports-other-error[later-call]".into(), detail: format!("winner {:?}, later {} on {} returned {:?}", win, call, actor_name(*who, kinds), e) });
            }
        }
    }
    for d in &run.driver_later {
        rep.count(match d {
            DriverOut::Err(_) => "later_results[connection-error]",
            _ => "later_results[pending]",
        });
    }
    // ---- oracle 2: the transport close
    let first = run.closes_before_drop.first();
    rep.count(&match first {
        Some(c) => format!("h3_first_close[{:#x}]", c.code),
        None => "h3_first_close[none]".to_string(),
    });
    if run.closes_before_drop.len() > 1 {
        rep.count("h3_close_calls_beyond_the_first_before_drop");
    }
    for c in run.closes_after_drop.iter().skip(run.closes_before_drop.len()) {
        rep.count(&format!("close_from_drop_ignored[{:#x}]", c.code));
    }
    let closing = shape.extra == Extra::Closing;
    if closing {
        rep.count(&match first {
            Some(c) => format!("closing_first_close[{:#x}]", c.code),
            None => "closing_first_close[none]".to_string(),
        });
    }
    match (close_code_of(&win), first) {
        (Some((code, reason)), Some(c)) => {
            if closing && c.code == code {
                rep.count("closing_close_carries_the_winners_code");
            }
            if c.code != code {
                issues.push(Issue { prio: 5, sig: format!("C05/close-code[winner={:#x},closed={:#x}]", code, c.code), detail: format!("winner {:?} but the first close h3 issued is {:#x} {:?}", win, c.code, String::from_utf8_lossy(&c.reason)) });
            } else if c.reason != reason.as_bytes() {
                // the statement fixes the code only; the reason text is recorded, not judged
                rep.count("h3_first_close_reason_differs_from_reported_reason");
            }
        }
        (Some((code, _)), None) => {
            debug_assert!(h3_detected(&win));
            // a GOAWAY sent or received announces a graceful shutdown; it does not close anything. Same
            // rule, own signature: the scenario parameter tells the two apart
            let sig = if closing { "C05/close-missing[graceful-shutdown-begun]" } else { "C05/close-missing" };
            issues.push(Issue { prio: 5, sig: sig.into(), detail: format!("{}winner {:?} {} and the driver has been polled 3 more times, but h3 never closed the transport (expected close {:#x})", if closing { format!("{}: a graceful shutdown had begun (GOAWAY sent or received, requests still in flight): ", shape.name()) } else { String::new() }, win, if matches!(win, ConnErr::RemoteInternal(_)) { "is an internal error of the transport, which h3 has to close for with H3_INTERNAL_ERROR," } else { "was detected by h3" }, code) });
        }
        (None, Some(c)) => {
            issues.push(Issue { prio: 5, sig: "C05/close-although-winner-came-from-peer".into(), detail: format!("winner {:?} came from the peer / the transport (the connection is gone already) but h3 closed with {:#x}", win, c.code) });
        }
        (None, None) => {}
    }
    // ---- oracle 4: no lost wake-up. A wake issued before the error was stored cannot announce it (the
    // woken driver looks, finds nothing and parks again): forced runs count the wakes from the segment
    // that performed the first store onwards; free runs cannot order them and count every wake.
    // "The driver's waker" is the one handed to its most recent poll that returned Pending: the raced
    // poll's (B). A wake of the waker of an earlier poll made for another task (A, `Warm::Other`)
    // reaches nobody and is counted apart.
    let wakes_that_count = match store_seg_start {
        Some(s0) => run.log.iter().filter(|e| e.kind == EvKind::Wake && e.step > s0).count() as u64,
        None => run.wakes_during,
    };
    let stale_wakes_after_store = match store_seg_start {
        Some(s0) => run.log.iter().filter(|e| e.kind == EvKind::StaleWake && e.step > s0).count() as u64,
        None => run.stale_wakes_during,
    };
    let outcome = match &run.driver_first {
        DriverOut::Err(_) => "error-seen-directly",
        DriverOut::Pending if wakes_that_count > 0 => "pending-then-woken",
        _ => "lost-wakeup",
    };
    // Was the winner a connection error the transport reported on one handle's stream? Forced: the kind
    // of the call whose segment stored first; free: every call that can have raised the stored error.
    let transport_winner: Option<Kind> = match (forced, storing_kind) {
        (true, k) => k.filter(|k| k.is_transport()),
        (false, _) => {
            let raisers: Vec<Kind> = kinds.iter().zip(&own).filter(|(_, e)| **e == win).map(|(k, _)| *k).collect();
            if !raisers.is_empty() && raisers.iter().all(|k| k.is_transport()) && d_own.as_ref() != Some(&win) {
                Some(raisers[0])
            } else {
                None
            }
        }
    };
    if let Some(k) = transport_winner {
        let mode = if forced { "forced" } else { "free" };
        rep.count(&format!("transport_error_winner[{}]", k.name()));
        rep.count(&format!("transport_error_winner_outcome[{},{}]", mode, outcome));
    }
    if shape.warm == Warm::Other {
        let mode = if forced { "forced" } else { "free" };
        rep.count(&format!("other_waker_outcome[{},{}]", mode, outcome));
        if stale_wakes_after_store > 0 {
            // on a correct h3: the wake came before the raced poll registered its own waker, and that
            // poll then found the error itself
            rep.count(&format!("other_waker_runs_with_the_earlier_waker_woken_after_the_store[{}]", outcome));
        }
    }
    if outcome == "lost-wakeup" {
        rep.count(&format!("lost_wakeup_in[{}]", shape.name()));
        let (pat, mini) = lost_wakeup_pattern(run, kinds, store_seg_start, transport_winner.is_some(), stale_wakes_after_store);
        issues.push(Issue {
            prio: 0,
            sig: format!("C05/lost-wakeup[{}]", pat),
            detail: format!(
                "{} {:?}: the driver's poll returned Pending, {} is stored, and its waker was never woken: the driver task is parked forever (it only learns of the error if something else polls it). Minimal schedule: {}",
                shape.name(),
                kinds.iter().map(|k| k.name()).collect::<Vec<_>>(),
                show(&win),
                mini
            ),
        });
    }
    rep.count(&format!("outcome[{}]", outcome));
    rep.count(&format!("{}_outcome[{}]", if forced { "forced" } else { "free" }, outcome));
    rep.count(&format!("winner_is[{}]", winner_who));
    rep.count(&format!(
        "winner[{}]",
        match &win {
            ConnErr::Local { code, .. } => format!("local {:#x}", code),
            ConnErr::RemoteApp { code } => format!("peer close {:#x}", code),
            ConnErr::RemoteInternal(r) => format!("transport internal error on {}", if r == TRANSPORT_INTERNAL_REASON_SEND { "send" } else { "recv" }),
            ConnErr::Timeout => "transport timeout".to_string(),
            other => format!("{:?}", other),
        }
    ));
    report_root(issues, shape, kinds, run, forced, rep, case);
    Some(Judged { winner, outcome })
}

/// Free-running: the errors that can have been stored first, judged by the relaxed stamps. A call
/// stores somewhere between its thread's opening and closing stamps (no assumption about where the
/// hooks sit, or whether there are any); X was stored before Y for certain when end(X) < start(Y).
fn free_possible_winners(run: &RunResult, own: &[ConnErr], d_own: &Option<ConnErr>) -> Vec<ConnErr> {
    // (earliest possible store, latest possible store, error)
    let mut cands: Vec<(u64, u64, ConnErr)> = Vec::new();
    for (i, l) in run.free_logs.iter().enumerate().skip(1) {
        if let (Some(a), Some(b)) = (l.first(), l.last()) {
            if a.1 == rr::START && b.1 == rr::END {
                cands.push((a.0, b.0, own[i - 1].clone()));
            }
        }
    }
    if cands.len() + 1 != run.free_logs.len() {
        // a log without its opening/closing stamp: no statement about the order
        return own.iter().cloned().chain(d_own.iter().cloned()).collect();
    }
    if let (Some(de), DriverOut::Err(_)) = (d_own, &run.driver_first) {
        let d = &run.free_logs[0];
        if let (Some(a), Some(b)) = (d.first(), d.last()) {
            cands.push((a.0, b.0, de.clone()));
        }
    }
    let mut v: Vec<ConnErr> = Vec::new();
    for (i, c) in cands.iter().enumerate() {
        let certainly_later = cands.iter().enumerate().any(|(j, o)| j != i && o.1 < c.0);
        if !certainly_later && !v.contains(&c.2) {
            v.push(c.2.clone());
        }
    }
    v
}

/// Where did the first store and the wake calls fall relative to the driver's last pass through
/// `poll_connection_error`? (positional hook names; today pce:0.. is the check, pce:1.. the register)
fn lost_wakeup_pattern(run: &RunResult, kinds: &[Kind], store_seg_start: Option<u64>, transport_winner: bool, stale_wakes_after_store: u64) -> (String, String) {
    if stale_wakes_after_store > 0 {
        // the error WAS announced after it was stored - to the waker of an earlier poll of the driver
        // (another task's), not to the waker of the poll that returned Pending last
        return (
            "stale-waker-of-an-earlier-poll-woken-instead-of-the-last-polled-one".into(),
            format!(
                "driver: polled with waker A => Pending | driver: polled with waker B (the task it lives on now) => Pending | handle: store, wake => A woken {} time(s), B never{}",
                stale_wakes_after_store,
                if store_seg_start.is_some() { " (full order in the case)" } else { " (free-running; hook stamps in the case)" }
            ),
        );
    }
    let canonical = "pce:1<store<wake<register".to_string();
    // the storing call returned without ever reaching the wake hook, and the error it stored is one the
    // transport reported on its stream: another defect than a wake that came too early
    let no_wake_transport = "no-wake-call-after-the-store-of-a-transport-reported-error".to_string();
    let Some(s0) = store_seg_start else {
        if transport_winner && !run.free_logs.iter().skip(1).flatten().any(|(_, p)| *p == "stream:scw:1") {
            // no handle call of this run passed the hook in front of the wake: nothing was ever announced
            return (no_wake_transport, "free-running: no handle call reached stream:scw:1 (the wake); hook stamps in the case".into());
        }
        // Pending + error stored + no wake at all has a single explanation at hook granularity (the wake
        // found no registered waker and the cell was not looked at again): same root cause, same
        // signature as in the forced runs. The hook stamps go into the case as evidence.
        return (canonical, "free-running (order not forced; hook stamps in the case)".into());
    };
    let last_rel = |p: &'static str| run.log.iter().filter(|e| e.actor == Some(0) && e.kind == EvKind::Release(p)).last().map(|e| e.step);
    let (Some(c), Some(r)) = (last_rel("driver:pce:0"), last_rel("driver:pce:1")) else {
        return ("driver-left-before-pce:1".into(), "see the executed schedule in the case".into());
    };
    // segments entered at scw:1 (today: the wake call) from the storing segment onwards
    let wake_segs: Vec<&Event> = run.log.iter().filter(|e| e.kind == EvKind::Release("stream:scw:1") && e.step > s0).collect();
    let storer = run.log.iter().find(|e| e.step == s0).and_then(|e| e.actor).unwrap_or(1);
    if c < s0 && !wake_segs.is_empty() && wake_segs.iter().all(|w| w.step < r) {
        let mini = format!(
            "driver: check [cell empty], parked at driver:pce:1 | {w}: store | {w}: wake [AtomicWaker holds no waker: no-op] | driver: register | driver: rest => Pending{}",
            if kinds.len() > 1 { " (the other handles' store+wake fall into the same window; full order in the case)" } else { "" },
            w = actor_name(storer, kinds)
        );
        (canonical, mini)
    } else if wake_segs.is_empty() && transport_winner {
        let mini = format!(
            "driver: poll => Pending (waker registered, cell empty) | {w}: the transport reports a connection error on its stream, h3 stores it, {w} returns it - and no handle call passes stream:scw:1 (the wake) afterwards: nothing ever wakes the driver",
            w = actor_name(storer, kinds)
        );
        (no_wake_transport, mini)
    } else if wake_segs.is_empty() {
        ("no-wake-call-after-the-store".into(), "see the executed schedule in the case".into())
    } else {
        ("other-order".into(), "see the executed schedule in the case".into())
    }
}

fn report_root(mut issues: Vec<Issue>, shape: &Shape, kinds: &[Kind], run: &RunResult, forced: bool, rep: &mut Report, case: &Value) {
    if issues.is_empty() {
        return;
    }
    issues.sort_by_key(|i| i.prio);
    let root = &issues[0];
    let mut c = case.clone();
    if let Some(o) = c.as_object_mut() {
        o.insert("scenario".into(), json!(shape.name()));
        o.insert("handle_calls".into(), json!(kinds.iter().map(|k| k.name()).collect::<Vec<_>>()));
        if forced {
            o.insert("executed_schedule".into(), json!(written_schedule(&run.log, kinds)));
        } else {
            o.insert("hook_stamps".into(), json!(run.free_logs.iter().map(|l| l.iter().map(|(s, p)| format!("{}@{}", p, s)).collect::<Vec<_>>()).collect::<Vec<_>>()));
        }
        o.insert("driver_poll".into(), json!(format!("{:?}", run.driver_first)));
        o.insert("driver_later_polls".into(), json!(run.driver_later.iter().map(|d| format!("{:?}", d)).collect::<Vec<_>>()));
        o.insert("handle_calls_results".into(), json!(run.stream_first.iter().map(|(c, o)| format!("{} => {:?}", c, o)).collect::<Vec<_>>()));
        o.insert("closes_by_h3".into(), json!(run.closes_after_drop.iter().map(|c| format!("{:#x} {:?}", c.code, String::from_utf8_lossy(&c.reason))).collect::<Vec<_>>()));
        o.insert("other_symptoms".into(), json!(issues.iter().skip(1).map(|i| i.sig.clone()).collect::<Vec<_>>()));
    }
    rep.violation(root.sig.clone(), root.detail.clone(), c);
}

// ---------------------------------------------------------------------------------------------
// cases

/// coverage of the transport-reported errors: runs of each mode in which at least one handle call met one
fn account_transport(kinds: &[Kind], mode: &str, rep: &mut Report) {
    let mut any = false;
    for k in TRANSPORT_KINDS {
        if kinds.contains(&k) {
            any = true;
            rep.count(&format!("transport_error_runs[{},{}]", mode, k.name()));
        }
    }
    if any {
        rep.count(&format!("transport_error_runs[{},any]", mode));
    }
}

/// coverage of the two set-up dimensions: another waker in the driver's earlier poll; graceful shutdown begun
fn account_dimensions(shape: &Shape, mode: &str, rep: &mut Report) {
    if shape.warm == Warm::Other {
        rep.count(&format!("other_waker_runs[{}]", mode));
    }
    if shape.extra == Extra::Closing {
        rep.count(&format!("closing_runs[{}]", mode));
        rep.count(&format!(
            "closing_begun_by[{}]",
            match (shape.side, shape.op, shape.warm.polled()) {
                (SERVER, _, _) => "server-shutdown",
                (_, DriverOp::Full, true) => "client-processed-peer-goaway",
                _ => "client-shutdown",
            }
        ));
    }
}

fn account_forced(shape: &Shape, kinds: &[Kind], run: &RunResult, set: &str, rep: &mut Report) {
    rep.count("forced_schedules");
    let mode = if set.contains("[full") { "forced-full" } else { "forced-1pass" };
    account_transport(kinds, mode, rep);
    account_dimensions(shape, mode, rep);
    rep.add("wakes_of_the_earlier_polls_waker", run.stale_wakes_during);
    for (p, n) in rr::hook_hits(&run.log) {
        rep.add(&format!("hook_hits[{}]", p), n);
    }
    let driver_hits = run.log.iter().filter(|e| e.actor == Some(0) && matches!(e.kind, EvKind::Hook(_))).count() as u64;
    rep.max(&format!("max:driver_hook_hits[{}]", shape.name()), driver_hits);
    let t = trace_sig(&run.log);
    rep.sig(hash64(&(shape, kinds, t)));
    rep.sig_in(set, hash64(&(shape, kinds, t)));
    rep.add("wakes_of_driver_waker", run.wakes_during);
}

fn forced_seq_case(shape: &Shape, kinds: &[Kind], ord: u64, rep: &mut Report) {
    let k = kinds.len();
    let seq = rr::unrank_ordering(&seg_counts(k), ord);
    let mut ch = SeqChooser::new(seq.clone());
    let run = {
        let mut f = |p: &[(rr::ActorId, &'static str)]| ch.choose(p);
        run_scenario(shape, kinds, Sched::Forced(&mut f))
    };
    let run = match run {
        Ok(r) => r,
        Err(why) => {
            rep.inconclusive(why);
            return;
        }
    };
    if ch.overrun > 0 {
        rep.count("schedule_overrun");
    }
    rep.sig_in(&format!("priority_orders[1pass,k={}]", k), hash64(&(shape, kinds, &seq)));
    account_forced(shape, kinds, &run, &format!("executed_segment_orders[1pass,k={}]", k), rep);
    let case = json!({"priority_order": seq.iter().map(|a| actor_name(*a, kinds)).collect::<Vec<_>>(), "ordering_index": ord});
    let j = judge(shape, kinds, &run, true, rep, &case);
    if let Some(j) = j {
        // a few written-out schedules from different scenarios (fixed by the case alone)
        if rep.want_sample() && k == 2 && ord == 100 + (hash64(&(shape, kinds)) % 7) * 13 && hash64(&(shape, kinds)) % 11 == 0 {
            rep.sample(json!({"scenario": shape.name(), "handle_calls": kinds.iter().map(|k| k.name()).collect::<Vec<_>>(),
                "executed_schedule": written_schedule(&run.log, kinds), "driver_poll": format!("{:?}", run.driver_first),
                "winner": format!("{:?}", j.winner), "outcome": j.outcome,
                "later_driver_polls": run.driver_later.iter().map(|d| format!("{:?}", d)).collect::<Vec<_>>(),
                "closes_by_h3": run.closes_after_drop.iter().map(|c| format!("{:#x}", c.code)).collect::<Vec<_>>()}));
        }
    }
}

const DFS_CAP: u64 = 2_000_000;

fn forced_dfs_case(shape: &Shape, kinds: &[Kind], rep: &mut Report) {
    let mut dfs = Dfs::default();
    let mut n = 0u64;
    loop {
        dfs.begin();
        let run = {
            let mut f = |p: &[(rr::ActorId, &'static str)]| dfs.choose(p);
            run_scenario(shape, kinds, Sched::Forced(&mut f))
        };
        let run = match run {
            Ok(r) => r,
            Err(why) => {
                rep.inconclusive(why);
                return;
            }
        };
        n += 1;
        account_forced(shape, kinds, &run, &format!("executed_segment_orders[full,k={}]", kinds.len()), rep);
        let case = json!({"dfs_choices": run.decisions.iter().map(|d| d.0).collect::<Vec<_>>(), "schedule_number": n});
        judge(shape, kinds, &run, true, rep, &case);
        if !dfs.advance(&run.decisions) {
            break;
        }
        if n >= DFS_CAP {
            rep.inconclusive(format!("depth-first enumeration of {} {:?} cut off after {} schedules", shape.name(), kinds, n));
            break;
        }
    }
    rep.max(&format!("max:schedules_per_scenario[full,k={}]", kinds.len()), n);
}

fn free_case(seed: u64, rep: &mut Report) {
    let mut rng = Rng::new(seed);
    let all: Vec<Shape> = if cfg!(miri) { miri_entries().into_iter().map(|e| e.0).collect() } else { shapes(true).into_iter().chain(shapes(false)).collect() };
    // half of the runs without an error of the driver's own: only there can the poll end Pending
    let plain: Vec<Shape> = all.iter().copied().filter(|s| s.extra == Extra::None).collect();
    let shape = if rng.bool() { *rng.pick(&plain) } else { *rng.pick(&all) };
    let k = if cfg!(miri) { 1 } else { 1 + rng.usize(3) };
    let al = alphabet(&shape);
    let mut kinds: Vec<Kind> = Vec::new();
    while kinds.len() < k {
        let c = *rng.pick(&al);
        if c == Kind::DropLast && kinds.contains(&c) {
            continue;
        }
        kinds.push(c);
    }
    // delays: mostly none, sometimes a window-widening spin at one hook
    let cap: u64 = if cfg!(miri) { 20 } else { 10_000 };
    let mut plans = Vec::new();
    for a in 0..=k {
        let mut s = [0u32; 5];
        for (pi, x) in s.iter_mut().enumerate() {
            // the driver lingers inside its poll half of the time (the poll is short compared with
            // the jitter of the start line), everybody else mostly hurries
            let style = if a == 0 && pi < 3 && rng.bool() { 3 } else { rng.below(4) };
            *x = match style {
                0 => 0,
                1 => rng.below(30) as u32,
                2 => rng.below(cap / 10 + 1) as u32,
                _ => rng.below(cap + 1) as u32,
            };
        }
        // the driver mostly leaves the start line at once, the handle calls at all distances from
        // it, so that their store and wake land before, inside and after the driver's poll
        let skew = match (a, rng.below(4)) {
            (0, 0) => rng.below(cap / 10 + 1) as u32,
            (0, _) => 0,
            (_, 0) => 0,
            (_, 1) => rng.below(30) as u32,
            (_, 2) => rng.below(cap / 10 + 1) as u32,
            _ => rng.below(cap + 1) as u32,
        };
        plans.push((s, skew));
    }
    let run = match run_scenario(&shape, &kinds, Sched::Free(plans)) {
        Ok(r) => r,
        Err(why) => {
            rep.inconclusive(why);
            return;
        }
    };
    rep.count("free_iterations");
    rep.count(&format!("free_iterations[k={}]", k));
    account_transport(&kinds, "free", rep);
    account_dimensions(&shape, "free", rep);
    for l in &run.free_logs {
        for (_, p) in l {
            if *p != rr::END && *p != rr::START {
                rep.count(&format!("free_hook_hits[{}]", p));
            }
        }
    }
    // which interleaving class did the OS produce? (stamps are only evidence, never a verdict)
    let d = &run.free_logs[0];
    let mut stamps: Vec<(u64, usize, &str)> = Vec::new();
    for (a, l) in run.free_logs.iter().enumerate() {
        for (s, p) in l {
            stamps.push((*s, a, p));
        }
    }
    stamps.sort();
    let order: Vec<(usize, &str)> = stamps.iter().map(|x| (x.1, x.2)).collect();
    rep.sig(hash64(&(&shape, &kinds, &order)));
    rep.sig_in("free_hook_orders", hash64(&(&shape, &kinds, &order)));
    let overlapped = d.first().zip(d.last()).map(|(a, b)| stamps.iter().any(|x| x.1 != 0 && x.0 > a.0 && x.0 < b.0)).unwrap_or(false);
    if overlapped {
        rep.count("free_runs_with_handle_hooks_inside_the_driver_poll");
    }
    let case = json!({"free_running": true});
    judge(&shape, &kinds, &run, false, rep, &case);
}

fn solo_case(index: u64, rep: &mut Report) {
    let all: Vec<Shape> = shapes(true).into_iter().chain(shapes(false)).collect();
    let shape = all[index as usize];
    rep.evaluations += 1;
    match driver_own(&shape) {
        Ok(e) => rep.count(&format!("solo_driver[{}]", if e.is_some() { "finds-error" } else { "parks" })),
        Err(why) => rep.inconclusive(why),
    }
    for kd in alphabet(&shape) {
        match own_error(shape.side, kd, shape.extra == Extra::PeerClose) {
            Ok(_) => rep.count("solo_handle_calls"),
            Err(why) => {
                // a lone call whose report differs from the driver's is oracle 3 in the trivial schedule
                if why.contains("but the driver") {
                    rep.violation("C05/solo-call-and-driver-disagree", why, json!({"scenario": shape.name(), "call": kd.name()}));
                } else {
                    rep.inconclusive(why);
                }
            }
        }
    }
}

fn run_case(gen: &str, index: u64, seed: u64, _tier: Tier, rep: &mut Report) {
    panics::set_quiet(true);
    let one_pass_k = |k: usize, rep: &mut Report| {
        let n_ord = rr::n_orderings(&seg_counts(k));
        if cfg!(miri) {
            // the lite tier runs the first few indices only: the entries take turns
            let mut e = miri_entries();
            let n = e.len() as u64;
            let (s, c) = e.remove((index % n) as usize);
            forced_seq_case(&s, &c, (index / n) % n_ord, rep);
            return;
        }
        let t = table(true, k);
        let (s, c) = &t[(index / n_ord) as usize];
        forced_seq_case(s, c, index % n_ord, rep);
    };
    match gen {
        "solo" => solo_case(index, rep),
        "forced_1pass_k1" => one_pass_k(1, rep),
        "forced_1pass_k2" => one_pass_k(2, rep),
        "forced_1pass_k3" => one_pass_k(3, rep),
        "forced_full_k1" | "forced_full_k2" => {
            let k = if gen.ends_with('1') { 1 } else { 2 };
            let (s, c) = &table(false, k)[index as usize];
            forced_dfs_case(s, c, rep);
        }
        "forced_full_k3" => {
            let (s, c) = &table_full_k3()[index as usize];
            forced_dfs_case(s, c, rep);
        }
        "free_running" => free_case(seed, rep),
        _ => {}
    }
}
