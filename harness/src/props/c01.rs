//! C01 — end-to-end message fidelity: real h3 client <-> real h3 server over simquic.
//! Conservation/equality monitor at the client<->server API boundary + wire checker.

use crate::refimpl::frames::H3_NO_ERROR;
use crate::refimpl::wire;
use crate::report::Report;
use crate::sim::apps::{self, BodyBuf, ClientOpts, Ev, Msg, Out, Probe, ReqPlan, RespPlan, SegBuf, ServerOpts};
use crate::sim::msggen::{self, GenOpts};
use crate::sim::sched::{RunEnd, Sched};
use crate::sim::{self, lock, NetCfg, CLIENT, SERVER};
use crate::util::{hash64, hex_short, Rng};
use crate::{Gen, PropDef, Tier};
use bytes::Bytes;
use serde_json::json;

pub fn def() -> PropDef {
    PropDef {
        id: "C01",
        rule: "each case is one connection between the real h3 client and server over the simulated \
               transport with 1..3 exchanges: generated well-formed requests/responses (methods incl. \
               CONNECT/extended CONNECT and extension tokens, absolute-form targets with various \
               schemes/ports/long paths/queries, 0..12 fields with static-table hits and misses, \
               duplicate names, obs-text/SP/HTAB values, optional Host, bodies 0 B..64 KiB in 0..40 \
               send_data pieces incl. zero-length, optional trailers) x PRNG-chosen chunking, \
               partial-write budgets, task order, whole or split() streams. The monitor compares, \
               per exchange, what the sender's API calls were given with what the receiver's API \
               calls returned (method, scheme, authority, path+query, :protocol, per-name value \
               lists, body bytes exactly once in order, trailers, exactly one end indication), \
               requires every call to return without error and nothing pending at quiescence, no \
               close with an error code, and runs the RFC 9114 wire checker on every stream. \
               Non-trivial distinct = hash of (messages, transport configuration, interleaving \
               signature).",
        assumptions: || {
            vec![
                "simquic honours the transport contract of DESIGN.md §1 (in-order exactly-once bytes, non-empty chunks, FIN after last chunk)".into(),
                "inputs restricted to lowercase hosts/schemes, no userinfo, no leading/trailing whitespace in values (normalisations by the http crate are outside the property)".into(),
                "the one RFC normalisation applied: an empty path is compared as \"/\"".into(),
            ]
        },
        gens,
        run_case,
        finish,
    }
}

fn gens(tier: Tier) -> Vec<Gen> {
    vec![
        Gen::new("exchange_small", tier.pick(3, 1000, 60_000)),
        Gen::new("exchange_big_body", tier.pick(1, 60, 3_000)),
        Gen::new("exchange_segbuf", tier.pick(1, 200, 15_000)),
    ]
}

fn finish(tier: Tier, rep: &mut Report) {
    if tier == Tier::Lite {
        return;
    }
    for (k, floor) in [
        ("exchanges_checked", 100u64),
        ("cut_inside_frame_header", 50),
        ("cut_inside_payload", 50),
        ("partial_write_events", 50),
        ("mode[split]", 10),
        ("mode[whole]", 10),
        ("with_trailers", 10),
        ("with_duplicate_names", 10),
        ("with_empty_piece", 5),
        ("body_ge_32k", 3),
    ] {
        if rep.get(k) < floor {
            rep.inconclusive(format!("{} = {} below floor {}", k, rep.get(k), floor));
        }
    }
}

/// Violations of one case are staged and only the most specific one (closest to the root cause)
/// is reported: a single defect otherwise cascades into a dozen follow-on signatures.
fn viol(rep: &mut Report, rule: &str, detail: String, _case: &serde_json::Value) {
    rep.staged.push((priority(rule), rule.to_string(), detail));
}

fn priority(rule: &str) -> u32 {
    let order = [
        "panic@",
        "wire[",
        "early-eob-after-empty-DATA",
        "body-has-extra-bytes",
        "body-differs",
        "body-truncated",
        "method-differs",
        "authority-differs",
        "scheme-differs",
        "path-differs",
        "protocol-differs",
        "status-differs",
        "header-fields-differ",
        "trailer-fields-differ",
        "trailers-differ",
        "not-exactly-one-end-of-body",
        "server-call-failed",
        "client-call-failed",
        "connection-closed-with-error",
        "message-head-not-delivered",
        "request-never-accepted",
        "request-not-opened",
        "call-pending-at-quiescence",
    ];
    order.iter().position(|p| rule.starts_with(p)).unwrap_or(order.len()) as u32
}

pub fn flush_staged(rep: &mut Report, prefix: &str, case: &serde_json::Value) {
    let mut st = std::mem::take(&mut rep.staged);
    if st.is_empty() {
        return;
    }
    st.sort_by_key(|(p, _, _)| *p);
    let others: Vec<String> = st.iter().skip(1).map(|(_, r, _)| r.clone()).take(8).collect();
    let (_, rule, detail) = st.remove(0);
    let detail = if others.is_empty() { detail } else { format!("{} [also: {}]", detail, others.join(", ")) };
    rep.violation(format!("{}/{}", prefix, rule), detail, case.clone());
}

pub struct ExchangeCase {
    pub reqs: Vec<ReqPlan>,
    pub resps: Vec<RespPlan>,
    pub net: NetCfg,
    pub sequential: bool,
    pub sched_seed: u64,
}

pub fn describe(c: &ExchangeCase) -> serde_json::Value {
    json!({
        "exchanges": c.reqs.iter().zip(c.resps.iter()).map(|(q, r)| json!({
            "method": q.req.method, "uri": if q.req.uri.len() > 80 { format!("{}...", &q.req.uri[..80]) } else { q.req.uri.clone() },
            "protocol": q.req.protocol,
            "req_fields": q.req.headers.len(), "req_body_pieces": q.req.body.iter().map(|p| p.len()).collect::<Vec<_>>(),
            "req_trailers": q.req.trailers.as_ref().map(|t| t.len()),
            "split_client": q.split,
            "status": r.resp.status, "resp_fields": r.resp.headers.len(),
            "resp_body_pieces": r.resp.body.iter().map(|p| p.len()).collect::<Vec<_>>(),
            "resp_trailers": r.resp.trailers.as_ref().map(|t| t.len()),
            "split_server": r.split,
        })).collect::<Vec<_>>(),
        "net": {"chunk_style": c.net.chunk_style, "backpressure": c.net.backpressure, "max_budget_grant": c.net.max_budget_grant},
        "sequential": c.sequential,
    })
}

pub fn gen_case(rng: &mut Rng, o: &GenOpts, max_exchanges: usize) -> ExchangeCase {
    let n = 1 + rng.usize(max_exchanges);
    let mut reqs = Vec::new();
    let mut resps = Vec::new();
    for _ in 0..n {
        // split right after the head, or late: after a few body pieces were read on the whole
        // stream (the split may then fall in the middle of a DATA frame)
        let late = |rng: &mut Rng, split: bool| {
            if split && rng.chance(1, 2) {
                Some(if rng.chance(1, 4) { apps::SPLIT_AFTER_BODY } else { rng.usize(4) })
            } else {
                None
            }
        };
        let split = rng.chance(1, 3);
        reqs.push(ReqPlan {
            req: msggen::gen_request(rng, o),
            split,
            late_split: late(rng, split),
            ..Default::default()
        });
        let split = rng.chance(1, 3);
        resps.push(RespPlan {
            resp: msggen::gen_response(rng, o),
            split,
            late_split: late(rng, split),
            ..Default::default()
        });
    }
    ExchangeCase {
        reqs,
        resps,
        net: NetCfg::random(rng),
        sequential: rng.chance(1, 3),
        sched_seed: rng.next(),
    }
}

pub struct RunResult {
    pub probe: Probe,
    pub net: sim::Net,
    pub end: RunEnd,
    pub sched_sig: u64,
    pub steps: u64,
    pub pending: Vec<String>,
    pub panic: Option<(String, crate::panics::PanicInfo)>,
    pub pending_then_woken: u64,
}

pub fn run_exchange<B: BodyBuf>(c: &ExchangeCase, step_cap: u64) -> RunResult {
    let net = sim::new_net(c.net.clone());
    let probe = Probe::new(&net);
    let mut sched = Sched::new(net.clone(), c.sched_seed);
    let sopts = ServerOpts {
        plans: c.resps.clone(),
        latch: true,
        ..Default::default()
    };
    // the client keeps its last SendRequest handle (and so the connection) until the server's
    // request tasks are over as well
    probe.latch_add(c.resps.iter().map(|r| if r.split { 2 } else { 1 }).sum());
    let copts = ClientOpts {
        reqs: c.reqs.clone(),
        sequential: c.sequential,
        ..Default::default()
    };
    let sp = sched.spawner.clone();
    sched.spawn("s:conn", apps::server_main::<B>(net.clone(), sopts, probe.clone(), sp.clone()));
    sched.spawn("c:conn", apps::client_main::<B>(net.clone(), copts, probe.clone(), sp));
    let end = sched.run(step_cap);
    let pending = sched.pending_tasks().iter().map(|s| s.to_string()).collect();
    let panic = sched.first_panic().map(|(n, p)| (n.to_string(), p.clone()));
    RunResult {
        probe,
        net,
        end,
        sched_sig: sched.sig,
        steps: sched.steps,
        pending,
        panic,
        pending_then_woken: sched.pending_then_woken(),
    }
}

fn first_err(evs: &[Ev]) -> Option<&Ev> {
    evs.iter().find(|e| matches!(e.out, Out::Err(_) | Out::ConnErr(_)))
}

/// Normalise a URI string into (scheme, authority, path_and_query) with "" -> "/".
fn split_uri(u: &str) -> (Option<String>, Option<String>, String) {
    let uri: http::Uri = u.parse().expect("valid uri");
    let pq = uri.path_and_query().map(|p| p.as_str().to_string()).unwrap_or_default();
    (
        uri.scheme_str().map(|s| s.to_string()),
        uri.authority().map(|a| a.as_str().to_string()),
        if pq.is_empty() { "/".to_string() } else { pq },
    )
}

/// The body as seen by a receiver: (bytes, index of the first `None`, events after it)
fn received_body(evs: &[Ev]) -> (Vec<u8>, usize, usize) {
    let mut data = Vec::new();
    let mut nones = 0;
    let mut data_after_none = 0;
    for e in evs.iter().filter(|e| e.op == "recv_data") {
        match &e.out {
            Out::Data(d) => {
                if nones > 0 {
                    data_after_none += 1;
                }
                data.extend_from_slice(d);
            }
            Out::None => nones += 1,
            _ => {}
        }
    }
    (data, nones, data_after_none)
}

pub fn check_direction_pub(dir: &str, sent: &Msg, head: Option<&Ev>, evs: &[Ev], rep: &mut Report, case: &serde_json::Value) {
    check_direction(dir, sent, head, evs, rep, case)
}

/// Compare one direction of one exchange. `sent` is what the sender's API was given, `evs` the
/// receiver's events.
fn check_direction(
    dir: &str,
    sent: &Msg,
    head: Option<&Ev>,
    evs: &[Ev],
    rep: &mut Report,
    case: &serde_json::Value,
) {
    // head
    match head.map(|e| &e.out) {
        Some(Out::Request { method, uri, headers, protocol, .. }) => {
            if *method != sent.method {
                viol(rep, "method-differs", format!("{}: sent {} received {}", dir, sent.method, method), case);
            }
            let (s1, a1, p1) = split_uri(&sent.uri);
            let (s2, a2, p2) = split_uri(uri);
            let connect_tunnel = sent.method == "CONNECT" && sent.protocol.is_none();
            if a1 != a2 {
                viol(rep, "authority-differs", format!("{}: sent {:?} received {:?}", dir, a1, a2), case);
            }
            if !connect_tunnel {
                // h3 fills in https when the caller's URI has no scheme; generated URIs always have one
                if s1 != s2 {
                    viol(rep, "scheme-differs", format!("{}: sent {:?} received {:?}", dir, s1, s2), case);
                }
                if p1 != p2 {
                    viol(rep, "path-differs", format!("{}: sent {:?} received {:?}", dir, p1, p2), case);
                }
            }
            if *protocol != sent.protocol {
                viol(rep, "protocol-differs", format!("{}: sent {:?} received {:?}", dir, sent.protocol, protocol), case);
            }
            check_fields(dir, "header", &sent.headers, headers, rep, case);
        }
        Some(Out::Response { status, headers }) => {
            if *status != sent.status {
                viol(rep, "status-differs", format!("{}: sent {} received {}", dir, sent.status, status), case);
            }
            check_fields(dir, "header", &sent.headers, headers, rep, case);
        }
        Some(other) => {
            viol(rep, "message-head-not-delivered", format!("{}: head call returned {:?}", dir, short_out(other)), case);
            return;
        }
        None => {
            viol(rep, "message-head-not-delivered", format!("{}: head call never returned", dir), case);
            return;
        }
    }
    // body
    let want = sent.body_concat();
    let (got, nones, after) = received_body(evs);
    if got != want {
        let rule = if got.len() < want.len() && want.starts_with(&got) {
            "body-truncated"
        } else if got.len() > want.len() && got.starts_with(&want) {
            "body-has-extra-bytes"
        } else {
            "body-differs"
        };
        // narrow signature for the known class: end-of-body reported at a zero-length DATA frame
        let empties = sent.body.iter().any(|p| p.is_empty());
        let sig = if rule == "body-truncated" && empties {
            let upto: usize = sent.body.iter().take_while(|p| !p.is_empty()).map(|p| p.len()).sum();
            if got.len() == upto {
                "early-eob-after-empty-DATA"
            } else {
                rule
            }
        } else {
            rule
        };
        viol(
            rep,
            sig,
            format!("{}: sent {} B in pieces {:?}, received {} B ({} ..)", dir, want.len(), sent.body.iter().map(|p| p.len()).take(12).collect::<Vec<_>>(), got.len(), hex_short(&got, 8)),
            case,
        );
    }
    if nones != 1 || after != 0 {
        viol(rep, "not-exactly-one-end-of-body", format!("{}: recv_data returned None {} times, {} data events after it", dir, nones, after), case);
    }
    // trailers
    let tr = evs.iter().find(|e| e.op == "recv_trailers");
    match (tr.map(|e| &e.out), &sent.trailers) {
        (Some(Out::Trailers(t)), Some(want)) => check_fields(dir, "trailer", want, t, rep, case),
        (Some(Out::None), None) => {}
        // a sender that supplied an empty trailer map still sends a (empty) trailer section
        (Some(Out::Trailers(t)), None) if t.is_empty() => {}
        (Some(Out::None), Some(w)) if w.is_empty() => {}
        (got, want) => viol(
            rep,
            "trailers-differ",
            format!("{}: sent {:?} received {:?}", dir, want.as_ref().map(|t| t.len()), got.map(short_out)),
            case,
        ),
    }
}

fn short_out(o: &Out) -> String {
    match o {
        Out::Data(d) => format!("Data({} B)", d.len()),
        other => {
            let s = format!("{:?}", other);
            if s.len() > 200 {
                format!("{}...", &s[..200])
            } else {
                s
            }
        }
    }
}

fn check_fields(dir: &str, what: &str, sent: &apps::Fields, got: &apps::Fields, rep: &mut Report, case: &serde_json::Value) {
    let a = msggen::per_name(sent);
    let b = msggen::per_name(got);
    if a != b {
        // find the first differing name
        let mut detail = String::new();
        for (n, v) in &a {
            if b.get(n) != Some(v) {
                detail = format!("name {:?}: sent {:?} received {:?}", n, v.iter().map(|x| hex_short(x, 12)).collect::<Vec<_>>(), b.get(n).map(|l| l.iter().map(|x| hex_short(x, 12)).collect::<Vec<_>>()));
                break;
            }
        }
        if detail.is_empty() {
            for n in b.keys() {
                if !a.contains_key(n) {
                    detail = format!("unexpected name {:?}", n);
                    break;
                }
            }
        }
        viol(rep, &format!("{}-fields-differ", what), format!("{}: {}", dir, detail), case);
    }
}

/// Transport-level coverage counters: where did chunk cuts fall relative to frames.
pub fn cut_coverage(net: &sim::NetInner, rep: &mut Report) {
    use crate::refimpl::frames as rf;
    for (id, s) in net.streams.iter() {
        let (_, bidi) = sim::id_kind(*id);
        for sender in 0..2 {
            let Some(p) = s.pipes[sender].as_ref() else { continue };
            rep.add("partial_write_events", p.partial_writes);
            if !bidi || p.cut_log.is_empty() {
                continue;
            }
            let (frames, _) = rf::segment(&p.sent);
            for cut in &p.cut_log {
                if *cut == p.sent.len() {
                    continue;
                }
                let mut cls = "cut_on_frame_boundary";
                for f in &frames {
                    if *cut > f.start && *cut < f.payload_start {
                        cls = "cut_inside_frame_header";
                        break;
                    }
                    if *cut > f.payload_start && *cut < f.end() {
                        cls = "cut_inside_payload";
                        break;
                    }
                    if *cut == f.payload_start && !f.payload.is_empty() {
                        cls = "cut_between_header_and_payload";
                        break;
                    }
                }
                rep.count(cls);
            }
        }
    }
}

pub fn evaluate(c: &ExchangeCase, r: &RunResult, rep: &mut Report, buf_name: &str) {
    let case = describe(c);
    rep.evaluations += 1;
    if r.end == RunEnd::StepCap {
        rep.inconclusive(format!("step cap reached after {} steps", r.steps));
        return;
    }
    if let Some((task, p)) = &r.panic {
        viol(rep, &format!("panic@{}", p.file()), format!("task {} panicked: {} at {}", task, p.msg, p.loc), &case);
        flush_staged(rep, "C01", &case);
        return;
    }
    let net = lock(&r.net);
    // no close with an error code
    for cl in &net.close_calls {
        if cl.code != H3_NO_ERROR {
            viol(
                rep,
                "connection-closed-with-error",
                format!("{} closed with {:#x} ({})", sim::side_name(cl.by), cl.code, String::from_utf8_lossy(&cl.reason)),
                &case,
            );
        }
    }
    // nothing left pending at quiescence
    if !r.pending.is_empty() {
        let open = r.probe.open();
        viol(
            rep,
            "call-pending-at-quiescence",
            format!("tasks {:?} not finished; open calls {:?}", r.pending, open),
            &case,
        );
    }
    let evs = r.probe.events();
    if rep.verbose {
        for e in &evs {
            eprintln!("  t={} {} {} -> {}", e.t, e.actor, e.op, short_out(&e.out));
        }
        for cl in &net.close_calls {
            eprintln!("  close by {} code {:#x} at t={}", sim::side_name(cl.by), cl.code, cl.time);
        }
    }
    for (i, q) in c.reqs.iter().enumerate() {
        rep.count("exchanges_checked");
        rep.count(if q.split { "mode[split]" } else { "mode[whole]" });
        if q.split && q.late_split.is_some() {
            rep.count("mode[client split after reading part of the response body]");
        }
        if c.resps.get(i).map(|p| p.split && p.late_split.is_some()).unwrap_or(false) {
            rep.count("mode[server split after reading part of the request body]");
        }
        let cact = format!("c:req#{}", i);
        let cevs: Vec<Ev> = evs.iter().filter(|e| e.actor == cact || e.actor.starts_with(&format!("{}:", cact))).cloned().collect();
        if let Some(e) = first_err(&cevs) {
            viol(rep, &format!("client-call-failed[{}]", e.op), format!("{} {} -> {}", e.actor, e.op, short_out(&e.out)), &case);
        }
        let sid = cevs.iter().find_map(|e| if let Out::Opened(s) = e.out { Some(s) } else { None });
        let Some(sid) = sid else {
            viol(rep, "request-not-opened", format!("{}: no stream", cact), &case);
            continue;
        };
        let sact = format!("s:req@{}", sid);
        let sevs: Vec<Ev> = evs.iter().filter(|e| e.actor == sact || e.actor.starts_with(&format!("{}:", sact))).cloned().collect();
        if let Some(e) = first_err(&sevs) {
            viol(rep, &format!("server-call-failed[{}]", e.op), format!("{} {} -> {}", e.actor, e.op, short_out(&e.out)), &case);
        }
        // which response plan did the server use: plans are assigned in accept order
        let accept_order: Vec<u64> = evs.iter().filter_map(|e| if let Out::Accepted(s) = e.out { Some(s) } else { None }).collect();
        let Some(pos) = accept_order.iter().position(|s| *s == sid) else {
            viol(rep, "request-never-accepted", format!("stream {} not returned by accept()", sid), &case);
            continue;
        };
        let resp = &c.resps[pos.min(c.resps.len() - 1)];
        rep.count(if resp.split { "mode[split]" } else { "mode[whole]" });
        check_direction(&format!("request on stream {}", sid), &q.req, sevs.iter().find(|e| e.op == "resolve_request"), &sevs, rep, &case);
        check_direction(&format!("response on stream {}", sid), &resp.resp, cevs.iter().find(|e| e.op == "recv_response"), &cevs, rep, &case);
        for m in [&q.req, &resp.resp] {
            if m.trailers.is_some() {
                rep.count("with_trailers");
            }
            if msggen::per_name(&m.headers).values().any(|v| v.len() > 1) {
                rep.count("with_duplicate_names");
            }
            if m.body.iter().any(|p| p.is_empty()) {
                rep.count("with_empty_piece");
            }
            if m.body_concat().len() >= 32 * 1024 {
                rep.count("body_ge_32k");
            }
            if m.method == "CONNECT" {
                rep.count("connect_requests");
            }
        }
    }
    // wire checker on both sides
    for side in [CLIENT, SERVER] {
        let (finds, st) = wire::check_output(&net, side, wire::WireOpts::default());
        rep.add("wire_frames_parsed", st.frames);
        rep.add("wire_streams_checked", st.streams_checked);
        for f in finds {
            viol(rep, &format!("wire[{}]", f.rule), format!("{} stream {}: {}", sim::side_name(side), f.stream, f.detail), &case);
        }
    }
    cut_coverage(&net, rep);
    rep.add("pending_then_woken", r.pending_then_woken);
    rep.add("sched_steps", r.steps);
    rep.count(&format!("buf[{}]", buf_name));
    rep.count(&format!("chunk_style[{}]", c.net.chunk_style));
    if c.net.backpressure {
        rep.count("backpressure_on");
    }
    rep.sig(hash64(&(format!("{:?}", case), r.sched_sig)));
    rep.sig_in("interleaving_signatures", r.sched_sig);
    if rep.want_sample() {
        rep.sample(json!({"case": case, "steps": r.steps, "interleaving_signature": format!("{:016x}", r.sched_sig)}));
    }
    drop(net);
    flush_staged(rep, "C01", &case);
}

fn run_case(gen: &str, _index: u64, seed: u64, tier: Tier, rep: &mut Report) {
    let mut rng = Rng::new(seed);
    match gen {
        "exchange_small" => {
            let o = GenOpts {
                max_body: if tier == Tier::Lite { 300 } else { 6000 },
                ..Default::default()
            };
            let c = gen_case(&mut rng, &o, 3);
            let r = run_exchange::<Bytes>(&c, 10_000_000);
            evaluate(&c, &r, rep, "Bytes");
        }
        "exchange_big_body" => {
            if tier == Tier::Lite {
                // the lite tier runs under Miri / sanitizers: 64 KiB through 1-byte chunks takes
                // the interpreter half an hour; the small exchanges drive the same code
                rep.count("big_body_skipped_in_lite_tier");
                return;
            }
            let o = GenOpts {
                max_body: 64 * 1024,
                ..Default::default()
            };
            let mut c = gen_case(&mut rng, &o, 1);
            // force at least one large body
            if rng.bool() {
                c.reqs[0].req.body = big_body(&mut rng);
                if c.reqs[0].req.method == "CONNECT" && c.reqs[0].req.protocol.is_none() {
                    c.reqs[0].req.method = "POST".into();
                    c.reqs[0].req.uri = format!("https://{}/upload", c.reqs[0].req.uri);
                }
            } else {
                c.resps[0].resp.body = big_body(&mut rng);
            }
            let r = run_exchange::<Bytes>(&c, 60_000_000);
            evaluate(&c, &r, rep, "Bytes");
        }
        "exchange_segbuf" => {
            let o = GenOpts {
                max_body: if tier == Tier::Lite { 300 } else { 6000 },
                ..Default::default()
            };
            let c = gen_case(&mut rng, &o, 2);
            let r = run_exchange::<SegBuf>(&c, 10_000_000);
            evaluate(&c, &r, rep, "SegBuf");
        }
        _ => {}
    }
}

fn big_body(rng: &mut Rng) -> Vec<Vec<u8>> {
    let total = 32 * 1024 + rng.usize(32 * 1024 + 1);
    let k = rng.next();
    let data: Vec<u8> = (0..total).map(|i| ((i as u64).wrapping_mul(31).wrapping_add(k) >> 2) as u8).collect();
    let pieces = 1 + rng.usize(40);
    let mut cuts: Vec<usize> = (0..pieces - 1).map(|_| rng.usize(total + 1)).collect();
    cuts.sort_unstable();
    let mut out = Vec::new();
    let mut prev = 0;
    for c in cuts.into_iter().chain(std::iter::once(total)) {
        out.push(data[prev..c].to_vec());
        prev = c;
    }
    out
}
