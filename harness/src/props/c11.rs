//! C11 — QPACK field sections (stateless: static table + literals) vs RFC 9204.
//! Differential monitor: h3's `encode_stateless` / `decode_stateless` against the reference
//! decoder/encoder in refimpl/qpack.rs (Huffman via octets).

use crate::refimpl::qpack::{self as rq, EncOpts, Field, Stateless};
use crate::refimpl::static_table::STATIC_TABLE;
use crate::report::Report;
use crate::util::{hash64, hex_short, Rng};
use crate::{Gen, PropDef, Tier};
use h3::qpack::{decode_stateless, encode_stateless, DecoderError, HeaderField};
use serde_json::json;

pub fn def() -> PropDef {
    PropDef {
        id: "C11",
        rule: "encode: field lists with names/values over all byte values, lengths 0..300, every \
               static-table entry hit by name+value and by name only, are encoded by h3 and decoded \
               by the reference (must give the input list, prefix 00 00, static/literal lines only, \
               size = sum(name+value+32)). decode: all 65536 two-byte prefixes, every body of 0..2 \
               bytes after prefix 00 00 (complete; 0..3 bytes in thorough), grammar-directed \
               mutations of reference encodings (Huffman on/off, N bit, padded integers, index \
               >= 99, T=0, post-base forms, truncation, bit flips) and random strings are decoded \
               by h3 and judged by the reference as MUST_ACCEPT(fields) / MUST_REJECT / DONT_CARE. \
               Non-trivial = distinct input bytes or field list; enumerations counted by \
               construction, generated cases by hash.",
        assumptions: || {
            vec![
                "reference RFC 9204 decoder/encoder (refimpl/qpack.rs), its static table transcription and octets' Huffman decoder are correct".into(),
                "don't-care: RIC 0 with a positive Base; integers >= 2^62 or with >= 10 continuation bytes (implementation limits)".into(),
                "decode_stateless is called with max_size = u64::MAX here (the size limit is C10's)".into(),
            ]
        },
        gens,
        run_case,
        finish,
    }
}

fn gens(tier: Tier) -> Vec<Gen> {
    vec![
        Gen::exhaustive("encode_static_entries", 99),
        Gen::new("encode_random_lists", tier.pick(2, 400, 40_000)),
        Gen::exhaustive("decode_prefix_all_2_bytes", 256),
        Gen::exhaustive("decode_prefix_boundary_values", 1),
        Gen::exhaustive("decode_body_len_0_2", 257),
        if tier == Tier::Thorough {
            Gen::exhaustive("decode_body_len_3", 65536)
        } else {
            Gen::new("decode_body_len_3_sample", tier.pick(2, 400, 0))
        },
        Gen::new("decode_mutations", tier.pick(2, 600, 60_000)),
        Gen::new("decode_random", tier.pick(2, 300, 30_000)),
    ]
}

fn finish(_tier: Tier, rep: &mut Report) {
    for (k, floor) in [
        ("encode_checked", 1_000u64),
        ("decode_checked", 100_000),
        ("ref[must_accept]", 1_000),
        ("ref[must_reject]", 10_000),
        ("static_exact_hit", 99),
        ("static_name_hit", 99),
        ("literal_name", 100),
    ] {
        if rep.get(k) < floor {
            rep.inconclusive(format!("{} = {} below floor {}", k, rep.get(k), floor));
        }
    }
}

fn viol(rep: &mut Report, rule: &str, detail: String, case: serde_json::Value) {
    rep.violation(format!("C11/{}", rule), detail, case);
}

fn fields_json(f: &[Field]) -> serde_json::Value {
    json!(f
        .iter()
        .take(6)
        .map(|(n, v)| format!("{}={}", hex_short(n, 16), hex_short(v, 16)))
        .collect::<Vec<_>>())
}

fn check_encode(fields: &[Field], rep: &mut Report) {
    rep.evaluations += 1;
    rep.count("encode_checked");
    let hf: Vec<HeaderField> = fields
        .iter()
        .map(|(n, v)| HeaderField::new(n.clone(), v.clone()))
        .collect();
    let case = json!({"fields": fields_json(fields), "n": fields.len()});
    let mut block: Vec<u8> = Vec::new();
    let r = crate::panics::catch(|| encode_stateless(&mut block, hf));
    let size = match r {
        Err(p) => {
            viol(rep, "encode-panics", format!("{} at {}", p.msg, p.loc), case);
            return;
        }
        Ok(Err(e)) => {
            viol(rep, "encode-fails", format!("encode_stateless failed: {:?}", e), case);
            return;
        }
        Ok(Ok(s)) => s,
    };
    if size != rq::section_size(fields) {
        viol(
            rep,
            "encode-size-wrong",
            format!("returned size {} expected {}", size, rq::section_size(fields)),
            case.clone(),
        );
    }
    if block.len() < 2 || block[0] != 0 || block[1] != 0 {
        viol(
            rep,
            "encode-prefix-not-0000",
            format!("block starts with {}", hex_short(&block, 4)),
            case.clone(),
        );
    }
    match rq::judge_stateless(&block) {
        Stateless::MustAccept(f) => {
            if f != fields {
                viol(
                    rep,
                    "encode-decodes-to-other-fields",
                    format!("reference decodes h3's block {} to {} (input {})", hex_short(&block, 32), fields_json(&f), fields_json(fields)),
                    case.clone(),
                );
            }
        }
        other => viol(
            rep,
            "encode-not-valid-stateless-section",
            format!("reference says {:?} for h3's block {}", short_verdict(&other), hex_short(&block, 32)),
            case.clone(),
        ),
    }
    // what h3 writes, h3 reads
    let mut rd = &block[..];
    match crate::panics::catch(|| decode_stateless(&mut rd, u64::MAX)) {
        Ok(Ok(d)) => {
            let got: Vec<Field> = d.fields.iter().map(|f| (f.name.to_vec(), f.value.to_vec())).collect();
            if got != fields || d.mem_size != rq::section_size(fields) {
                viol(rep, "self-roundtrip", format!("h3 decodes its own block to {} size {}", fields_json(&got), d.mem_size), case);
            }
        }
        Ok(Err(e)) => viol(rep, "self-roundtrip", format!("h3 cannot decode its own block: {:?}", e), case),
        Err(p) => viol(rep, "decode-panics", format!("{} at {}", p.msg, p.loc), case),
    }
    if rep.want_sample() && fields.len() == 2 {
        rep.sample(json!({"encode": fields_json(fields), "h3_block": hex_short(&block, 48)}));
    }
}

fn short_verdict(v: &Stateless) -> String {
    match v {
        Stateless::MustAccept(f) => format!("MUST_ACCEPT {} fields", f.len()),
        Stateless::MustReject(w) => format!("MUST_REJECT {}", w),
        Stateless::DontCare(_, w) => format!("DONT_CARE {}", w),
    }
}

fn check_decode(bytes: &[u8], rep: &mut Report) {
    rep.evaluations += 1;
    rep.count("decode_checked");
    let verdict = rq::judge_stateless(bytes);
    let mut rd = bytes;
    let got = crate::panics::catch(|| decode_stateless(&mut rd, u64::MAX));
    let case = json!({"section": hex_short(bytes, 64), "len": bytes.len()});
    let got = match got {
        Err(p) => {
            viol(rep, "decode-panics", format!("section {}: {} at {}", hex_short(bytes, 32), p.msg, p.loc), case);
            return;
        }
        Ok(g) => g,
    };
    let to_fields = |d: &h3::qpack::Decoded| -> Vec<Field> {
        d.fields.iter().map(|f| (f.name.to_vec(), f.value.to_vec())).collect()
    };
    match (&verdict, got) {
        (Stateless::MustAccept(f), Ok(d)) => {
            rep.count("ref[must_accept]");
            let g = to_fields(&d);
            if g != *f {
                viol(rep, "decode-wrong-fields", format!("section {}: h3 {} reference {}", hex_short(bytes, 32), fields_json(&g), fields_json(f)), case);
            } else if d.mem_size != rq::section_size(f) {
                viol(rep, "decode-wrong-size", format!("section {}: mem_size {} expected {}", hex_short(bytes, 32), d.mem_size, rq::section_size(f)), case);
            }
        }
        (Stateless::MustAccept(f), Err(e)) => {
            rep.count("ref[must_accept]");
            viol(rep, "decode-rejects-valid", format!("section {} is valid ({}) but h3 fails with {:?}", hex_short(bytes, 32), fields_json(f), e), case);
        }
        (Stateless::MustReject(why), Ok(d)) => {
            rep.count("ref[must_reject]");
            let g = to_fields(&d);
            viol(
                rep,
                &format!("accepts-invalid[{}]", why),
                format!("section {} must be rejected ({}) but h3 returns {}", hex_short(bytes, 32), why, fields_json(&g)),
                case,
            );
        }
        (Stateless::MustReject(_), Err(e)) => {
            rep.count("ref[must_reject]");
            if matches!(e, DecoderError::HeaderTooLong(_)) {
                viol(rep, "rejects-with-size-error", format!("section {} rejected with HeaderTooLong although the limit is u64::MAX", hex_short(bytes, 32)), case);
            }
        }
        (Stateless::DontCare(f, _), Ok(d)) => {
            rep.count("ref[dont_care]");
            let g = to_fields(&d);
            if g != *f {
                viol(rep, "decode-wrong-fields", format!("section {}: h3 {} reference {}", hex_short(bytes, 32), fields_json(&g), fields_json(f)), case);
            }
        }
        (Stateless::DontCare(..), Err(_)) => rep.count("ref[dont_care]"),
    }
}

const NAMES: [&str; 12] = [
    "x-custom", "a", "content-type", "cookie", ":path", ":status", "accept", "x-very-long-header-name-for-testing-purposes-0123456789", "", "set-cookie", "user-agent", "UPPER",
];

fn rand_field(rng: &mut Rng) -> Field {
    match rng.below(6) {
        0 => {
            // exact static hit
            let (n, v) = STATIC_TABLE[rng.usize(99)];
            (n.as_bytes().to_vec(), v.as_bytes().to_vec())
        }
        1 => {
            // static name, other value
            let (n, _) = STATIC_TABLE[rng.usize(99)];
            let l = rng.usize(20);
            (n.as_bytes().to_vec(), rng.bytes(l))
        }
        2 => {
            let n = NAMES[rng.usize(NAMES.len())].as_bytes().to_vec();
            let l = rng.usize(40);
            let v: Vec<u8> = (0..l).map(|_| b"abcdefghijklmnopqrstuvwxyz0123456789-/:.= ;"[rng.usize(43)]).collect();
            (n, v)
        }
        3 => {
            let nl = rng.usize(301);
            let vl = rng.usize(301);
            (rng.bytes(nl), rng.bytes(vl))
        }
        4 => {
            // lengths around integer prefix boundaries (7: name 3-bit prefix; 127: value 7-bit prefix)
            let nl = *rng.pick(&[0usize, 6, 7, 8, 134, 135]);
            let vl = *rng.pick(&[0usize, 126, 127, 128, 254, 255, 256]);
            (rng.bytes(nl), rng.bytes(vl))
        }
        _ => {
            let nl = 1 + rng.usize(8);
            let vl = rng.usize(8);
            ((0..nl).map(|_| b'a' + rng.below(26) as u8).collect(), rng.bytes(vl))
        }
    }
}

fn mutate(valid: &[u8], rng: &mut Rng) -> Vec<u8> {
    let mut b = valid.to_vec();
    match rng.below(12) {
        0 => {
            // truncate anywhere
            let c = rng.usize(b.len() + 1);
            b.truncate(c);
        }
        1 => {
            // flip one bit
            if !b.is_empty() {
                let i = rng.usize(b.len());
                b[i] ^= 1 << rng.below(8);
            }
        }
        2 => {
            // non-zero required insert count
            let v = 1 + rng.below(255) as u8;
            if !b.is_empty() {
                b[0] = v;
            }
        }
        3 => {
            // sign bit / delta base
            let v = if rng.bool() { 0x80 | rng.below(128) as u8 } else { rng.below(128) as u8 };
            if b.len() > 1 {
                b[1] = v;
            }
        }
        4 => {
            // append a dynamic indexed line (1 0 idx)
            rq::int_encode(6, 0b10, rng.below(200), &mut b);
        }
        5 => {
            // append post-base indexed (0001 idx)
            rq::int_encode(4, 0b0001, rng.below(40), &mut b);
        }
        6 => {
            // append literal with dynamic name ref (01 N 0 idx) + value
            rq::int_encode(4, 0b0100 | ((rng.below(2) as u8) << 1), rng.below(40), &mut b);
            let l = rng.usize(5);
            rq::str_encode(8, 0, &rng.bytes(l), rng.bool(), &mut b);
        }
        7 => {
            // append literal with post-base name ref (0000 N idx) + value
            rq::int_encode(3, (rng.below(2) as u8) & 1, rng.below(20), &mut b);
            let l = rng.usize(5);
            rq::str_encode(8, 0, &rng.bytes(l), rng.bool(), &mut b);
        }
        8 => {
            // append static index out of range (indexed or name ref)
            let idx = 99 + rng.below(5000);
            if rng.bool() {
                rq::int_encode(6, 0b11, idx, &mut b);
            } else {
                rq::int_encode(4, 0b0101, idx, &mut b);
                rq::str_encode(8, 0, b"v", false, &mut b);
            }
        }
        9 => {
            // append a literal whose Huffman value is invalid (padding / EOS games)
            let fl = 0b0010u8;
            rq::str_encode(4, fl, b"x", false, &mut b);
            let payload: Vec<u8> = match rng.below(4) {
                0 => vec![0xff],
                1 => vec![0xff, 0xff, 0xff, 0xff],
                2 => vec![0x1f, 0xff],
                _ => vec![rng.next() as u8, rng.next() as u8 & 0xfe],
            };
            rq::int_encode(7, 1, payload.len() as u64, &mut b);
            b.extend(payload);
        }
        10 => {
            // append an indexed line with a padded (non-minimal) or oversized integer
            b.push(0xff);
            let k = rng.usize(12);
            b.extend(std::iter::repeat(0x80).take(k));
            b.push(rng.below(2) as u8);
        }
        _ => {
            // splice random bytes
            let i = rng.usize(b.len() + 1);
            let l = 1 + rng.usize(4);
            let r = rng.bytes(l);
            b.splice(i..i, r);
        }
    }
    b
}

/// Entry point of the libFuzzer target.
pub fn fuzz_one(bytes: &[u8], rep: &mut Report) {
    check_decode(bytes, rep);
}

/// Seed inputs for the libFuzzer target `qpack` (encoded field sections, valid and mutated).
pub fn fuzz_seeds(n: usize, seed: u64) -> Vec<Vec<u8>> {
    let mut rng = Rng::new(seed ^ 0xC11F);
    let mut out = Vec::new();
    for i in 0..n {
        let k = 1 + rng.usize(6);
        let fields: Vec<Field> = (0..k).map(|_| rand_field(&mut rng)).collect();
        let o = EncOpts { use_static_exact: rng.bool(), use_static_name: rng.bool(), huffman: rng.bool(), never_index_bit: rng.bool() };
        let s = rq::encode_section(&fields, &o);
        out.push(if i % 3 == 2 { mutate(&s, &mut rng) } else { s });
    }
    out.retain(|s| s.len() <= 400);
    out
}

fn run_case(gen: &str, index: u64, seed: u64, _tier: Tier, rep: &mut Report) {
    let mut rng = Rng::new(seed);
    match gen {
        "encode_static_entries" => {
            let (n, v) = STATIC_TABLE[index as usize];
            let n = n.as_bytes().to_vec();
            // exact hit alone, name hit with other value, in a list with a literal
            check_encode(&[(n.clone(), v.as_bytes().to_vec())], rep);
            rep.count("static_exact_hit");
            check_encode(&[(n.clone(), b"other-value-zz".to_vec())], rep);
            rep.count("static_name_hit");
            check_encode(
                &[
                    (b"x-lit".to_vec(), b"1".to_vec()),
                    (n.clone(), v.as_bytes().to_vec()),
                    (n.clone(), rng.bytes(3)),
                ],
                rep,
            );
            rep.count("literal_name");
            rep.distinct_direct += 3;
            // decode side: the reference's indexed / name-ref encodings of this entry
            let mut s = vec![0, 0];
            rq::int_encode(6, 0b11, index, &mut s);
            check_decode(&s, rep);
            for huff in [false, true] {
                for nbit in [false, true] {
                    let o = EncOpts { use_static_exact: false, use_static_name: true, huffman: huff, never_index_bit: nbit };
                    let s = rq::encode_section(&[(n.clone(), b"some value".to_vec())], &o);
                    check_decode(&s, rep);
                    rep.distinct_direct += 1;
                }
            }
        }
        "encode_random_lists" => {
            for _ in 0..5 {
                let k = match rng.below(4) {
                    0 => 0,
                    1 => 1,
                    _ => 1 + rng.usize(12),
                };
                let fields: Vec<Field> = (0..k).map(|_| rand_field(&mut rng)).collect();
                for (n, v) in &fields {
                    if rq::find_static_exact(n, v).is_some() {
                        rep.count("static_exact_hit");
                    } else if rq::find_static_name(n).is_some() {
                        rep.count("static_name_hit");
                    } else {
                        rep.count("literal_name");
                    }
                }
                check_encode(&fields, rep);
                rep.sig(hash64(&("enc", &fields)));
                // also feed reference encodings (all option combinations) to h3's decoder
                let o = EncOpts { use_static_exact: rng.bool(), use_static_name: rng.bool(), huffman: rng.bool(), never_index_bit: rng.bool() };
                let s = rq::encode_section(&fields, &o);
                check_decode(&s, rep);
            }
        }
        "decode_prefix_all_2_bytes" => {
            let a = index as u8;
            for b in 0..=255u8 {
                // prefix alone, and prefix followed by a valid static line
                check_decode(&[a, b], rep);
                check_decode(&[a, b, 0xd1], rep);
                rep.distinct_direct += 2;
            }
            if index == 5 {
                rep.sample(json!({"decode": "0500 d1", "reference": "MUST_REJECT ric!=0"}));
            }
        }
        "decode_prefix_boundary_values" => {
            // Required Insert Count and Delta Base are prefixed integers of any size: every
            // combination of boundary values (up to 2^64-1, in minimal and padded encodings), both
            // sign bits, alone and followed by a field line
            let vals: [u64; 14] = [0, 1, 2, 127, 128, 255, 1 << 31, (1 << 32) - 1, 1 << 62, (1 << 63) - 1, 1 << 63, (1 << 63) + 1, u64::MAX - 1, u64::MAX];
            for ric in vals {
                for db in vals {
                    for sign in [0u8, 1] {
                        for pad in [0usize, 1] {
                            let mut sec = Vec::new();
                            rq::int_encode_padded(8, 0, ric, pad, &mut sec);
                            rq::int_encode_padded(7, sign, db, pad, &mut sec);
                            check_decode(&sec, rep);
                            sec.push(0xd1);
                            check_decode(&sec, rep);
                            rep.distinct_direct += 2;
                            rep.count("prefix_boundary_sections");
                        }
                    }
                }
            }
        }
        "decode_body_len_0_2" => {
            if index == 256 {
                check_decode(&[0, 0], rep);
                check_decode(&[], rep);
                check_decode(&[0], rep);
                rep.distinct_direct += 3;
            } else {
                let a = index as u8;
                check_decode(&[0, 0, a], rep);
                rep.distinct_direct += 1;
                for b in 0..=255u8 {
                    check_decode(&[0, 0, a, b], rep);
                    rep.distinct_direct += 1;
                }
            }
        }
        "decode_body_len_3" => {
            let a = (index >> 8) as u8;
            let b = index as u8;
            for c in 0..=255u8 {
                check_decode(&[0, 0, a, b, c], rep);
                rep.distinct_direct += 1;
            }
        }
        "decode_body_len_3_sample" => {
            for _ in 0..128 {
                let b = rng.bytes(3);
                check_decode(&[0, 0, b[0], b[1], b[2]], rep);
                rep.sig(hash64(&("d3", &b)));
            }
        }
        "decode_mutations" => {
            for _ in 0..10 {
                let k = rng.usize(5);
                let fields: Vec<Field> = (0..k).map(|_| rand_field(&mut rng)).filter(|(n, v)| n.len() < 64 && v.len() < 64).collect();
                let o = EncOpts { use_static_exact: rng.bool(), use_static_name: rng.bool(), huffman: rng.bool(), never_index_bit: rng.bool() };
                let valid = rq::encode_section(&fields, &o);
                let mut m = mutate(&valid, &mut rng);
                if rng.chance(1, 4) {
                    m = mutate(&m, &mut rng);
                }
                check_decode(&m, rep);
                rep.sig(hash64(&("mut", &m)));
                let pick = rng.chance(1, 20); // drawn unconditionally: RNG use must not depend on report state
                if pick && rep.want_sample() && m.len() < 24 {
                    rep.sample(json!({"decode": hex_short(&m, 24), "reference": short_verdict(&rq::judge_stateless(&m))}));
                }
            }
        }
        "decode_random" => {
            for _ in 0..20 {
                let n = rng.usize(40);
                let mut b = rng.bytes(n);
                if n >= 2 && rng.chance(3, 4) {
                    b[0] = 0;
                    b[1] = 0;
                }
                check_decode(&b, rep);
                rep.sig(hash64(&("rnd", &b)));
            }
        }
        _ => {}
    }
}
