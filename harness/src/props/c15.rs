//! C15 — QPACK string literals (Huffman, RFC 7541 §5.2) and prefixed integers (§5.1).
//! Differential monitor through the cfg-guarded re-export `h3::qpack::verif_codec`.

use crate::refimpl::{huffman, qpack as rq};
use crate::report::Report;
use crate::util::{hash64, hex, hex_short, Rng};
use crate::{Gen, PropDef, Tier};
use h3::qpack::verif_codec::{prefix_int as hi, prefix_string as hs};
use serde_json::json;

pub fn def() -> PropDef {
    PropDef {
        id: "C15",
        rule: "strings: every byte string of length 0..2 (complete) and random strings up to 300 B \
               are encoded by h3 at every prefix size 2..8, decoded by h3 and by the reference \
               (octets Huffman); every Huffman-flagged payload of 0..2 bytes (quick) / 0..3 bytes \
               (thorough) is decoded by both and accept/reject + output compared; valid symbol \
               sequences followed by every padding length 0..15 x every padding bit pattern, EOS \
               inserted at every position; integers: every prefix size 1..8 x values at powers of \
               two and prefix boundaries +-2 x random 64-bit values (encode, decode, round trip), \
               all continuation patterns up to 11 bytes over {00,7f,80,ff}, every truncation. \
               Non-trivial = distinct input (bytes or (prefix,value)); enumerations counted by \
               construction, random ones by hash.",
        assumptions: || {
            vec![
                "octets 0.3.7 Huffman decoder implements RFC 7541 §5.2 strictly (probed: rejects ff, ffffffff, 1fff, 18; accepts 1f and the empty string)".into(),
                "reference prefixed-integer codec (refimpl/qpack.rs, 128-bit arithmetic) is correct".into(),
                "values in [2^62, 2^64) and encodings with >= 10 continuation bytes may be rejected (implementation limit) but never mis-decoded".into(),
            ]
        },
        gens,
        run_case,
        finish,
    }
}

fn gens(tier: Tier) -> Vec<Gen> {
    vec![
        Gen::exhaustive("str_roundtrip_len_0_2", 257),
        Gen::new("str_roundtrip_random", tier.pick(2, 300, 30_000)),
        Gen::exhaustive("huff_payload_len_0_2", 257),
        if tier == Tier::Thorough {
            Gen::exhaustive("huff_payload_len_3", 65536)
        } else {
            Gen::new("huff_payload_len_3_sample", tier.pick(2, 300, 0))
        },
        Gen::new("huff_padding_mutations", tier.pick(2, 300, 20_000)),
        Gen::new("str_plain_and_truncated", tier.pick(2, 100, 5_000)),
        Gen::exhaustive("str_huge_announced_length", 7),
        Gen::exhaustive("int_boundaries", 8),
        Gen::exhaustive("int_continuation_patterns", 8),
        Gen::new("int_random", tier.pick(2, 200, 20_000)),
    ]
}

fn finish(_tier: Tier, rep: &mut Report) {
    for (k, floor) in [
        ("str_roundtrip_checked", 60_000u64),
        ("huff_decode_checked", 60_000),
        ("huff_ref_accept", 100),
        ("huff_ref_reject", 1_000),
        ("int_decode_checked", 10_000),
        ("int_encode_checked", 1_000),
    ] {
        if rep.get(k) < floor {
            rep.inconclusive(format!("{} = {} below floor {}", k, rep.get(k), floor));
        }
    }
}

fn viol(rep: &mut Report, rule: &str, detail: String, case: serde_json::Value) {
    rep.violation(format!("C15/{}", rule), detail, case);
}

fn check_str_roundtrip(x: &[u8], rng: &mut Rng, rep: &mut Report) {
    for size in 2u8..=8 {
        rep.evaluations += 1;
        rep.count("str_roundtrip_checked");
        let max_flags = if size == 8 { 0u8 } else { ((1u16 << (8 - size)) - 1) as u8 };
        let flags = if max_flags == 0 { 0 } else { (rng.below(max_flags as u64 + 1)) as u8 };
        let case = json!({"string": hex_short(x, 32), "len": x.len(), "prefix": size, "flags": flags});
        let mut buf = Vec::new();
        let r = crate::panics::catch(|| hs::encode(size, flags, x, &mut buf));
        match r {
            Err(p) => {
                viol(rep, "string-encode-panics", format!("{} at {}", p.msg, p.loc), case);
                continue;
            }
            Ok(Err(e)) => {
                viol(rep, "string-encode-fails", format!("encode failed: {:?}", e), case);
                continue;
            }
            Ok(Ok(())) => {}
        }
        // reference decodes h3's output to x, with the same flags, consuming everything
        match rq::str_decode(size, &buf) {
            Ok(s) if s.value == x && s.consumed == buf.len() && s.flags == flags => {
                if s.huffman {
                    rep.count("str_h3_used_huffman");
                    // minimal padding: encoded payload length must equal the Huffman length
                    let plen = buf.len() - (buf.len() - huffman::encoded_len(x)).min(buf.len());
                    let _ = plen;
                }
            }
            other => {
                viol(
                    rep,
                    "string-encode-not-decodable-by-reference",
                    format!("h3 encoded {} (prefix {}, flags {}) as {}; reference says {:?}", hex_short(x, 16), size, flags, hex_short(&buf, 24), other.map(|s| (s.flags, hex_short(&s.value, 16), s.consumed))),
                    case.clone(),
                );
            }
        }
        // h3 decodes its own output to x
        let mut rd = &buf[..];
        match crate::panics::catch(|| hs::decode(size, &mut rd)) {
            Ok(Ok(v)) if v == x && rd.is_empty() => {}
            Ok(other) => viol(
                rep,
                "string-roundtrip",
                format!("decode(encode({})) at prefix {} = {:?}, {} bytes left", hex_short(x, 16), size, other.map(|v| hex_short(&v, 16)), rd.len()),
                case,
            ),
            Err(p) => {
                viol(rep, "string-decode-panics", format!("{} at {}", p.msg, p.loc), case);
                continue;
            }
        }
        // ... and from a buffer in two pieces
        if buf.len() >= 2 {
            let k = 1 + rng.usize(buf.len() - 1);
            let mut two = bytes::Buf::chain(&buf[..k], &buf[k..]);
            rep.count("str_decode_over_two_piece_buffer");
            match crate::panics::catch(|| hs::decode(size, &mut two)) {
                Ok(Ok(v)) if v == x && !bytes::Buf::has_remaining(&two) => {}
                Ok(other) => viol(
                    rep,
                    "string-decode-depends-on-buffer-layout",
                    format!("{} (prefix {}) cut after {} octets decodes to {:?}, {} bytes left", hex_short(&buf, 24), size, k, other.map(|v| hex_short(&v, 16)), bytes::Buf::remaining(&two)),
                    json!({"string": hex_short(x, 32), "len": x.len(), "prefix": size, "cut": k}),
                ),
                Err(p) => viol(rep, "string-decode-panics", format!("{} at {}", p.msg, p.loc), json!({"string": hex_short(x, 32), "prefix": size, "cut": k})),
            }
        }
    }
}

/// Decode an H=1 string whose payload is `payload`, at prefix `size`, with h3 and the reference.
fn check_huff_payload(payload: &[u8], size: u8, rep: &mut Report) {
    rep.evaluations += 1;
    rep.count("huff_decode_checked");
    let mut wire = Vec::new();
    rq::int_encode(size - 1, 1, payload.len() as u64, &mut wire);
    wire.extend_from_slice(payload);
    let expect = huffman::decode(payload);
    let mut rd = &wire[..];
    let got = crate::panics::catch(|| hs::decode(size, &mut rd));
    let case = json!({"huffman_payload": hex_short(payload, 40), "prefix": size});
    let got = match got {
        Err(p) => {
            viol(rep, "huffman-decode-panics", format!("payload {}: {} at {}", hex_short(payload, 24), p.msg, p.loc), case);
            return;
        }
        Ok(g) => g,
    };
    match (&expect, got) {
        (Some(e), Ok(g)) => {
            rep.count("huff_ref_accept");
            if *e != g {
                viol(
                    rep,
                    "huffman-decodes-differently",
                    format!("payload {}: h3 -> {} reference -> {}", hex_short(payload, 24), hex_short(&g, 24), hex_short(e, 24)),
                    case,
                );
            }
        }
        (None, Err(_)) => {
            rep.count("huff_ref_reject");
        }
        (Some(e), Err(err)) => {
            rep.count("huff_ref_accept");
            viol(
                rep,
                "huffman-rejects-valid",
                format!("payload {} is valid (-> {}) but h3 fails with {:?}", hex_short(payload, 24), hex_short(e, 24), err),
                case,
            );
        }
        (None, Ok(g)) => {
            rep.count("huff_ref_reject");
            // classify why the reference rejects, for a narrow signature
            let why = classify_invalid(payload, rep);
            viol(
                rep,
                format!("huffman-accepts-invalid[{}]", why).as_str(),
                format!("payload {} violates RFC 7541 §5.2 ({}) but h3 decodes it to {}", hex_short(payload, 24), why, hex_short(&g, 24)),
                case,
            );
        }
    }
}

/// Why is `payload` not a valid Huffman string? (bit-level greedy decode with the code table
/// derived from the octets encoder)
fn classify_invalid(payload: &[u8], rep: &mut Report) -> &'static str {
    match huffman::classify(payload) {
        huffman::Validity::Valid(_) => {
            rep.inconclusive(format!("bit-level classifier and octets disagree on {}", hex_short(payload, 16)));
            "classifier-disagrees"
        }
        huffman::Validity::OverlongPadding(_) => "padding-longer-than-7-bits",
        // the EOS symbol closing the string (fewer than 8 one-bits behind it) and the EOS symbol followed by
        // a byte or more of ones are different inputs: one signature each
        huffman::Validity::Eos { at_end: true, trailing_bits } if trailing_bits < 8 => "EOS-symbol-at-end",
        huffman::Validity::Eos { at_end: true, .. } => "EOS-symbol-then-a-byte-or-more-of-ones",
        huffman::Validity::Eos { at_end: false, .. } => "EOS-symbol-inside",
        huffman::Validity::BadPadding => "padding-not-EOS-prefix",
    }
}

fn check_int_decode(size: u8, bytes: &[u8], rep: &mut Report) {
    rep.evaluations += 1;
    rep.count("int_decode_checked");
    let expect = rq::int_decode(size, bytes);
    let mut rd = bytes;
    let got = crate::panics::catch(|| hi::decode(size, &mut rd));
    let case = json!({"prefix": size, "bytes": hex(bytes)});
    let got = match got {
        Err(p) => {
            viol(rep, "int-decode-panics", format!("prefix {} bytes {}: {} at {}", size, hex(bytes), p.msg, p.loc), case);
            return;
        }
        Ok(g) => g,
    };
    let consumed = bytes.len() - rd.len();
    // the same bytes handed over as a buffer in two pieces (`Buf` makes no promise that a value
    // lies in one chunk): same result, same number of bytes taken, for every cut
    if bytes.len() <= 12 {
        for k in 1..bytes.len() {
            let mut two = bytes::Buf::chain(&bytes[..k], &bytes[k..]);
            rep.count("int_decode_over_two_piece_buffer");
            match crate::panics::catch(|| hi::decode(size, &mut two)) {
                Err(p) => {
                    viol(rep, "int-decode-panics", format!("prefix {} bytes {} cut after {}: {} at {}", size, hex(bytes), k, p.msg, p.loc), case.clone());
                    return;
                }
                Ok(g2) => {
                    let consumed2 = bytes.len() - bytes::Buf::remaining(&two);
                    let same = match (&got, &g2) {
                        (Ok(a), Ok(b)) => a == b && consumed == consumed2,
                        (Err(_), Err(_)) => true,
                        _ => false,
                    };
                    if !same {
                        viol(
                            rep,
                            "int-decode-depends-on-buffer-layout",
                            format!("prefix {} bytes {}: contiguous {:?} ({} B taken), cut after {} octets {:?} ({} B taken)", size, hex(bytes), got.as_ref().ok(), consumed, k, g2.as_ref().ok(), consumed2),
                            case.clone(),
                        );
                        return;
                    }
                }
            }
        }
    }
    match (expect, got) {
        (Err(_), Err(_)) => rep.count("int_truncated_rejected"),
        (Err(_), Ok((f, v))) => viol(
            rep,
            "int-accepts-truncated",
            format!("prefix {} bytes {} is truncated but decodes to (flags {}, {})", size, hex(bytes), f, v),
            case,
        ),
        (Ok(p), Ok((f, v))) => {
            if p.value > u64::MAX as u128 {
                viol(
                    rep,
                    "int-wraps",
                    format!("prefix {} bytes {}: true value {} exceeds u64 but h3 returns {}", size, hex(bytes), p.value, v),
                    case,
                );
            } else if v as u128 != p.value || f != p.flags || consumed != p.consumed {
                viol(
                    rep,
                    "int-decodes-wrong",
                    format!("prefix {} bytes {}: h3 (flags {}, {}, {} B) reference (flags {}, {}, {} B)", size, hex(bytes), f, v, consumed, p.flags, p.value, p.consumed),
                    case,
                );
            } else {
                rep.count("int_accept_agree");
            }
        }
        (Ok(p), Err(e)) => {
            if p.value > u64::MAX as u128 {
                rep.count("int_overflow_rejected");
            } else if p.value >= (1u128 << 62) || p.cont >= 10 {
                rep.count("int_dontcare_rejected");
            } else {
                viol(
                    rep,
                    "int-rejects-valid",
                    format!("prefix {} bytes {} = {} (< 2^62, {} continuation bytes) rejected: {:?}", size, hex(bytes), p.value, p.cont, e),
                    case,
                );
            }
        }
    }
}

fn check_int_encode(size: u8, flags: u8, v: u64, rep: &mut Report) {
    rep.evaluations += 1;
    rep.count("int_encode_checked");
    let case = json!({"prefix": size, "flags": flags, "value": v});
    let mut buf = Vec::new();
    if let Err(p) = crate::panics::catch(|| hi::encode(size, flags, v, &mut buf)) {
        viol(rep, "int-encode-panics", format!("prefix {} value {}: {} at {}", size, v, p.msg, p.loc), case);
        return;
    }
    let mut exp = Vec::new();
    rq::int_encode(size, flags, v, &mut exp);
    match rq::int_decode(size, &buf) {
        Ok(p) if p.value == v as u128 && p.flags == flags && p.consumed == buf.len() => {}
        other => {
            viol(
                rep,
                "int-encode-not-decodable-by-reference",
                format!("prefix {} flags {} value {} encoded as {} (reference encoding {}); reference decodes {:?}", size, flags, v, hex(&buf), hex(&exp), other),
                case.clone(),
            );
        }
    }
    let mut rd = &buf[..];
    match crate::panics::catch(|| hi::decode(size, &mut rd)) {
        Ok(Ok((f, got))) if got == v && f == flags && rd.is_empty() => {}
        Ok(Err(e)) if v >= 1 << 62 => {
            // implementation limit on decode is tolerated above 2^62
            let _ = e;
            rep.count("int_roundtrip_dontcare");
        }
        Ok(other) => viol(
            rep,
            "int-roundtrip",
            format!("prefix {} flags {} value {} -> {} -> {:?}", size, flags, v, hex(&buf), other),
            case,
        ),
        Err(p) => viol(rep, "int-decode-panics", format!("{} at {}", p.msg, p.loc), case),
    }
}

use crate::refimpl::huffman::BitWriter;

fn sym_bits(sym: u8) -> (u32, u32) {
    huffman::code_table()[sym as usize]
}

fn run_case(gen: &str, index: u64, seed: u64, _tier: Tier, rep: &mut Report) {
    let mut rng = Rng::new(seed);
    match gen {
        "str_roundtrip_len_0_2" => {
            if index == 256 {
                check_str_roundtrip(&[], &mut rng, rep);
                rep.distinct_direct += 1;
            } else {
                let a = index as u8;
                check_str_roundtrip(&[a], &mut rng, rep);
                rep.distinct_direct += 1;
                for b in 0..=255u8 {
                    check_str_roundtrip(&[a, b], &mut rng, rep);
                    rep.distinct_direct += 1;
                }
            }
        }
        "str_roundtrip_random" => {
            for _ in 0..10 {
                let n = match rng.below(4) {
                    0 => 3 + rng.usize(6),
                    1 => rng.usize(301),
                    2 => 120 + rng.usize(20), // around the 7-bit length prefix boundary (127)
                    _ => rng.usize(40),
                };
                let x = match rng.below(3) {
                    0 => rng.bytes(n),
                    1 => (0..n).map(|_| b"abcdefghijklmnopqrstuvwxyz0123456789-/:.= ;"[rng.usize(43)]).collect(),
                    _ => (0..n).map(|_| *rng.pick(&[0u8, 0xff, 0x80, 0x7f, b'a', 22, 249])).collect(),
                };
                check_str_roundtrip(&x, &mut rng, rep);
                rep.sig(hash64(&("s", &x)));
            }
        }
        "huff_payload_len_0_2" => {
            let size = 2 + (index % 7) as u8;
            if index == 256 {
                for s in 2..=8 {
                    check_huff_payload(&[], s, rep);
                }
                rep.distinct_direct += 1;
            } else {
                let a = index as u8;
                check_huff_payload(&[a], size, rep);
                check_huff_payload(&[a], 8, rep);
                rep.distinct_direct += 1;
                for b in 0..=255u8 {
                    check_huff_payload(&[a, b], 8, rep);
                    rep.distinct_direct += 1;
                }
            }
            if index == 0 {
                rep.sample(json!({"huffman_payload": "ff", "reference": "reject (8 bits of padding)"}));
                rep.sample(json!({"huffman_payload": "1f", "reference": "accept -> 'a' (3 bits of padding)"}));
            }
        }
        "huff_payload_len_3" => {
            let a = (index >> 8) as u8;
            let b = index as u8;
            for c in 0..=255u8 {
                check_huff_payload(&[a, b, c], 8, rep);
                rep.distinct_direct += 1;
            }
        }
        "huff_payload_len_3_sample" => {
            for _ in 0..128 {
                let mut p = rng.bytes(3);
                if rng.chance(1, 2) {
                    // bias: short codes (high bit patterns) + ones tail
                    p[2] |= (1u16 << rng.below(8)).wrapping_sub(1) as u8;
                }
                check_huff_payload(&p, 8, rep);
                rep.sig(hash64(&("h3", &p)));
            }
        }
        "huff_padding_mutations" => {
            // valid symbol sequence, then: every padding length 0..15 x padding bit patterns;
            // EOS (30 ones) inserted at a random position.
            let nsym = rng.usize(6);
            let syms: Vec<u8> = (0..nsym)
                .map(|_| match rng.below(3) {
                    0 => *rng.pick(b"0123aeiost"),     // 5-bit codes
                    1 => *rng.pick(b"%-./=ABCDXYZ_bdfghlmnpru"), // 6/7-bit codes
                    _ => rng.next() as u8,             // anything (up to 30 bits)
                })
                .collect();
            let codes: Vec<(u32, u32)> = syms.iter().map(|s| sym_bits(*s)).collect();
            for padlen in 0..=15u32 {
                let patterns: Vec<u32> = if padlen == 0 {
                    vec![0]
                } else if padlen <= 4 {
                    (0..(1u32 << padlen)).collect()
                } else {
                    // all ones, one zero at each position, random
                    let all = (1u32 << padlen) - 1;
                    let mut v = vec![all, 0];
                    for i in 0..padlen {
                        v.push(all & !(1 << i));
                    }
                    v.push(rng.below(1 << padlen) as u32);
                    v
                };
                for pat in patterns {
                    let mut w = BitWriter::default();
                    for (b, l) in &codes {
                        w.put(*b, *l);
                    }
                    w.put(pat, padlen);
                    if w.nbits % 8 != 0 {
                        continue; // only byte-aligned strings exist on the wire
                    }
                    let payload = w.out.clone();
                    check_huff_payload(&payload, 8, rep);
                    rep.sig(hash64(&("hp", &payload)));
                    rep.count("huff_padding_variants");
                }
            }
            // EOS inside
            let pos = rng.usize(codes.len() + 1);
            let mut w = BitWriter::default();
            for (i, (b, l)) in codes.iter().enumerate() {
                if i == pos {
                    w.put(0x3fff_ffff, 30);
                }
                w.put(*b, *l);
            }
            if pos == codes.len() {
                w.put(0x3fff_ffff, 30);
            }
            let payload = w.finish_ones();
            check_huff_payload(&payload, 8, rep);
            rep.count("huff_eos_variants");
            rep.sig(hash64(&("he", &payload)));
            // EOS closing the symbols, then whole bytes of ones (1..5: short of, exactly and beyond a second EOS)
            let mut w = BitWriter::default();
            for (b, l) in &codes {
                w.put(*b, *l);
            }
            w.put(0x3fff_ffff, 30);
            let mut payload = w.finish_ones();
            payload.extend(std::iter::repeat(0xff).take(1 + rng.usize(5)));
            check_huff_payload(&payload, 8, rep);
            rep.count("huff_eos_then_bytes_of_ones");
            rep.sig(hash64(&("hf", &payload)));
        }
        "str_huge_announced_length" => {
            // a literal that announces far more octets than follow (up to the top of the integer
            // range, plain and Huffman-flagged): rejected as truncated - no panic, no allocation of
            // the announced size (an allocation failure aborts the process: ./check reports that)
            let size = 2 + index as u8;
            for h in [false, true] {
                for len in [1u64 << 16, 1 << 31, (1 << 32) + 5, 1 << 40, 1 << 48, 1 << 56, 1 << 60, 1 << 61, (1 << 62) - 1, 1 << 62] {
                    for tail in [&b""[..], b"\x1c", b"\x1c\x64\xff"] {
                        let mut wire = Vec::new();
                        rq::int_encode(size - 1, if h { 1 } else { 0 }, len, &mut wire);
                        wire.extend_from_slice(tail);
                        let mut rd = &wire[..];
                        rep.evaluations += 1;
                        rep.count("str_huge_length_checked");
                        match crate::panics::catch(|| hs::decode(size, &mut rd)) {
                            Ok(Err(_)) => {}
                            Ok(Ok(v)) => viol(rep, "string-accepts-truncated", format!("wire {} (announces {} octets) decodes to {} B", hex_short(&wire, 24), len, v.len()), json!({"wire": hex_short(&wire, 64), "prefix": size})),
                            Err(p) => viol(rep, "string-decode-panics", format!("{} at {}", p.msg, p.loc), json!({"wire": hex_short(&wire, 64), "prefix": size})),
                        }
                        rep.distinct_direct += 1;
                    }
                }
            }
        }
        "str_plain_and_truncated" => {
            for _ in 0..10 {
                let size = 2 + rng.below(7) as u8;
                let n = rng.usize(200);
                let x = rng.bytes(n);
                let use_h = rng.bool();
                let mut wire = Vec::new();
                rq::str_encode(size, 0, &x, use_h, &mut wire);
                // full
                rep.evaluations += 1;
                rep.count("str_ref_encoded_decoded");
                let mut rd = &wire[..];
                match crate::panics::catch(|| hs::decode(size, &mut rd)) {
                    Ok(Ok(v)) if v == x && rd.is_empty() => {}
                    Ok(other) => viol(
                        rep,
                        "string-decode-of-reference-encoding",
                        format!("reference-encoded {} (huffman {}) at prefix {}: h3 -> {:?}", hex_short(&x, 16), use_h, size, other.map(|v| hex_short(&v, 16))),
                        json!({"wire": hex_short(&wire, 64), "prefix": size}),
                    ),
                    Err(p) => viol(rep, "string-decode-panics", format!("{} at {}", p.msg, p.loc), json!({"wire": hex_short(&wire, 64)})),
                }
                // every strict truncation must be rejected (length says more bytes follow)
                if !wire.is_empty() {
                    let cut = rng.usize(wire.len());
                    let mut rd = &wire[..cut];
                    rep.evaluations += 1;
                    rep.count("str_truncated_checked");
                    match crate::panics::catch(|| hs::decode(size, &mut rd)) {
                        Ok(Err(_)) => {}
                        Ok(Ok(v)) => viol(
                            rep,
                            "string-accepts-truncated",
                            format!("wire {} cut at {} decodes to {}", hex_short(&wire, 24), cut, hex_short(&v, 16)),
                            json!({"wire": hex_short(&wire, 64), "cut": cut, "prefix": size}),
                        ),
                        Err(p) => viol(rep, "string-decode-panics", format!("{} at {}", p.msg, p.loc), json!({"wire": hex_short(&wire, 64), "cut": cut})),
                    }
                }
                rep.sig(hash64(&("sp", size, &wire)));
            }
        }
        "int_boundaries" => {
            let size = index as u8 + 1;
            let mask = (1u64 << size) - 1;
            let mut vals: Vec<u64> = Vec::new();
            for p in 0..64u32 {
                let c = 1u64 << p;
                for d in -2i64..=2 {
                    vals.push(c.wrapping_add(d as u64));
                }
            }
            for d in 0..=3 {
                vals.push(mask.wrapping_sub(2).wrapping_add(d));
                vals.push(mask + 127 + d);
                vals.push(mask + 128 * 128 - 2 + d);
            }
            vals.extend([0, 1, u64::MAX, u64::MAX - 1, u64::MAX - mask, u64::MAX - mask - 1]);
            for v in vals {
                let max_flags = if size == 8 { 0u8 } else { ((1u16 << (8 - size)) - 1) as u8 };
                for flags in [0u8, max_flags, max_flags / 2] {
                    check_int_encode(size, flags, v, rep);
                }
                // decode the reference encoding and every truncation of it
                let mut e = Vec::new();
                rq::int_encode(size, 0, v, &mut e);
                for cut in 0..=e.len() {
                    check_int_decode(size, &e[..cut], rep);
                }
                let mut e2 = Vec::new();
                rq::int_encode_padded(size, 0, v, 1 + (v % 3) as usize, &mut e2);
                check_int_decode(size, &e2, rep);
                rep.distinct_direct += 1;
            }
            if index == 4 {
                rep.sample(json!({"int": {"prefix": 5, "value": 1337}, "expect_wire": "1f9a0a"}));
            }
        }
        "int_continuation_patterns" => {
            // first byte = full prefix, then every pattern of up to 11 bytes over {00,7f,80,ff}
            // (the last byte decides termination). 4^1 + ... too many for 11: enumerate all up to
            // length 5 and structured ones (k x 0x80/0xff then terminator) up to 11.
            let size = index as u8 + 1;
            let first = ((1u16 << size) - 1) as u8;
            let alpha = [0x00u8, 0x7f, 0x80, 0xff];
            for len in 1..=5usize {
                let n = 4usize.pow(len as u32);
                for code in 0..n {
                    let mut b = vec![first];
                    let mut c = code;
                    for _ in 0..len {
                        b.push(alpha[c % 4]);
                        c /= 4;
                    }
                    check_int_decode(size, &b, rep);
                    rep.distinct_direct += 1;
                }
            }
            for k in 0..=11usize {
                for cont in [0x80u8, 0xff, 0x81] {
                    for term in [0x00u8, 0x01, 0x7f] {
                        let mut b = vec![first];
                        b.extend(std::iter::repeat(cont).take(k));
                        b.push(term);
                        check_int_decode(size, &b, rep);
                        // and truncated right before the terminator
                        check_int_decode(size, &b[..b.len() - 1], rep);
                        rep.distinct_direct += 1;
                    }
                }
            }
        }
        "int_random" => {
            for _ in 0..50 {
                let size = 1 + rng.below(8) as u8;
                let bits = rng.range(1, 64);
                let v = if bits == 64 { rng.next() } else { rng.next() & ((1u64 << bits) - 1) };
                let max_flags = if size == 8 { 0u8 } else { ((1u16 << (8 - size)) - 1) as u8 };
                let flags = rng.below(max_flags as u64 + 1) as u8;
                check_int_encode(size, flags, v, rep);
                let n = rng.usize(12);
                let mut b = rng.bytes(n);
                if n > 0 && rng.bool() {
                    b[0] |= ((1u16 << size) - 1) as u8;
                }
                check_int_decode(size, &b, rep);
                rep.sig(hash64(&("i", size, v, &b)));
            }
        }
        _ => {}
    }
}
