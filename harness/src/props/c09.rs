//! C09 — shutdown drains: accept() ends exactly when all accepted requests have.
//! A raw client opens 0..4 request streams, each driven to one of the endings of the property's
//! alphabet, and sends GOAWAY at a schedule-chosen point; the harness owns every handle it is
//! given, so handle liveness is ground truth.

use crate::refimpl::frames as rf;
use crate::refimpl::qpack as rq;
use crate::report::Report;
use crate::sim::apps::{ConnErr, Err as AErr, Msg, Out, Probe};
use crate::sim::rawpeer as raw;
use crate::sim::sched::{RunEnd, Sched, ScriptStep, Spawner};
use crate::sim::{self, lock, NetCfg, SimConn, CLIENT, SERVER};
use crate::util::{hash64, Rng};
use crate::{Gen, PropDef, Tier};
use bytes::Bytes;
use serde_json::json;
use std::collections::BTreeMap;
use std::sync::{Arc, Mutex};
use std::task::{Poll, Waker};

pub fn def() -> PropDef {
    PropDef {
        id: "C09",
        rule: "a case = history of 0..4 requests, each ending in one of {normal finish, resolver dropped \
               before header resolution, FIN before HEADERS, client RESET before HEADERS, client \
               RESET after HEADERS, malformed headers, split with the send half dropped first, \
               split with the receive half dropped first}, combined with the peer's GOAWAY released \
               at every position of the history (ending alphabet^<=4 x GOAWAY position enumerated \
               completely for <= 2 requests in quick / <= 3 in thorough, sampled above) and PRNG \
               interleavings of arrivals, application tasks and handle drops. The harness owns \
               every handle accept() hands out (resolver, request stream, each split half) and logs \
               each drop. Oracle: (safety) accept() never returns Ok(None) while a handle it handed \
               out is alive; (bounded progress) at executor quiescence, with the peer's GOAWAY \
               delivered and every handed-out handle gone, accept() is not pending: it has returned \
               Ok(None). Non-trivial distinct = (history, interleaving signature).",
        assumptions: || {
            vec![
                "quiescence of the simulator = nothing deliverable and no runnable task, so 'eventually' is decided without wall-clock".into(),
                "QPACK failures are excluded (connection errors); the GOAWAY sent by the raw client carries push id 0".into(),
            ]
        },
        gens,
        run_case,
        finish,
    }
}

#[derive(Debug, Clone, Copy, PartialEq, Eq, Hash, PartialOrd, Ord)]
pub enum Ending {
    NormalFinish,
    ResolverDropped,
    FinBeforeHeaders,
    ResetBeforeHeaders,
    ResetAfterHeaders,
    MalformedHeaders,
    SplitSendHalfDroppedFirst,
    SplitRecvHalfDroppedFirst,
    /// answered and finish()ed, but the application keeps the handle for a while (sampled
    /// histories only; the enumeration runs over the eight endings above)
    FinishedButHeld,
}
const ENDINGS: [Ending; 8] = [
    Ending::NormalFinish,
    Ending::ResolverDropped,
    Ending::FinBeforeHeaders,
    Ending::ResetBeforeHeaders,
    Ending::ResetAfterHeaders,
    Ending::MalformedHeaders,
    Ending::SplitSendHalfDroppedFirst,
    Ending::SplitRecvHalfDroppedFirst,
];

fn n_enum(max_req: u32) -> u64 {
    // sum over k requests of 8^k * (k+1) GOAWAY positions
    (0..=max_req).map(|k| 8u64.pow(k) * (k as u64 + 1)).sum()
}

fn enum_case(mut i: u64) -> (Vec<Ending>, usize) {
    let mut k = 0u32;
    loop {
        let n = 8u64.pow(k) * (k as u64 + 1);
        if i < n {
            break;
        }
        i -= n;
        k += 1;
    }
    let pos = (i % (k as u64 + 1)) as usize;
    i /= k as u64 + 1;
    let mut v = Vec::new();
    for _ in 0..k {
        v.push(ENDINGS[(i % 8) as usize]);
        i /= 8;
    }
    (v, pos)
}

fn gens(tier: Tier) -> Vec<Gen> {
    let full = match tier {
        Tier::Lite => 1,
        Tier::Quick => 2,
        Tier::Thorough => 3,
    };
    vec![
        Gen::exhaustive("enumerated_histories", n_enum(full)),
        Gen::new("random_histories", tier.pick(2, 4_000, 400_000)),
        Gen::new("worker_pool_bursts", tier.pick(1, 150, 6_000)),
    ]
}

fn finish(tier: Tier, rep: &mut Report) {
    if tier == Tier::Lite {
        return;
    }
    for (k, floor) in [
        ("histories", 3_000u64),
        ("accept_returned_None", 1_000),
        ("safety_checks(None while handles alive?)", 1_000),
        ("progress_checks(at quiescence)", 2_000),
        ("handles_dropped_events", 5_000),
    ] {
        if rep.get(k) < floor {
            rep.inconclusive(format!("{} = {} below floor {}", k, rep.get(k), floor));
        }
    }
    for e in ENDINGS {
        if rep.get(&format!("ending[{:?}]", e)) < 100 {
            rep.inconclusive(format!("ending {:?} exercised fewer than 100 times", e));
        }
    }
}

#[derive(Clone, Default)]
struct Signal {
    inner: Arc<Mutex<(usize, Option<Waker>)>>,
}
impl Signal {
    fn fire(&self) {
        let mut g = self.inner.lock().unwrap();
        g.0 += 1;
        if let Some(w) = g.1.take() {
            w.wake();
        }
    }
    async fn wait(&self) {
        std::future::poll_fn(|cx| {
            let mut g = self.inner.lock().unwrap();
            if g.0 > 0 {
                g.0 -= 1;
                Poll::Ready(())
            } else {
                g.1 = Some(cx.waker().clone());
                Poll::Pending
            }
        })
        .await
    }
}

fn viol(rep: &mut Report, rule: &str, detail: String, case: &serde_json::Value) {
    rep.violation(format!("C09/{}", rule), detail, case.clone());
}

fn malformed_section() -> Vec<u8> {
    let f: Vec<rq::Field> = vec![
        (b":method".to_vec(), b"GET".to_vec()),
        (b":scheme".to_vec(), b"https".to_vec()),
        (b":authority".to_vec(), b"example.com".to_vec()),
        (b":path".to_vec(), b"/".to_vec()),
        (b"Bad-Upper".to_vec(), b"v".to_vec()),
    ];
    rq::encode_section(&f, &rq::EncOpts::default())
}

/// what the raw client does on the stream for an ending
fn raw_steps(id: u64, e: Ending) -> Vec<ScriptStep> {
    let good = {
        let mut w = raw::headers_frame(&raw::simple_request_headers());
        w.extend(raw::data_frame(b"body"));
        w
    };
    match e {
        Ending::NormalFinish | Ending::SplitSendHalfDroppedFirst | Ending::SplitRecvHalfDroppedFirst | Ending::FinishedButHeld => vec![raw::step_write(CLIENT, id, good), raw::step_fin(CLIENT, id)],
        // the application drops the resolver without looking at the stream; the bytes do not matter
        Ending::ResolverDropped => vec![raw::step_write(CLIENT, id, good)],
        Ending::FinBeforeHeaders => vec![raw::step_fin(CLIENT, id)],
        Ending::ResetBeforeHeaders => vec![raw::step_reset(CLIENT, id, rf::H3_REQUEST_CANCELLED)],
        Ending::ResetAfterHeaders => {
            // the reset is sent once the server has read the header frame
            let hdr = raw::headers_frame(&raw::simple_request_headers());
            let need = hdr.len();
            vec![
                raw::step_write(CLIENT, id, hdr),
                raw::step_custom("reset after headers were read", move |n| n.streams.get(&id).map(|s| s.pipe(CLIENT).read >= need).unwrap_or(false) || n.closed.is_some(), move |n, _| n.raw_reset(CLIENT, id, rf::H3_REQUEST_CANCELLED)),
            ]
        }
        Ending::MalformedHeaders => vec![raw::step_write(CLIENT, id, raw::headers_frame(&malformed_section())), raw::step_fin(CLIENT, id)],
    }
}

type Resolver = h3::server::RequestResolver<SimConn<Bytes>, Bytes>;

/// the application task for one accepted request
async fn handle(resolver: Resolver, sid: u64, e: Ending, p: Probe, second_drop: Signal) {
    let actor = format!("s:req@{}", sid);
    let dropped = |what: &'static str| p.record(&actor, what, Out::Dropped);
    if e == Ending::ResolverDropped {
        drop(resolver);
        dropped("drop resolver");
        return;
    }
    let r = p
        .call(&actor, "resolve_request", resolver.resolve_request(), |r| match r {
            Ok(_) => Out::Ok,
            Err(e) => Out::Err(AErr::from_h3(e)),
        })
        .await;
    let mut stream = match r {
        Ok((_, s)) => s,
        Err(_) => {
            // the resolver was consumed by the call: nothing is left alive
            dropped("drop resolver (resolution failed)");
            return;
        }
    };
    match e {
        Ending::SplitSendHalfDroppedFirst | Ending::SplitRecvHalfDroppedFirst => {
            let (send, recv) = stream.split();
            if e == Ending::SplitSendHalfDroppedFirst {
                drop(send);
                dropped("drop send half");
                second_drop.wait().await;
                drop(recv);
                dropped("drop recv half");
            } else {
                drop(recv);
                dropped("drop recv half");
                second_drop.wait().await;
                drop(send);
                dropped("drop send half");
            }
        }
        _ => {
            // documented pattern; errors end the request
            let mut ok = true;
            loop {
                let r = p
                    .call(&actor, "recv_data", stream.recv_data(), |r| match r {
                        Ok(Some(_)) => Out::Data(vec![]),
                        Ok(None) => Out::None,
                        Err(e) => Out::Err(AErr::from_h3(e)),
                    })
                    .await;
                match r {
                    Ok(Some(_)) => continue,
                    Ok(None) => break,
                    Err(_) => {
                        ok = false;
                        break;
                    }
                }
            }
            if ok {
                let m = Msg { status: 200, ..Default::default() };
                let _ = p.call(&actor, "send_response", stream.send_response(m.to_response()), |r| match r { Ok(()) => Out::Ok, Err(e) => Out::Err(AErr::from_h3(e)) }).await;
                let _ = p.call(&actor, "finish", stream.finish(), |r| match r { Ok(()) => Out::Ok, Err(e) => Out::Err(AErr::from_h3(e)) }).await;
            }
            if e == Ending::FinishedButHeld {
                // the request is answered and finished, the handle lives on until the schedule says so
                p.record(&actor, "handle kept after finish()", Out::Ok);
                second_drop.wait().await;
            }
            drop(stream);
            dropped("drop stream");
        }
    }
}

async fn server(net: sim::Net, p: Probe, sp: Spawner, endings: Arc<BTreeMap<u64, Ending>>, second_drop: Arc<BTreeMap<u64, Signal>>, poll_variant: bool, own_shutdown: Option<(usize, usize)>, pool: Option<usize>) {
    let r = p
        .call("s:conn", "build", h3::server::builder().build::<_, Bytes>(SimConn::<Bytes>::new(&net, SERVER)), |r| match r {
            Ok(_) => Out::Ok,
            Err(e) => Out::ConnErr(ConnErr::from_h3(e)),
        })
        .await;
    let Ok(mut conn) = r else { return };
    let mut accepted = 0usize;
    let mut own_shutdown = own_shutdown;
    // a bounded worker pool: once `pool` requests are in progress the accept loop is not polled
    // again before every worker is free, so all their endings fall between two accept() calls
    let busy: Arc<Mutex<usize>> = Arc::new(Mutex::new(0));
    let freed = Signal::default();
    loop {
        if let Some(limit) = pool {
            if *busy.lock().unwrap() >= limit {
                while *busy.lock().unwrap() > 0 {
                    freed.wait().await;
                }
            }
        }
        // the server may begin a graceful shutdown of its own with a grace interval: requests
        // accepted within the interval are handed out like any other
        if let Some((after, n)) = own_shutdown {
            if accepted >= after {
                own_shutdown = None;
                let r = p.call("s:conn", "shutdown", conn.shutdown(n), |r| match r { Ok(()) => Out::Ok, Err(e) => Out::ConnErr(ConnErr::from_h3(e)) }).await;
                if r.is_err() {
                    break;
                }
            }
        }
        // two public ways of accepting: `accept()`, or `poll_accept_request_stream` +
        // `create_resolver` (what h3-webtransport's session loop uses)
        let r = if poll_variant {
            let acc = async {
                let s = std::future::poll_fn(|cx| conn.poll_accept_request_stream(cx)).await?;
                Ok::<_, h3::error::ConnectionError>(s.map(|s| conn.create_resolver(h3::frame::FrameStream::new(h3::stream::BufRecvStream::new(s)))))
            };
            p.call("s:conn", "accept", acc, |r| match r {
                Ok(Some(res)) => Out::Accepted(res.frame_stream.id().into_inner()),
                Ok(None) => Out::None,
                Err(e) => Out::ConnErr(ConnErr::from_h3(e)),
            })
            .await
        } else {
            p.call("s:conn", "accept", conn.accept(), |r| match r {
                Ok(Some(res)) => Out::Accepted(res.frame_stream.id().into_inner()),
                Ok(None) => Out::None,
                Err(e) => Out::ConnErr(ConnErr::from_h3(e)),
            })
            .await
        };
        match r {
            Ok(Some(resolver)) => {
                accepted += 1;
                let sid = resolver.frame_stream.id().into_inner();
                let e = endings.get(&sid).copied().unwrap_or(Ending::NormalFinish);
                let sd = second_drop.get(&sid).cloned().unwrap_or_default();
                *busy.lock().unwrap() += 1;
                let (busy, freed, p2) = (busy.clone(), freed.clone(), p.clone());
                sp.spawn(format!("s:req@{}", sid), async move {
                    handle(resolver, sid, e, p2, sd).await;
                    *busy.lock().unwrap() -= 1;
                    freed.fire();
                });
            }
            _ => break,
        }
    }
    p.park(conn);
}

fn check_history(endings: &[Ending], goaway_pos: usize, pool: Option<usize>, seed: u64, rep: &mut Report) {
    let mut rng = Rng::new(seed);
    rep.evaluations += 1;
    rep.count("histories");
    for e in endings {
        rep.count(&format!("ending[{:?}]", e));
    }
    let case = json!({"endings": endings.iter().map(|e| format!("{:?}", e)).collect::<Vec<_>>(), "goaway_released_before_request": goaway_pos, "worker_pool": pool});
    if pool.is_some() {
        rep.count("histories_with_a_worker_pool(accept not polled while all workers busy)");
        rep.max("max:requests_of_one_history", endings.len() as u64);
    }
    let mut cfg = NetCfg::random(&mut rng);
    cfg.backpressure = false;
    // streams may be surfaced by the transport in another order than their ids (the trait allows
    // it): half of the histories release the requests in a shuffled order on a transport that
    // surfaces a stream when its first bytes arrive
    let out_of_order = rng.bool();
    cfg.ordered_accept = !out_of_order;
    let net = sim::new_net(cfg);
    let ctrl;
    let mut ids = Vec::new();
    let mut late_uni: Vec<u64> = Vec::new();
    {
        let mut n = lock(&net);
        raw::mark_raw(&mut n, CLIENT);
        // a peer may open other unidirectional streams ahead of its control stream and say nothing
        // on them yet (or ever): the control stream behind them must be found all the same
        if rng.chance(1, 3) {
            rep.count("histories_with_peer_uni_streams_ahead_of_the_control_stream");
            // one QPACK encoder and one decoder stream at most (a second one is a connection error)
            let mut qpack_types = vec![0x02u8, 0x03];
            if rng.bool() {
                qpack_types.swap(0, 1);
            }
            for _ in 0..1 + rng.usize(2) {
                let u = n.raw_open(CLIENT, false);
                match rng.below(3) {
                    0 => rep.count("uni_stream_ahead[silent for ever]"),
                    1 => {
                        rep.count("uni_stream_ahead[qpack type at once]");
                        let t = qpack_types.pop().unwrap();
                        n.raw_write(CLIENT, u, &[t]);
                    }
                    _ => {
                        rep.count("uni_stream_ahead[type arrives later]");
                        late_uni.push(u);
                    }
                }
            }
        }
        ctrl = raw::open_control(&mut n, CLIENT, &[]);
        for _ in endings {
            ids.push(n.raw_open(CLIENT, true));
        }
    }
    if out_of_order && ids.len() > 1 {
        for i in (1..ids.len()).rev() {
            let j = rng.usize(i + 1);
            ids.swap(i, j);
        }
        if ids.windows(2).any(|w| w[0] > w[1]) {
            rep.count("histories_released_out_of_id_order");
        }
    }
    let probe = Probe::new(&net);
    let mut sched = Sched::new(net.clone(), rng.next());
    let emap: Arc<BTreeMap<u64, Ending>> = Arc::new(ids.iter().cloned().zip(endings.iter().cloned()).collect());
    let sigs: Arc<BTreeMap<u64, Signal>> = Arc::new(ids.iter().map(|id| (*id, Signal::default())).collect());
    // release script: requests are released one after the other, the GOAWAY at its position
    let gates: Vec<Arc<Mutex<bool>>> = ids.iter().map(|_| Arc::new(Mutex::new(false))).collect();
    let mut main: Vec<ScriptStep> = Vec::new();
    let mut repeat_goaway_at: Option<usize> = None;
    for i in 0..=ids.len() {
        if i == goaway_pos {
            // frames a server ignores may precede the GOAWAY (same write or an earlier one)
            let noise: Vec<u8> = match rng.below(6) {
                0 => rf::varint_frame(rf::T_MAX_PUSH_ID, 7),
                1 => rf::varint_frame(rf::T_CANCEL_PUSH, 0),
                2 => rf::frame(rf::unknown_type(0), b"ext"),
                _ => vec![],
            };
            if !noise.is_empty() {
                rep.count("goaway_behind_an_ignored_control_frame");
            }
            if noise.is_empty() || rng.bool() {
                let mut w = noise;
                w.extend(rf::varint_frame(rf::T_GOAWAY, 0));
                main.push(raw::step_write(CLIENT, ctrl, w));
            } else {
                main.push(raw::step_write(CLIENT, ctrl, noise));
                main.push(raw::step_write(CLIENT, ctrl, rf::varint_frame(rf::T_GOAWAY, 0)));
            }
            // a peer may say it again (an identifier that is not larger is legal, RFC 9114 5.2)
            repeat_goaway_at = if rng.chance(1, 5) { Some(i + rng.usize(ids.len() + 1 - i)) } else { None };
        }
        if repeat_goaway_at == Some(i) {
            rep.count("histories_with_a_repeated_goaway");
            main.push(raw::step_write(CLIENT, ctrl, rf::varint_frame(rf::T_GOAWAY, 0)));
            repeat_goaway_at = None;
        }
        if i < ids.len() {
            let g = gates[i].clone();
            main.push(raw::step_custom("release request", |_| true, move |_, _| *g.lock().unwrap() = true));
        }
    }
    sched.add_script(main);
    for u in late_uni {
        // its own script: the type shows up at a moment the schedule chooses
        let mut w = crate::refimpl::varint::encode(0x21 + 0x1f * rng.below(1000)).unwrap();
        w.extend(b"pad");
        sched.add_script(vec![raw::step_write(CLIENT, u, w)]);
    }
    for (i, id) in ids.iter().enumerate() {
        let g = gates[i].clone();
        let mut steps = vec![raw::step_custom("wait for release", move |_| *g.lock().unwrap(), |_, _| {})];
        steps.extend(raw_steps(*id, endings[i]));
        // the second half of a split request is dropped when the schedule says so
        if matches!(endings[i], Ending::SplitSendHalfDroppedFirst | Ending::SplitRecvHalfDroppedFirst | Ending::FinishedButHeld) {
            let s = sigs[id].clone();
            steps.push(raw::step_custom("let the application drop the second half", |_| true, move |_, _| s.fire()));
        }
        sched.add_script(steps);
    }
    let poll_variant = rng.chance(1, 3);
    rep.count(if poll_variant { "accept_api[poll_accept_request_stream + create_resolver]" } else { "accept_api[accept()]" });
    // a quarter of the histories: the server itself begins a shutdown after some accepts, with a
    // grace interval that lets the remaining requests of the history in
    let own_shutdown = if rng.chance(1, 4) { Some((rng.usize(endings.len() + 1), endings.len() + 1)) } else { None };
    if own_shutdown.is_some() {
        rep.count("histories_with_a_server_side_shutdown");
    }
    sched.spawn("s:conn", server(net.clone(), probe.clone(), sched.spawner.clone(), emap, sigs.clone(), poll_variant, own_shutdown, pool));
    let end = sched.run(if pool.is_some() { 6_000_000 } else { 1_000_000 });
    rep.sig(hash64(&(endings, goaway_pos, sched.sig)));
    rep.sig_in("interleaving_signatures", sched.sig);
    if end == RunEnd::StepCap {
        rep.inconclusive("step cap");
        return;
    }
    if let Some((t, pi)) = sched.first_panic() {
        viol(rep, &format!("panic[{} {}]", pi.file(), pi.msg_key()), format!("task {}: {} at {}", t, pi.msg, pi.loc), &case);
        return;
    }
    let evs = probe.events();
    let n = lock(&net);
    if let Some(c) = n.closed.as_ref() {
        if c.code != rf::H3_NO_ERROR {
            viol(rep, "connection-error", format!("{} closed with {:#x} ({})", sim::side_name(c.by), c.code, String::from_utf8_lossy(&c.reason)), &case);
            return;
        }
    }
    // liveness ground truth from the log (totally ordered): per accepted request, number of live handles
    let mut live: BTreeMap<u64, i32> = BTreeMap::new();
    let mut halves: BTreeMap<u64, i32> = BTreeMap::new();
    let mut none_seen = false;
    for e in &evs {
        match (&e.out, e.op) {
            (Out::Accepted(s), "accept") => {
                live.insert(*s, 1);
            }
            (Out::Dropped, op) => {
                rep.count("handles_dropped_events");
                let sid: u64 = e.actor.trim_start_matches("s:req@").parse().unwrap_or(u64::MAX);
                let l = live.entry(sid).or_insert(0);
                match op {
                    // split: the stream became two halves; the request lives until both are gone
                    "drop send half" | "drop recv half" => {
                        let h = halves.entry(sid).or_insert(0);
                        *h += 1;
                        *l = if *h >= 2 { 0 } else { 1 };
                    }
                    _ => *l = 0,
                }
            }
            (Out::None, "accept") => {
                none_seen = true;
                rep.count("accept_returned_None");
                rep.count("safety_checks(None while handles alive?)");
                let alive: Vec<u64> = live.iter().filter(|(_, l)| **l > 0).map(|(s, _)| *s).collect();
                if !alive.is_empty() {
                    let kinds: Vec<String> = alive.iter().map(|s| format!("{:?}", endings[ids.iter().position(|i| i == s).unwrap()])).collect();
                    viol(rep, &format!("accept-returned-None-while-request-in-progress[{}]", kinds.join("+")), format!("accept() returned Ok(None) at t={} while handles of streams {:?} were still alive", e.t, alive), &case);
                    return;
                }
            }
            _ => {}
        }
    }
    // bounded progress
    rep.count("progress_checks(at quiescence)");
    let goaway_delivered = {
        let p = n.streams[&ctrl].pipe(CLIENT);
        p.delivered == p.sent.len() && p.sent.len() > 1 + rf::settings_frame(&[]).len()
    };
    let all_gone = live.values().all(|l| *l == 0);
    let accept_pending = probe.open().get("s:conn").map(|(op, _)| *op == "accept").unwrap_or(false);
    if goaway_delivered && all_gone && accept_pending && !none_seen {
        // name the endings of the requests that were accepted, normal ones aside
        let mut kinds: Vec<Ending> = live.keys().filter_map(|s| ids.iter().position(|i| i == s)).map(|i| endings[i]).filter(|e| *e != Ending::NormalFinish).collect();
        kinds.sort();
        kinds.dedup();
        let k = if kinds.is_empty() { "only-normal".to_string() } else { kinds.iter().map(|e| format!("{:?}", e)).collect::<Vec<_>>().join("+") };
        viol(
            rep,
            &format!("accept-pending-at-quiescence[ending={}]", k),
            format!("the peer's GOAWAY was delivered and every handle accept() handed out ({} requests) is gone, but accept() is still pending at quiescence", live.len()),
            &case,
        );
        return;
    }
    if rep.want_sample() && endings.len() == 2 {
        rep.sample(json!({"history": case, "accepted": live.keys().collect::<Vec<_>>(), "accept_returned_None": none_seen, "events": evs.iter().filter(|e| e.actor == "s:conn" || e.out == Out::Dropped).map(|e| format!("t={} {} {}", e.t, e.actor, e.op)).collect::<Vec<_>>()}));
    }
}

fn run_case(gen: &str, index: u64, seed: u64, _tier: Tier, rep: &mut Report) {
    let mut rng = Rng::new(seed);
    match gen {
        "enumerated_histories" => {
            let (endings, pos) = enum_case(index);
            for _ in 0..3 {
                check_history(&endings, pos, None, rng.next(), rep);
            }
        }
        "random_histories" => {
            let k = rng.usize(5);
            let endings: Vec<Ending> = (0..k).map(|_| if rng.chance(1, 9) { Ending::FinishedButHeld } else { *rng.pick(&ENDINGS) }).collect();
            let pos = rng.usize(k + 1);
            check_history(&endings, pos, None, rng.next(), rep);
        }
        "worker_pool_bursts" => {
            // many more requests than the histories above, all in progress at once and all
            // ending while accept() is not being polled
            let span = if rng.chance(1, 3) { 12 } else { 70 };
            let k = 2 + rng.usize(span);
            let normal_pct = *rng.pick(&[0u64, 50, 90]);
            let endings: Vec<Ending> = (0..k).map(|_| if rng.below(100) < normal_pct { Ending::NormalFinish } else if rng.chance(1, 9) { Ending::FinishedButHeld } else { *rng.pick(&ENDINGS) }).collect();
            let pos = rng.usize(k + 1);
            let pool = if rng.bool() { k } else { 1 + rng.usize(k) };
            check_history(&endings, pos, Some(pool), rng.next(), rep);
        }
        _ => {}
    }
}
