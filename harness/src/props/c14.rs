//! C14 — everything h3 writes is valid HTTP/3, however the transport takes it.
//! Random API programs in both roles x configurations x write-acceptance patterns; the oracle is
//! the reference RFC 9114 parser run over every stream h3 wrote, plus DATA-frame conservation
//! against the buffers handed to send_data.

use crate::refimpl::frames as rf;
use crate::refimpl::wire;
use crate::report::Report;
use crate::sim::apps::{self, BodyBuf, CliCfg, ClientOpts, EndMode, Out, Probe, ReqPlan, RespPlan, SegBuf, ServerOpts, ShutdownPlan, SrvCfg};
use crate::sim::msggen::{self, GenOpts};
use crate::sim::sched::{RunEnd, Sched};
use crate::sim::{self, id_kind, lock, NetCfg, CLIENT, SERVER};
use crate::util::{hash64, hex_short, Rng};
use crate::{Gen, PropDef, Tier};
use bytes::Bytes;
use serde_json::json;

pub fn def() -> PropDef {
    PropDef {
        id: "C14",
        rule: "a case = one connection between the real h3 client and server running a generated API \
               program: 1..4 requests, each with send_data buffers of 0 B..64 KiB (Bytes or a \
               segmented multi-chunk Buf with empty segments), optional trailers, ended by finish / \
               drop / stop_stream(code), reading or ignoring the peer's message, whole or split \
               streams; server shutdown(n) calls at chosen points, client shutdown before polling; \
               builder configurations (grease on/off, field-section limits, datagram / extended \
               CONNECT / WebTransport flags); transport write acceptance of 1..k bytes per poll with \
               arbitrary Pending patterns. Every stream written by either endpoint is parsed by the \
               reference RFC 9114 checker (legal uni stream types, control stream = SETTINGS then \
               only allowed frames and never closed, request streams = HEADERS DATA* HEADERS? + \
               grease frames, length fields exact, finished streams end on a frame boundary, QPACK \
               payloads decodable, reserved ids of grease form, no H2-reserved types/settings) and \
               the DATA frames on the wire must be exactly the buffers handed to send_data, in \
               order. Non-trivial distinct = hash of (program, configuration, interleaving).",
        assumptions: || {
            vec![
                "reference parser refimpl/wire.rs + refimpl/frames.rs + refimpl/qpack.rs".into(),
                "streams abandoned or reset mid-frame are not judged for completeness; a stream is 'finished' only by an explicit finish()".into(),
                "simquic models Quinn's implicit FIN on dropped send streams; those are not treated as finishes".into(),
            ]
        },
        gens,
        run_case,
        finish,
    }
}

fn gens(tier: Tier) -> Vec<Gen> {
    vec![
        Gen::new("programs_bytes", tier.pick(2, 1500, 150_000)),
        Gen::new("programs_segbuf", tier.pick(2, 1500, 150_000)),
    ]
}

fn finish(tier: Tier, rep: &mut Report) {
    if tier == Tier::Lite {
        return;
    }
    for (k, floor) in [
        ("programs", 500u64),
        ("wire_frames_parsed", 5_000),
        ("wire_data_frames", 1_000),
        ("wire_empty_data_frames", 10),
        ("wire_grease_frames", 50),
        ("wire_grease_streams", 50),
        ("wire_goaway_frames", 20),
        ("partial_write_events", 500),
        ("end[Drop]", 20),
        ("end[Reset]", 20),
        ("end[Finish]", 100),
        ("data_frames_matched_to_buffers", 1_000),
        ("buf[SegBuf]", 100),
    ] {
        if rep.get(k) < floor {
            rep.inconclusive(format!("{} = {} below floor {}", k, rep.get(k), floor));
        }
    }
}

pub struct Program {
    pub reqs: Vec<ReqPlan>,
    pub resps: Vec<RespPlan>,
    pub scfg: SrvCfg,
    pub ccfg: CliCfg,
    pub shutdowns: Vec<ShutdownPlan>,
    pub client_shutdown: Option<usize>,
    pub net: NetCfg,
    pub sequential: bool,
    pub sched_seed: u64,
}

fn gen_end(rng: &mut Rng) -> EndMode {
    match rng.below(6) {
        0 => EndMode::Drop,
        1 => EndMode::Reset(*rng.pick(&[0u64, 0x100, 0x10c, 0x10f, (1 << 62) - 1])),
        2 => EndMode::FinishRetried,
        _ => EndMode::Finish,
    }
}

pub fn gen_program(rng: &mut Rng, big: bool) -> Program {
    let o = GenOpts {
        max_body: if big { 64 * 1024 } else { 3000 },
        ..Default::default()
    };
    let n = 1 + rng.usize(4);
    let mut reqs = Vec::new();
    let mut resps = Vec::new();
    for _ in 0..n {
        let req = msggen::gen_request(rng, &o);
        let pieces = req.body.len();
        reqs.push(ReqPlan {
            req,
            split: rng.chance(1, 3),
            end: gen_end(rng),
            read_response: rng.chance(4, 5),
            stop_after_pieces: if pieces > 0 && rng.chance(1, 6) { Some(rng.usize(pieces + 1)) } else { None },
            hold: None,
            late_split: None,
        });
        let resp = msggen::gen_response(rng, &o);
        let pieces = resp.body.len();
        resps.push(RespPlan {
            resp,
            split: rng.chance(1, 3),
            end: gen_end(rng),
            read_request: rng.chance(4, 5),
            stop_after_pieces: if pieces > 0 && rng.chance(1, 6) { Some(rng.usize(pieces + 1)) } else { None },
            hold: None,
            late_split: None,
        });
    }
    // configured values sit on both sides of every varint form boundary (they go on the wire)
    let sizes = [None, None, Some(0u64), Some(100), Some(1000), Some(16383), Some(16384), Some((1 << 30) - 1), Some(1 << 30), Some(3 << 30), Some((1 << 32) - 1), Some(1 << 32), Some((1 << 62) - 1)];
    let scfg = SrvCfg {
        max_field_section_size: *rng.pick(&sizes),
        grease: Some(rng.bool()),
        webtransport: Some(rng.chance(1, 4)),
        extended_connect: Some(rng.chance(1, 3)),
        datagram: Some(rng.chance(1, 3)),
        call_order: rng.below(251) as u8,
        max_wt_sessions: if rng.chance(1, 4) { Some(*rng.pick(&[0u64, 1, 63, 64, 16383, 16384, (1 << 30) - 1, 1 << 30, (1 << 32) - 1, 1 << 40])) } else { None },
    };
    let ccfg = CliCfg {
        max_field_section_size: *rng.pick(&sizes),
        grease: Some(rng.bool()),
        extended_connect: Some(rng.chance(1, 3)),
        datagram: Some(rng.chance(1, 3)),
    };
    let mut shutdowns = Vec::new();
    if rng.chance(1, 3) {
        for _ in 0..1 + rng.usize(3) {
            shutdowns.push(ShutdownPlan {
                after_accepts: rng.usize(n + 1),
                // now and then a grace interval so large that the identifier saturates
                grace: if rng.chance(1, 8) { usize::MAX >> rng.usize(4) } else { rng.usize(4) },
            });
        }
    }
    let mut net = NetCfg::random(rng);
    if rng.chance(2, 3) {
        net.backpressure = true;
    }
    Program {
        reqs,
        resps,
        scfg,
        ccfg,
        shutdowns,
        client_shutdown: if rng.chance(1, 10) { Some(rng.usize(3)) } else { None },
        net,
        sequential: rng.chance(1, 3),
        sched_seed: rng.next(),
    }
}

fn describe(p: &Program) -> serde_json::Value {
    json!({
        "requests": p.reqs.iter().map(|q| json!({"method": q.req.method, "pieces": q.req.body.iter().map(|b| b.len()).collect::<Vec<_>>(), "trailers": q.req.trailers.is_some(),
            "split": q.split, "end": format!("{:?}", q.end), "read_response": q.read_response, "stop_after_pieces": q.stop_after_pieces})).collect::<Vec<_>>(),
        "responses": p.resps.iter().map(|q| json!({"status": q.resp.status, "pieces": q.resp.body.iter().map(|b| b.len()).collect::<Vec<_>>(), "trailers": q.resp.trailers.is_some(),
            "split": q.split, "end": format!("{:?}", q.end), "read_request": q.read_request, "stop_after_pieces": q.stop_after_pieces})).collect::<Vec<_>>(),
        "server_cfg": format!("{:?}", p.scfg), "client_cfg": format!("{:?}", p.ccfg),
        "server_shutdowns": p.shutdowns.iter().map(|s| (s.after_accepts, s.grace)).collect::<Vec<_>>(),
        "client_shutdown": p.client_shutdown,
        "net": {"chunk_style": p.net.chunk_style, "backpressure": p.net.backpressure, "max_budget_grant": p.net.max_budget_grant},
    })
}

fn viol(rep: &mut Report, rule: &str, detail: String, case: &serde_json::Value) {
    rep.violation(format!("C14/{}", rule), detail, case.clone());
}

/// DATA frames on the wire of `stream` written by `side` vs the buffers handed to send_data.
fn check_data_frames(
    wire: &[u8],
    attempted: &[Vec<u8>],
    ok_calls: usize,
    what: &str,
    rep: &mut Report,
    case: &serde_json::Value,
) {
    let (frames, tail) = rf::segment(wire);
    let data: Vec<&rf::RawFrame> = frames.iter().filter(|f| f.ty == rf::T_DATA).collect();
    if data.len() > attempted.len() {
        viol(rep, "more-DATA-frames-than-send_data-calls", format!("{}: {} DATA frames on the wire, {} send_data calls", what, data.len(), attempted.len()), case);
        return;
    }
    for (i, f) in data.iter().enumerate() {
        if f.payload != attempted[i] {
            let rule = if f.payload.len() != attempted[i].len() { "DATA-length-differs-from-buffer" } else { "DATA-payload-differs-from-buffer" };
            viol(
                rep,
                rule,
                format!("{}: DATA frame #{} carries {} B ({}), send_data buffer #{} had {} B ({})", what, i, f.payload.len(), hex_short(&f.payload, 8), i, attempted[i].len(), hex_short(&attempted[i], 8)),
                case,
            );
            return;
        }
        rep.count("data_frames_matched_to_buffers");
    }
    if let rf::Tail::PartialPayload { ty, declared, have, payload_start, .. } = &tail {
        if *ty == rf::T_DATA {
            let i = data.len();
            match attempted.get(i) {
                None => viol(rep, "more-DATA-frames-than-send_data-calls", format!("{}: partial DATA frame #{} without a send_data call", what, i), case),
                Some(b) => {
                    if *declared != b.len() as u64 || !b.starts_with(&wire[*payload_start..*payload_start + *have]) {
                        viol(rep, "DATA-length-differs-from-buffer", format!("{}: partial DATA frame #{} declares {} B, buffer had {} B", what, i, declared, b.len()), case);
                    }
                }
            }
        }
    }
    if data.len() < ok_calls {
        viol(rep, "send_data-returned-Ok-but-frame-not-written", format!("{}: {} send_data calls returned Ok, only {} complete DATA frames on the wire", what, ok_calls, data.len()), case);
    }
}

pub fn run_program<B: BodyBuf>(p: &Program, rep: &mut Report) {
    rep.evaluations += 1;
    rep.count("programs");
    rep.count(&format!("buf[{}]", B::NAME));
    let case = describe(p);
    let net = sim::new_net(p.net.clone());
    let probe = Probe::new(&net);
    let mut sched = Sched::new(net.clone(), p.sched_seed);
    let sopts = ServerOpts {
        cfg: p.scfg,
        plans: p.resps.clone(),
        shutdowns: p.shutdowns.clone(),
        ..Default::default()
    };
    let copts = ClientOpts {
        cfg: p.ccfg,
        reqs: p.reqs.clone(),
        sequential: p.sequential,
        shutdown_at_start: p.client_shutdown,
        wait_gate: false,
    };
    let sp = sched.spawner.clone();
    sched.spawn("s:conn", apps::server_main::<B>(net.clone(), sopts, probe.clone(), sp.clone()));
    sched.spawn("c:conn", apps::client_main::<B>(net.clone(), copts, probe.clone(), sp));
    // run in slices: what has been written so far is checked on the way, so that a writer that
    // has gone wrong (e.g. replays header bytes for ever) is reported from its output long before
    // the step cap - the receiving h3 gets slower with every byte of garbage it buffers
    let wt = p.scfg.webtransport == Some(true);
    const SLICE: u64 = 50_000;
    const SLICES: u64 = 120;
    let mut end = RunEnd::StepCap;
    for slice in 0..SLICES {
        end = sched.run_slice(SLICE);
        if end != RunEnd::StepCap {
            break;
        }
        rep.count("online_wire_checks");
        let n = lock(&net);
        for side in [CLIENT, SERVER] {
            let (finds, _) = wire::check_output(&n, side, wire::WireOpts { webtransport: wt, allow_push: false });
            if let Some(f) = finds.first() {
                viol(rep, &format!("wire[{}]", f.rule), format!("{} stream {} (after {} steps, still running): {}", sim::side_name(side), f.stream, (slice + 1) * SLICE, f.detail), &case);
                return;
            }
        }
    }
    if end == RunEnd::StepCap {
        sched.note_step_cap(SLICE * SLICES);
        rep.inconclusive("step cap reached");
        return;
    }
    if let Some((task, pi)) = sched.first_panic() {
        viol(rep, &format!("panic[{} {}]", pi.file(), pi.msg_key()), format!("task {} panicked: {} at {}", task, pi.msg, pi.loc), &case);
        return;
    }
    let evs = probe.events();
    let n = lock(&net);
    for side in [CLIENT, SERVER] {
        let (finds, st) = wire::check_output(&n, side, wire::WireOpts { webtransport: wt, allow_push: false });
        rep.add("wire_frames_parsed", st.frames);
        rep.add("wire_streams_checked", st.streams_checked);
        rep.add("wire_data_frames", st.data_frames);
        rep.add("wire_empty_data_frames", st.empty_data_frames);
        rep.add("wire_headers_frames", st.headers_frames);
        rep.add("wire_grease_frames", st.grease_frames);
        rep.add("wire_grease_streams", st.grease_streams);
        rep.add("wire_goaway_frames", st.goaway_frames);
        rep.add("wire_settings_frames", st.settings_frames);
        rep.add("wire_finished_streams", st.finished_streams);
        rep.add("wire_unfinished_streams", st.unfinished_streams);
        for f in finds {
            viol(rep, &format!("wire[{}]", f.rule), format!("{} stream {}: {}", sim::side_name(side), f.stream, f.detail), &case);
        }
    }
    rep.add("finish_futures_dropped_while_pending_then_called_again", evs.iter().filter(|e| e.op == "finish (future dropped while pending)").count() as u64);
    // DATA conservation at the wire
    let accept_order: Vec<u64> = evs.iter().filter_map(|e| if let Out::Accepted(s) = e.out { Some(s) } else { None }).collect();
    for (i, q) in p.reqs.iter().enumerate() {
        rep.count(&format!("end[{}]", match q.end { EndMode::Finish => "Finish", EndMode::Drop => "Drop", EndMode::Reset(_) => "Reset", EndMode::FinishRetried => "Finish (first call dropped while pending, called again)" }));
        let cact = format!("c:req#{}", i);
        let sid = evs.iter().find_map(|e| if e.actor == cact { if let Out::Opened(s) = e.out { Some(s) } else { None } } else { None });
        let Some(sid) = sid else { continue };
        let attempted: Vec<Vec<u8>> = q.req.body.iter().take(q.stop_after_pieces.unwrap_or(usize::MAX)).cloned().collect();
        let ok = evs.iter().filter(|e| (e.actor == cact || e.actor == format!("{}:send", cact)) && e.op == "send_data" && e.out == Out::Ok).count();
        if let Some(s) = n.streams.get(&sid) {
            check_data_frames(&s.pipe(CLIENT).sent, &attempted, ok, &format!("request stream {}", sid), rep, &case);
        }
        if let Some(pos) = accept_order.iter().position(|s| *s == sid) {
            let r = &p.resps[pos.min(p.resps.len() - 1)];
            rep.count(&format!("end[{}]", match r.end { EndMode::Finish => "Finish", EndMode::Drop => "Drop", EndMode::Reset(_) => "Reset", EndMode::FinishRetried => "Finish (first call dropped while pending, called again)" }));
            let sact = format!("s:req@{}", sid);
            let attempted: Vec<Vec<u8>> = r.resp.body.iter().take(r.stop_after_pieces.unwrap_or(usize::MAX)).cloned().collect();
            let ok = evs.iter().filter(|e| (e.actor == sact || e.actor == format!("{}:send", sact)) && e.op == "send_data" && e.out == Out::Ok).count();
            if let Some(s) = n.streams.get(&sid) {
                // the 431 / error paths may make h3 itself answer; only judge when the app's send_response succeeded
                let responded = evs.iter().any(|e| (e.actor == sact || e.actor == format!("{}:send", sact)) && e.op == "send_response" && e.out == Out::Ok);
                if responded {
                    check_data_frames(&s.pipe(SERVER).sent, &attempted, ok, &format!("response on stream {}", sid), rep, &case);
                }
            }
        }
    }
    for (id, s) in n.streams.iter() {
        let (_, _bidi) = id_kind(*id);
        for sender in 0..2 {
            if let Some(pp) = s.pipes[sender].as_ref() {
                rep.add("partial_write_events", pp.partial_writes);
            }
        }
    }
    rep.sig(hash64(&(format!("{}", case), sched.sig)));
    rep.sig_in("interleaving_signatures", sched.sig);
    rep.add("sched_steps", sched.steps);
    if rep.want_sample() {
        rep.sample(json!({"program": case, "steps": sched.steps}));
    }
}

fn run_case(gen: &str, index: u64, seed: u64, _tier: Tier, rep: &mut Report) {
    let mut rng = Rng::new(seed);
    let big = index % 50 == 0;
    let p = gen_program(&mut rng, big);
    match gen {
        "programs_bytes" => run_program::<Bytes>(&p, rep),
        "programs_segbuf" => run_program::<SegBuf>(&p, rep),
        _ => {}
    }
}
