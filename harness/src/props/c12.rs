//! C12 — only well-formed messages reach the application; sent ones are well-formed.
//! A three-valued reference predicate (MUST_REJECT / MUST_ACCEPT / DONT_CARE) over decoded field
//! lists is compared with (a) h3's `Header::try_from` + `into_*_parts` directly (volume), (b) the
//! API outcome when a raw peer injects the section end to end, and (c) for the send side, the
//! reference-decoded HEADERS frames of generated messages.

use crate::props::c01;
use crate::refimpl::frames as rf;
use crate::refimpl::qpack as rq;
use crate::report::Report;
use crate::sim::apps::{self, ClientOpts, Err as AErr, Fields, Msg, Out, Probe, ReqPlan, RespPlan, ServerOpts};
use crate::sim::msggen::{self, GenOpts};
use crate::sim::rawpeer as raw;
use crate::sim::sched::{RunEnd, Sched};
use crate::sim::{self, lock, NetCfg, CLIENT, SERVER};
use crate::util::{hash64, hex_short, Rng};
use crate::{Gen, PropDef, Tier};
use bytes::Bytes;
use h3::proto::headers::Header;
use h3::qpack::HeaderField;
use serde_json::json;
use std::convert::TryFrom;

pub fn def() -> PropDef {
    PropDef {
        id: "C12",
        rule: "field lists are assembled from pools of valid and invalid names (uppercase, empty, \
               control/separator bytes, unknown ':x' pseudo names) and values (CR, LF, NUL, other \
               controls, obs-text), with present / absent / duplicated / contradictory :method, \
               :scheme, :authority, :path, :status, :protocol and Host, as requests, responses and \
               trailers. (a) each list goes through h3's Header::try_from + into_request_parts / \
               into_response_parts / into_fields directly; (b) a sample is reference-encoded and \
               injected by a raw peer into a real server/client connection; the outcome is compared \
               with the three-valued reference predicate: MUST_REJECT lists must be refused (end to \
               end: StreamError H3_MESSAGE_ERROR, no connection error), MUST_ACCEPT lists must be \
               handed over with equal content, DONT_CARE lists may go either way but accepted \
               regular fields must equal the input. (c) send side: generated http::Request/Response \
               values are sent by the real endpoints and the HEADERS frames on the wire, decoded by \
               the reference, must list every pseudo-field before any regular field, each at most \
               once, with the caller's values. Non-trivial distinct = distinct field list / message.",
        assumptions: || {
            vec![
                "the reference predicate in this module encodes RFC 9114 §4.2/§4.3 conservatively; latitude (other control bytes in values, duplicated pseudo-fields, response pseudo-fields in requests and vice versa, pseudo-fields in trailers or after regular fields, missing :scheme/:path, authority/Host differing only in case, unknown but token-shaped :protocol, delimiter characters in :method) is DONT_CARE".into(),
                "sections are reference-encoded, so the QPACK layer is not in question".into(),
            ]
        },
        gens,
        run_case,
        finish,
    }
}

fn gens(tier: Tier) -> Vec<Gen> {
    vec![
        Gen::new("direct_lists", tier.pick(4, 2_000, 200_000)), // 50 lists per case
        Gen::new("end_to_end_lists", tier.pick(2, 3_000, 100_000)),
        Gen::new("send_side_messages", tier.pick(2, 600, 30_000)),
        Gen::new("send_side_request_targets", tier.pick(2, 300, 10_000)),
    ]
}

fn finish(tier: Tier, rep: &mut Report) {
    if tier == Tier::Lite {
        return;
    }
    for (k, floor) in [
        ("direct_checked", 50_000u64),
        ("verdict[must_reject]", 5_000),
        ("verdict[must_accept]", 5_000),
        ("verdict[dont_care]", 1_000),
        ("e2e_checked", 1_000),
        ("e2e_rejected_with_H3_MESSAGE_ERROR", 200),
        ("e2e_delivered", 200),
        ("send_headers_frames_checked", 500),
    ] {
        if rep.get(k) < floor {
            rep.inconclusive(format!("{} = {} below floor {}", k, rep.get(k), floor));
        }
    }
    // every MUST_REJECT reason must have been exercised
    for r in REJECT_REASONS {
        if rep.get(&format!("reject_reason[{}]", r)) == 0 {
            rep.inconclusive(format!("reject reason {} never generated", r));
        }
    }
}

const REJECT_REASONS: [&str; 14] = [
    "empty-name",
    "uppercase-name",
    "non-token-name",
    "nul-cr-lf-in-value",
    "undefined-pseudo",
    "bad-method",
    "bad-status",
    "bad-scheme",
    "bad-authority",
    "bad-protocol",
    "missing-method",
    "missing-authority",
    "authority-host-mismatch",
    "missing-status",
];

#[derive(Debug, Clone, Copy, PartialEq, Eq, Hash)]
pub enum MsgKind {
    Request,
    Response,
    Trailers,
}

#[derive(Debug, Clone, PartialEq, Eq)]
pub enum Verdict {
    MustReject(&'static str),
    MustAccept,
    DontCare(&'static str),
}

fn is_tchar(b: u8) -> bool {
    b.is_ascii_alphanumeric() || b"!#$%&'*+-.^_`|~".contains(&b)
}

type F = (Vec<u8>, Vec<u8>);

/// The reference predicate.
pub fn judge(kind: MsgKind, fields: &[F]) -> Verdict {
    let mut dont_care: Option<&'static str> = None;
    let mut seen_regular = false;
    let mut pseudo_seen: Vec<&[u8]> = Vec::new();
    let get = |name: &[u8]| -> Vec<&Vec<u8>> { fields.iter().filter(|(n, _)| n == name).map(|(_, v)| v).collect() };
    for (n, v) in fields {
        if n.is_empty() {
            return Verdict::MustReject("empty-name");
        }
        let pseudo = n[0] == b':';
        let body = if pseudo { &n[1..] } else { &n[..] };
        if body.iter().any(|b| b.is_ascii_uppercase()) && body.iter().all(|b| is_tchar(*b)) {
            return Verdict::MustReject("uppercase-name");
        }
        if !pseudo && !body.iter().all(|b| is_tchar(*b)) {
            return Verdict::MustReject("non-token-name");
        }
        if v.iter().any(|b| matches!(*b, 0 | b'\r' | b'\n')) {
            return Verdict::MustReject("nul-cr-lf-in-value");
        }
        if v.iter().any(|b| (*b < 0x20 && *b != b'\t') || *b == 0x7f) {
            dont_care = Some("other control byte in a value");
        }
        if pseudo {
            let known: [&[u8]; 6] = [b":method", b":scheme", b":authority", b":path", b":status", b":protocol"];
            if !known.contains(&&n[..]) {
                return Verdict::MustReject("undefined-pseudo");
            }
            if seen_regular {
                dont_care = Some("pseudo-field after a regular field");
            }
            if pseudo_seen.contains(&&n[..]) {
                dont_care = Some("duplicated pseudo-field");
            }
            pseudo_seen.push(&n[..]);
            match kind {
                MsgKind::Trailers => dont_care = Some("pseudo-field in trailers"),
                MsgKind::Request if &n[..] == b":status" => dont_care = Some("response pseudo-field in a request"),
                MsgKind::Response if &n[..] != b":status" => dont_care = Some("request pseudo-field in a response"),
                _ => {}
            }
            // value syntax
            let bad_bytes = |v: &[u8]| v.iter().any(|b| *b <= 0x20 || *b >= 0x7f);
            match &n[..] {
                b":method" => {
                    if v.is_empty() || bad_bytes(v) {
                        return Verdict::MustReject("bad-method");
                    }
                    if !v.iter().all(|b| is_tchar(*b)) {
                        dont_care = Some("delimiter in :method");
                    }
                }
                b":status" => {
                    if v.len() != 3 || !v.iter().all(|b| b.is_ascii_digit()) {
                        return Verdict::MustReject("bad-status");
                    }
                    if v[0] == b'0' {
                        dont_care = Some("status below 100");
                    }
                }
                b":scheme" => {
                    if v.is_empty() || !v.iter().all(|b| b.is_ascii_alphanumeric() || b"+-.".contains(b)) {
                        return Verdict::MustReject("bad-scheme");
                    }
                    if !v[0].is_ascii_alphabetic() {
                        dont_care = Some("scheme not starting with a letter");
                    }
                    if v.iter().any(|b| b.is_ascii_uppercase()) {
                        dont_care = Some("uppercase in scheme (normalised by the http crate)");
                    }
                }
                b":authority" => {
                    if bad_bytes(v) || v.iter().any(|b| b"/?#\\".contains(b)) {
                        return Verdict::MustReject("bad-authority");
                    }
                    if v.iter().any(|b| b"@[]".contains(b) || b.is_ascii_uppercase()) {
                        dont_care = Some("userinfo / ip-literal / uppercase in authority");
                    }
                    if v.iter().any(|b| !(b.is_ascii_alphanumeric() || b"-.:_~".contains(b))) {
                        dont_care = Some("unusual authority characters");
                    }
                    // port syntax
                    if let Some(pos) = v.iter().rposition(|b| *b == b':') {
                        let port = &v[pos + 1..];
                        if port.is_empty() || port.len() > 5 || !port.iter().all(|b| b.is_ascii_digit()) || v.iter().filter(|b| **b == b':').count() > 1 {
                            dont_care = Some("unusual port");
                        } else if std::str::from_utf8(port).unwrap().parse::<u32>().unwrap() > 65535 {
                            dont_care = Some("port above 65535");
                        }
                        if pos == 0 {
                            dont_care = Some("empty host");
                        }
                    }
                }
                b":path" => {
                    if v.iter().any(|b| *b <= 0x20 || *b == 0x7f) {
                        dont_care = Some("control/space in :path");
                    }
                    if v.is_empty() || v[0] != b'/' || v.iter().any(|b| *b >= 0x80 || b"#\"<>\\^`{|}".contains(b)) {
                        dont_care = Some("unusual :path");
                    }
                }
                b":protocol" => {
                    if v.is_empty() || !v.iter().all(|b| is_tchar(*b)) {
                        return Verdict::MustReject("bad-protocol");
                    }
                    let known: [&[u8]; 4] = [b"webtransport", b"connect-udp", b"connect-ip", b"websocket"];
                    if !known.contains(&&v[..]) {
                        dont_care = Some("unknown :protocol token");
                    }
                }
                _ => {}
            }
        } else {
            seen_regular = true;
        }
    }
    match kind {
        MsgKind::Request => {
            if get(b":method").is_empty() {
                return Verdict::MustReject("missing-method");
            }
            let auth = get(b":authority");
            let host = get(b"host");
            if auth.is_empty() && host.is_empty() {
                return Verdict::MustReject("missing-authority");
            }
            if auth.iter().any(|a| a.is_empty()) || (auth.is_empty() && host.iter().any(|h| h.is_empty())) {
                return Verdict::MustReject("missing-authority");
            }
            if host.len() > 1 {
                dont_care = Some("several Host fields");
            }
            if let (Some(a), Some(h)) = (auth.last(), host.first()) {
                if a != h {
                    if a.eq_ignore_ascii_case(h) {
                        dont_care = Some("authority and Host differ in case only");
                    } else if auth.len() == 1 && host.len() == 1 {
                        return Verdict::MustReject("authority-host-mismatch");
                    } else {
                        dont_care = Some("several authorities");
                    }
                }
            }
            if let Some(h) = host.first() {
                if auth.is_empty() && (h.iter().any(|b| *b <= 0x20 || *b >= 0x7f || b"/?#\\@[]".contains(b)) || h.iter().any(|b| b.is_ascii_uppercase()) || h.iter().filter(|b| **b == b':').count() > 0) {
                    dont_care = Some("Host used as authority with unusual syntax");
                }
            }
            if get(b":scheme").is_empty() || get(b":path").is_empty() {
                dont_care = Some("missing :scheme or :path");
            }
            if !get(b":protocol").is_empty() && get(b":method").first().map(|m| &m[..] != b"CONNECT").unwrap_or(true) {
                dont_care = Some(":protocol without CONNECT");
            }
        }
        MsgKind::Response => {
            if get(b":status").is_empty() {
                return Verdict::MustReject("missing-status");
            }
        }
        MsgKind::Trailers => {}
    }
    match dont_care {
        Some(w) => Verdict::DontCare(w),
        None => Verdict::MustAccept,
    }
}

// ---------------------------------------------------------------------------------------------
// generation

const GOOD_NAMES: [&str; 8] = ["x-a", "accept", "content-type", "x-custom_1", "cookie", "te", "a", "x!#$%&'*+-.^_`|~9"];
const BAD_NAMES: [&[u8]; 12] = [b"", b"X-Upper", b"conTent-type", b"x y", b"x\x00", b"x(", b"x,y", b"x:y", b"x\xffy", b"x\ty", b"x=1", b"@home"];
const UNDEF_PSEUDO: [&[u8]; 5] = [b":x", b":", b":unknown", b":methods", b":Path"];

fn gen_value(rng: &mut Rng) -> Vec<u8> {
    match rng.below(60) {
        0 => b"bad\rvalue".to_vec(),
        1 => b"bad\nvalue".to_vec(),
        2 => b"bad\x00value".to_vec(),
        3 => b"ctl\x01\x1fvalue".to_vec(),
        4 => b"del\x7f".to_vec(),
        5..=8 => {
            // CR, LF, NUL (and the other bytes a lenient "trim" would eat) at either edge of, in
            // the middle of, or as the whole of an otherwise legal value
            let bad: &[u8] = match rng.below(6) {
                0 => b"\r",
                1 => b"\n",
                2 => b"\r\n",
                3 => b"\x00",
                4 => b"\n\x0c",
                _ => b"\x0b\r",
            };
            let mut v = if rng.chance(1, 5) { Vec::new() } else { msggen::gen_value(rng) };
            v.retain(|b| !matches!(*b, 0 | b'\r' | b'\n'));
            let at = match rng.below(3) {
                0 => 0,
                1 => v.len(),
                _ => rng.usize(v.len() + 1),
            };
            for (i, b) in bad.iter().enumerate() {
                v.insert(at + i, *b);
            }
            v
        }
        _ => msggen::gen_value(rng),
    }
}

fn gen_pseudo_value(name: &[u8], rng: &mut Rng) -> Vec<u8> {
    let good: &[&[u8]] = match name {
        b":method" => &[b"GET", b"POST", b"CONNECT", b"PROPFIND", b"X"],
        b":scheme" => &[b"https", b"http", b"ftp", b"a+b.c-d"],
        b":authority" => &[b"example.com", b"example.com:8080", b"a", b"localhost:1"],
        b":path" => &[b"/", b"/a/b?c=d", b"/%20x", b"/*"],
        b":status" => &[b"200", b"404", b"599", b"100", b"204"],
        b":protocol" => &[b"webtransport", b"connect-udp", b"websocket", b"connect-ip"],
        _ => &[b"v"],
    };
    let bad: &[&[u8]] = match name {
        b":method" => &[b"", b"GE T", b"G\x00T", b"G\xc3\xa9T", b"GET\r\n", b"a(b", b"a/b"],
        b":scheme" => &[b"", b"ht tp", b"http:", b"h/t", b"1http", b"HTTP", b"h\xfft"],
        b":authority" => &[b"", b"exa mple.com", b"example.com/x", b"a?b", b"a#b", b"user@example.com", b"EXAMPLE.com", b"example.com:99999", b"example.com:", b"[::1]:80", b"a\\b", b":80"],
        b":path" => &[b"", b"no-slash", b"/a b", b"/\x01", b"/\xff", b"/a#frag", b"*"],
        b":status" => &[b"", b"20", b"2000", b"abc", b"2 0", b"099", b"-10", b"20x", b"+200", b"0404", b"00200", b" 200", b"200 ", b"+99", b"2e2"],
        b":protocol" => &[b"", b"web transport", b"foo", b"WEBTRANSPORT", b"a/b", b"x\x00"],
        _ => &[b""],
    };
    if rng.chance(1, 12) {
        rng.pick(bad).to_vec()
    } else {
        rng.pick(good).to_vec()
    }
}

pub fn gen_list(kind: MsgKind, rng: &mut Rng) -> Vec<F> {
    let mut f: Vec<F> = Vec::new();
    let push_pseudo = |f: &mut Vec<F>, n: &[u8], rng: &mut Rng| {
        let v = gen_pseudo_value(n, rng);
        f.push((n.to_vec(), v));
    };
    // start from a mostly valid skeleton, then perturb
    match kind {
        MsgKind::Request => {
            for n in [&b":method"[..], b":scheme", b":authority", b":path"] {
                if !rng.chance(1, 25) {
                    push_pseudo(&mut f, n, rng);
                }
            }
            if rng.chance(1, 8) {
                push_pseudo(&mut f, b":protocol", rng);
            }
            if rng.chance(1, 20) {
                push_pseudo(&mut f, b":status", rng);
            }
        }
        MsgKind::Response => {
            if !rng.chance(1, 12) {
                push_pseudo(&mut f, b":status", rng);
            }
            if rng.chance(1, 20) {
                push_pseudo(&mut f, b":path", rng);
            }
        }
        MsgKind::Trailers => {
            if rng.chance(1, 12) {
                push_pseudo(&mut f, b":status", rng);
            }
        }
    }
    if rng.chance(1, 15) {
        // duplicate a pseudo field
        if let Some((n, _)) = f.get(rng.usize(f.len().max(1))).cloned() {
            push_pseudo(&mut f, &n, rng);
        }
    }
    if rng.chance(1, 30) {
        f.push((rng.pick(&UNDEF_PSEUDO).to_vec(), b"v".to_vec()));
    }
    let n = rng.usize(5);
    for _ in 0..n {
        let name: Vec<u8> = if rng.chance(1, 20) { rng.pick(&BAD_NAMES).to_vec() } else { rng.pick(&GOOD_NAMES).as_bytes().to_vec() };
        let v = gen_value(rng);
        f.push((name, v));
    }
    if kind == MsgKind::Request && rng.chance(1, 4) {
        // Host: equal to the authority, different, empty, case-different
        let auth = f.iter().find(|(n, _)| n == b":authority").map(|(_, v)| v.clone());
        let h: Vec<u8> = match (rng.below(5), auth) {
            (0, Some(a)) | (1, Some(a)) => a,
            (2, Some(a)) => a.to_ascii_uppercase(),
            (3, _) => b"".to_vec(),
            _ => b"other.example".to_vec(),
        };
        let at = rng.usize(f.len() + 1);
        f.insert(at, (b"host".to_vec(), h));
        if rng.chance(1, 4) {
            // drop :authority so that Host carries it alone
            f.retain(|(n, _)| n != b":authority");
        }
    }
    if rng.chance(1, 12) && f.len() > 1 {
        // move a pseudo field behind a regular one
        let i = rng.usize(f.len());
        let x = f.remove(i);
        f.push(x);
    }
    f
}

fn fields_json(f: &[F]) -> serde_json::Value {
    json!(f.iter().map(|(n, v)| format!("{}: {}", String::from_utf8_lossy(n).escape_default(), hex_short(v, 24))).collect::<Vec<_>>())
}

fn viol(rep: &mut Report, rule: &str, detail: String, case: &serde_json::Value) {
    rep.violation(format!("C12/{}", rule), detail, case.clone());
}

/// regular fields of the input as per-name lists
fn regular_of(f: &[F]) -> std::collections::BTreeMap<String, Vec<Vec<u8>>> {
    let mut m: std::collections::BTreeMap<String, Vec<Vec<u8>>> = Default::default();
    for (n, v) in f {
        if !n.is_empty() && n[0] != b':' {
            m.entry(String::from_utf8_lossy(n).to_string()).or_default().push(v.clone());
        }
    }
    m
}

#[derive(Debug)]
enum Got {
    Rejected(String),
    Request { method: String, uri: String, protocol: Option<String>, headers: Fields },
    Response { status: u16, headers: Fields },
    Trailers(Fields),
}

fn direct(kind: MsgKind, fields: &[F]) -> Result<Got, crate::panics::PanicInfo> {
    let hf: Vec<HeaderField> = fields.iter().map(|(n, v)| HeaderField::new(n.clone(), v.clone())).collect();
    crate::panics::catch(|| match Header::try_from(hf) {
        Err(e) => Got::Rejected(format!("{:?}", e)),
        Ok(h) => match kind {
            MsgKind::Request => match h.into_request_parts() {
                Err(e) => Got::Rejected(format!("{:?}", e)),
                Ok((m, u, p, hm)) => Got::Request {
                    method: m.as_str().to_string(),
                    uri: u.to_string(),
                    protocol: p.map(|p| p.as_str().to_string()),
                    headers: apps::fields_of(&hm),
                },
            },
            MsgKind::Response => match h.into_response_parts() {
                Err(e) => Got::Rejected(format!("{:?}", e)),
                Ok((s, hm)) => Got::Response {
                    status: s.as_u16(),
                    headers: apps::fields_of(&hm),
                },
            },
            MsgKind::Trailers => Got::Trailers(apps::fields_of(&h.into_fields())),
        },
    })
}

/// Compare an accepted message's content with the input (only the parts the verdict lets us judge).
fn check_content(kind: MsgKind, fields: &[F], got: &Got, strict: bool, via: &str, rep: &mut Report, case: &serde_json::Value) {
    let first = |n: &[u8]| fields.iter().find(|(x, _)| x == n).map(|(_, v)| v.clone());
    let headers = match got {
        Got::Request { headers, .. } | Got::Response { headers, .. } | Got::Trailers(headers) => headers,
        Got::Rejected(_) => return,
    };
    // regular fields always have to come through unchanged
    let want = regular_of(fields);
    let have = msggen::per_name(headers);
    if want != have {
        viol(rep, &format!("{}-regular-fields-differ", via), format!("input {:?} delivered {:?}", want.keys().collect::<Vec<_>>(), have.keys().collect::<Vec<_>>()), case);
        return;
    }
    if !strict {
        return;
    }
    match got {
        Got::Request { method, uri, protocol, .. } => {
            if Some(method.as_bytes().to_vec()) != first(b":method") {
                viol(rep, &format!("{}-method-differs", via), format!("delivered {:?}", method), case);
            }
            let u: http::Uri = uri.parse().expect("h3 returned a Uri");
            let auth = first(b":authority").or_else(|| first(b"host"));
            if u.authority().map(|a| a.as_str().as_bytes().to_vec()) != auth {
                viol(rep, &format!("{}-authority-differs", via), format!("delivered uri {:?}", uri), case);
            }
            if let Some(p) = first(b":path") {
                let got_p = u.path_and_query().map(|p| p.as_str().as_bytes().to_vec()).unwrap_or_default();
                if got_p != p {
                    viol(rep, &format!("{}-path-differs", via), format!("delivered uri {:?} input path {}", uri, hex_short(&p, 24)), case);
                }
            }
            if let Some(s) = first(b":scheme") {
                if u.scheme_str().map(|x| x.as_bytes().to_vec()) != Some(s.clone()) {
                    viol(rep, &format!("{}-scheme-differs", via), format!("delivered uri {:?} input scheme {}", uri, hex_short(&s, 24)), case);
                }
            }
            if protocol.as_ref().map(|p| p.as_bytes().to_vec()) != first(b":protocol") {
                viol(rep, &format!("{}-protocol-differs", via), format!("delivered {:?}", protocol), case);
            }
        }
        Got::Response { status, .. } => {
            if Some(status.to_string().into_bytes()) != first(b":status") {
                viol(rep, &format!("{}-status-differs", via), format!("delivered {}", status), case);
            }
        }
        _ => {}
    }
    let _ = kind;
}

fn check_direct(kind: MsgKind, fields: &[F], rep: &mut Report) {
    rep.evaluations += 1;
    rep.count("direct_checked");
    let v = judge(kind, fields);
    count_verdict(&v, rep);
    let case = json!({"kind": format!("{:?}", kind), "fields": fields_json(fields), "reference": format!("{:?}", v), "via": "Header::try_from"});
    let got = match direct(kind, fields) {
        Ok(g) => g,
        Err(p) => {
            viol(rep, &format!("panic[{} {}]", p.file(), p.msg_key()), format!("{} at {}", p.msg, p.loc), &case);
            return;
        }
    };
    judge_outcome(kind, fields, &v, &got, "direct", rep, &case);
}

fn count_verdict(v: &Verdict, rep: &mut Report) {
    match v {
        Verdict::MustReject(r) => {
            rep.count("verdict[must_reject]");
            rep.count(&format!("reject_reason[{}]", r));
        }
        Verdict::MustAccept => rep.count("verdict[must_accept]"),
        Verdict::DontCare(_) => rep.count("verdict[dont_care]"),
    }
}

fn judge_outcome(kind: MsgKind, fields: &[F], v: &Verdict, got: &Got, via: &str, rep: &mut Report, case: &serde_json::Value) {
    match (v, got) {
        (Verdict::MustReject(why), Got::Rejected(_)) => {
            let _ = why;
        }
        (Verdict::MustReject(why), g) => viol(rep, &format!("{}-malformed-message-accepted[{}]", via, why), format!("{:?} list must be refused ({}) but was handed over: {}", kind, why, short_got(g)), case),
        (Verdict::MustAccept, Got::Rejected(e)) => viol(rep, &format!("{}-well-formed-message-refused", via), format!("{:?} list is well-formed but was refused: {}", kind, e), case),
        (Verdict::MustAccept, g) => check_content(kind, fields, g, true, via, rep, case),
        (Verdict::DontCare(_), g) => check_content(kind, fields, g, false, via, rep, case),
    }
}

fn short_got(g: &Got) -> String {
    let s = format!("{:?}", g);
    s.chars().take(200).collect()
}

// ---------------------------------------------------------------------------------------------
// end to end

fn check_e2e(kind: MsgKind, fields: &[F], h3_server: bool, seed: u64, rep: &mut Report) {
    let mut rng = Rng::new(seed);
    rep.evaluations += 1;
    rep.count("e2e_checked");
    let v = judge(kind, fields);
    count_verdict(&v, rep);
    let case = json!({"kind": format!("{:?}", kind), "fields": fields_json(fields), "reference": format!("{:?}", v), "via": if h3_server { "server API" } else { "client API" }});
    rep.sig(hash64(&("e2e", kind, fields, h3_server)));
    let section = rq::encode_section(&fields.to_vec(), &rq::EncOpts { huffman: rng.bool(), use_static_exact: rng.bool(), use_static_name: rng.bool(), never_index_bit: rng.bool() });
    let mut cfg = NetCfg::random(&mut rng);
    cfg.backpressure = false;
    let net = sim::new_net(cfg);
    let h3_side = if h3_server { SERVER } else { CLIENT };
    let raw_side = raw::other(h3_side);
    {
        let mut n = lock(&net);
        raw::mark_raw(&mut n, raw_side);
        raw::open_control(&mut n, raw_side, &[]);
    }
    let probe = Probe::new(&net);
    let mut sched = Sched::new(net.clone(), rng.next());
    let sp = sched.spawner.clone();
    let mut wire = Vec::new();
    let good_head = if h3_server { raw::simple_request_headers() } else { raw::simple_response_headers(200) };
    match kind {
        MsgKind::Request | MsgKind::Response => {
            wire.extend(raw::headers_frame(&section));
            wire.extend(raw::data_frame(b"body"));
        }
        MsgKind::Trailers => {
            wire.extend(raw::headers_frame(&good_head));
            wire.extend(raw::data_frame(b"body"));
            wire.extend(raw::headers_frame(&section));
        }
    }
    let actor;
    if h3_server {
        let id = {
            let mut n = lock(&net);
            n.raw_open(CLIENT, true)
        };
        actor = format!("s:req@{}", id);
        sched.add_script(vec![raw::step_write(CLIENT, id, wire), raw::step_fin(CLIENT, id)]);
        let sopts = ServerOpts {
            default_plan: RespPlan { resp: Msg { status: 200, ..Default::default() }, ..Default::default() },
            ..Default::default()
        };
        sched.spawn("s:conn", apps::server_main::<Bytes>(net.clone(), sopts, probe.clone(), sp));
    } else {
        actor = "c:req#0".to_string();
        sched.add_script(vec![raw::step_write(SERVER, 0, wire), raw::step_fin(SERVER, 0)]);
        let copts = ClientOpts {
            reqs: vec![ReqPlan { req: Msg { method: "GET".into(), uri: "https://example.com/".into(), ..Default::default() }, ..Default::default() }],
            ..Default::default()
        };
        sched.spawn("c:conn", apps::client_main::<Bytes>(net.clone(), copts, probe.clone(), sp));
    }
    if sched.run(1_000_000) == RunEnd::StepCap {
        rep.inconclusive("step cap");
        return;
    }
    if let Some((t, p)) = sched.first_panic() {
        viol(rep, &format!("panic[{} {}]", p.file(), p.msg_key()), format!("task {}: {} at {}", t, p.msg, p.loc), &case);
        return;
    }
    let evs = probe.events_of(&actor);
    let op = match kind {
        MsgKind::Request => "resolve_request",
        MsgKind::Response => "recv_response",
        MsgKind::Trailers => "recv_trailers",
    };
    let n = lock(&net);
    let close = n.closed.as_ref().filter(|c| c.by == h3_side && c.code != rf::H3_NO_ERROR).map(|c| c.code);
    let Some(ev) = evs.iter().find(|e| e.op == op) else {
        viol(rep, "e2e-call-did-not-return", format!("{} never returned (close: {:?})", op, close), &case);
        return;
    };
    let got = match &ev.out {
        Out::Request { method, uri, headers, protocol, .. } => Got::Request { method: method.clone(), uri: uri.clone(), protocol: protocol.clone(), headers: headers.clone() },
        Out::Response { status, headers } => Got::Response { status: *status, headers: headers.clone() },
        Out::Trailers(t) => Got::Trailers(t.clone()),
        Out::None if kind == MsgKind::Trailers => Got::Trailers(vec![]),
        Out::Err(AErr::Stream { code, reason }) => {
            if *code != rf::H3_MESSAGE_ERROR {
                viol(rep, "e2e-refused-with-wrong-code", format!("{} refused with stream error {:#x} ({}) instead of H3_MESSAGE_ERROR", op, code, reason), &case);
                return;
            }
            rep.count("e2e_rejected_with_H3_MESSAGE_ERROR");
            // "refused on that stream with H3_MESSAGE_ERROR": the refusal is what the peer sees. A
            // server aborts its response side with the code; a receiver of a malformed response /
            // trailers asks the peer to stop (explicitly, not by dropping the stream)
            if let Some(st) = n.streams.get(&0) {
                let out = st.pipe(h3_side);
                let inn = st.pipe(1 - h3_side);
                let explicit_stop = if inn.stop_implicit { None } else { inn.stop_sent };
                let ok = if h3_side == SERVER && kind == MsgKind::Request {
                    out.reset_sent == Some(rf::H3_MESSAGE_ERROR)
                } else {
                    matches!(explicit_stop, Some(c) if c == rf::H3_MESSAGE_ERROR || c == rf::H3_REQUEST_CANCELLED) || inn.fin_read || inn.reset_delivered
                };
                rep.count("e2e_refusal_wire_signal_checked");
                if !ok {
                    viol(rep, "e2e-refusal-not-signalled-on-the-stream", format!("{} reported H3_MESSAGE_ERROR but the stream was not aborted towards the peer (response side reset: {:?}, STOP_SENDING: {:?}, fin sent: {})", op, out.reset_sent.map(|c| format!("{:#x}", c)), explicit_stop.map(|c| format!("{:#x}", c)), out.fin_sent), &case);
                    return;
                }
            }
            Got::Rejected(format!("StreamError {:#x} {}", code, reason))
        }
        other => {
            viol(rep, "e2e-unexpected-outcome", format!("{} -> {:?} (close {:?})", op, other, close.map(|c| format!("{:#x}", c))), &case);
            return;
        }
    };
    if let Some(c) = close {
        viol(rep, "e2e-connection-error", format!("a malformed message closed the connection with {:#x}", c), &case);
        return;
    }
    if !matches!(got, Got::Rejected(_)) {
        rep.count("e2e_delivered");
    }
    judge_outcome(kind, fields, &v, &got, "e2e", rep, &case);
    if rep.want_sample() && fields.len() <= 5 {
        rep.sample(json!({"case": case, "outcome": short_got(&got)}));
    }
}

// ---------------------------------------------------------------------------------------------
// send side

fn check_sent_headers(msg: &Msg, is_request: bool, frames: &[Vec<rq::Field>], what: &str, rep: &mut Report, case: &serde_json::Value) {
    // frames[0] = message head, frames[1] = trailers (if any)
    let Some(head) = frames.first() else { return };
    rep.count("send_headers_frames_checked");
    let mut seen_regular = false;
    let mut pseudo: Vec<(Vec<u8>, Vec<u8>)> = Vec::new();
    for (n, v) in head {
        if n.first() == Some(&b':') {
            if seen_regular {
                viol(rep, "send-pseudo-after-regular", format!("{}: pseudo-field {} follows a regular field", what, String::from_utf8_lossy(n)), case);
                return;
            }
            if pseudo.iter().any(|(x, _)| x == n) {
                viol(rep, "send-pseudo-twice", format!("{}: pseudo-field {} sent twice", what, String::from_utf8_lossy(n)), case);
                return;
            }
            pseudo.push((n.clone(), v.clone()));
        } else {
            seen_regular = true;
        }
    }
    let get = |n: &[u8]| pseudo.iter().find(|(x, _)| x == n).map(|(_, v)| v.clone());
    if is_request {
        let uri: http::Uri = msg.uri.parse().unwrap();
        let tunnel = msg.method == "CONNECT" && msg.protocol.is_none();
        let mut want: Vec<(&[u8], Option<Vec<u8>>)> = vec![
            (b":method", Some(msg.method.as_bytes().to_vec())),
            (b":authority", uri.authority().map(|a| a.as_str().as_bytes().to_vec())),
            (b":protocol", msg.protocol.as_ref().map(|p| p.as_bytes().to_vec())),
            (b":status", None),
        ];
        if tunnel {
            want.push((b":scheme", None));
            want.push((b":path", None));
        } else {
            want.push((b":scheme", uri.scheme_str().map(|s| s.as_bytes().to_vec())));
            let pq = uri.path_and_query().map(|p| p.as_str().to_string()).unwrap_or_default();
            want.push((b":path", Some(if pq.is_empty() { b"/".to_vec() } else { pq.into_bytes() })));
        }
        for (n, w) in want {
            if n == b":scheme" && w.is_none() && !tunnel {
                // the caller's target names no scheme (origin-form, asterisk-form): there is no supplied
                // value to compare with; h3 fills in a scheme because RFC 9114 4.3.1 requires one
                rep.count("scheme_not_supplied_by_the_caller(h3's choice not judged)");
                continue;
            }
            if get(n) != w {
                viol(rep, &format!("send-pseudo-value-differs[{}]", String::from_utf8_lossy(n)), format!("{}: caller supplied {:?}, wire has {:?}", what, w.as_ref().map(|x| hex_short(x, 24)), get(n).map(|x| hex_short(&x, 24))), case);
            }
        }
    } else {
        if get(b":status") != Some(msg.status.to_string().into_bytes()) || pseudo.len() != 1 {
            viol(rep, "send-pseudo-value-differs[:status]", format!("{}: caller supplied {}, wire pseudo-fields {:?}", what, msg.status, pseudo.iter().map(|(n, v)| format!("{}={}", String::from_utf8_lossy(n), hex_short(v, 8))).collect::<Vec<_>>()), case);
        }
    }
    let wire_regular: Fields = head.iter().filter(|(n, _)| n.first() != Some(&b':')).map(|(n, v)| (String::from_utf8_lossy(n).to_string(), v.clone())).collect();
    if msggen::per_name(&wire_regular) != msggen::per_name(&msg.headers) {
        viol(rep, "send-regular-fields-differ", format!("{}: supplied {} fields, wire has {}", what, msg.headers.len(), wire_regular.len()), case);
    }
    if let (Some(t), Some(wt)) = (&msg.trailers, frames.get(1)) {
        if wt.iter().any(|(n, _)| n.first() == Some(&b':')) {
            viol(rep, "send-pseudo-in-trailers", format!("{}: trailers carry a pseudo-field", what), case);
        }
        let wtf: Fields = wt.iter().map(|(n, v)| (String::from_utf8_lossy(n).to_string(), v.clone())).collect();
        if msggen::per_name(&wtf) != msggen::per_name(t) {
            viol(rep, "send-trailer-fields-differ", format!("{}: supplied {} trailer fields, wire has {}", what, t.len(), wtf.len()), case);
        }
    }
}

fn check_send_side(seed: u64, rep: &mut Report) {
    let mut rng = Rng::new(seed);
    let o = GenOpts { max_body: 200, ..Default::default() };
    let c = c01::gen_case(&mut rng, &o, 2);
    let r = c01::run_exchange::<Bytes>(&c, 20_000_000);
    rep.evaluations += 1;
    let case = c01::describe(&c);
    if r.end == RunEnd::StepCap || r.panic.is_some() {
        rep.inconclusive("send-side exchange did not complete (C01's business)");
        return;
    }
    let evs = r.probe.events();
    let n = lock(&r.net);
    let accept_order: Vec<u64> = evs.iter().filter_map(|e| if let Out::Accepted(s) = e.out { Some(s) } else { None }).collect();
    let decode_all = |wire: &[u8]| -> Vec<Vec<rq::Field>> {
        let (frames, _) = rf::segment(wire);
        frames
            .iter()
            .filter(|f| f.ty == rf::T_HEADERS)
            .filter_map(|f| match rq::judge_stateless(&f.payload) {
                rq::Stateless::MustAccept(fl) | rq::Stateless::DontCare(fl, _) => Some(fl),
                _ => None,
            })
            .collect()
    };
    for (i, q) in c.reqs.iter().enumerate() {
        let cact = format!("c:req#{}", i);
        let Some(sid) = evs.iter().find_map(|e| if e.actor == cact { if let Out::Opened(s) = e.out { Some(s) } else { None } } else { None }) else { continue };
        let Some(s) = n.streams.get(&sid) else { continue };
        rep.sig(hash64(&("send", &q.req.uri, &q.req.method, q.req.headers.len())));
        check_sent_headers(&q.req, true, &decode_all(&s.pipe(CLIENT).sent), &format!("request on stream {}", sid), rep, &case);
        if let Some(pos) = accept_order.iter().position(|x| *x == sid) {
            let resp = &c.resps[pos.min(c.resps.len() - 1)];
            check_sent_headers(&resp.resp, false, &decode_all(&s.pipe(SERVER).sent), &format!("response on stream {}", sid), rep, &case);
        }
    }
}

/// Every form of request target the http crate lets a caller build - absolute, origin-form with a
/// Host field, asterisk-form, with and without path or query - is sent by the real client to a raw
/// server; the pseudo-header fields on the wire must carry the caller's values.
fn check_send_targets(seed: u64, rep: &mut Report) {
    use crate::sim::SimConn;
    let mut rng = Rng::new(seed);
    rep.evaluations += 1;
    let host = "h.example";
    let (method, uri, with_host): (&str, String, bool) = match rng.below(8) {
        0 => ("OPTIONS", "*".into(), true),
        1 => (*rng.pick(&["GET", "POST", "OPTIONS"]), format!("/origin/form{}", if rng.bool() { "?x=1" } else { "" }), true),
        2 => ("GET", format!("http://{}?a=b", host), rng.bool()),
        3 => (*rng.pick(&["GET", "OPTIONS", "HEAD"]), format!("https://{}", host), rng.bool()),
        4 => ("GET", format!("https://{}/?", host), false),
        5 => ("GET", format!("https://{}/a//b/../c;p=1?q=%20&r=*", host), false),
        6 => ("OPTIONS", format!("https://{}/*", host), false),
        _ => ("GET", format!("https://{}/{}", host, "seg/".repeat(1 + rng.usize(40))), rng.bool()),
    };
    let mut msg = Msg { method: method.into(), uri: uri.clone(), ..Default::default() };
    if with_host {
        msg.headers.push(("host".into(), host.as_bytes().to_vec()));
    }
    if rng.bool() {
        msg.headers.push(("x-a".into(), b"1".to_vec()));
    }
    let Ok(parsed) = uri.parse::<http::Uri>() else {
        rep.count("request_target_not_accepted_by_the_http_crate");
        return;
    };
    let form = if uri == "*" { "asterisk" } else if parsed.scheme().is_none() { "origin" } else if parsed.query().is_some() { "absolute with query" } else { "absolute" };
    rep.count(&format!("request_target_form[{}]", form));
    rep.sig(hash64(&("target", method, &uri, with_host, msg.headers.len())));
    let case = json!({"method": method, "uri": uri, "host_field": with_host});
    let mut cfg = NetCfg::random(&mut rng);
    cfg.backpressure = rng.chance(1, 3);
    let net = sim::new_net(cfg);
    {
        let mut n = lock(&net);
        raw::mark_raw(&mut n, SERVER);
        raw::open_control(&mut n, SERVER, &[]);
    }
    let probe = Probe::new(&net);
    let mut sched = Sched::new(net.clone(), rng.next());
    let sp = sched.spawner.clone();
    let (p, net2, m2) = (probe.clone(), net.clone(), msg.clone());
    sched.spawn("c:conn", async move {
        let r = p
            .call("c:conn", "build", h3::client::builder().send_grease(false).build::<_, _, Bytes>(SimConn::<Bytes>::new(&net2, CLIENT)), |r| match r {
                Ok(_) => Out::Ok,
                Err(e) => Out::ConnErr(apps::ConnErr::from_h3(e)),
            })
            .await;
        let Ok((mut conn, mut send)) = r else { return };
        let p2 = p.clone();
        sp.spawn("c:driver", async move {
            let _ = p2.call("c:driver", "wait_idle", std::future::poll_fn(|cx| conn.poll_close(cx)), |e| Out::ConnErr(apps::ConnErr::from_h3(e))).await;
            p2.park(conn);
        });
        let r = p
            .call("c:req", "send_request", send.send_request(m2.to_request()), |r| match r {
                Ok(s) => Out::Opened(s.id().into_inner()),
                Err(e) => Out::Err(AErr::from_h3(e)),
            })
            .await;
        p.park(r.ok());
        p.park(send);
    });
    if sched.run(2_000_000) == RunEnd::StepCap {
        rep.inconclusive("step cap (send_side_request_targets)");
        return;
    }
    if let Some((t, pn)) = sched.first_panic() {
        viol(rep, &format!("send-panics[{} {}]", pn.file(), pn.msg_key()), format!("task {}: {} at {}", t, pn.msg, pn.loc), &case);
        return;
    }
    let evs = probe.events();
    let sent = evs.iter().find(|e| e.actor == "c:req" && e.op == "send_request").map(|e| e.out.clone());
    if !matches!(sent, Some(Out::Opened(_))) {
        // h3 may refuse a target it cannot express (no authority at all, ...): nothing went out
        rep.count(&format!("request_target_refused_by_send_request[{}]", form));
        return;
    }
    let n = lock(&net);
    let wire: Vec<u8> = n.streams.get(&0).map(|st| st.pipe(CLIENT).sent.clone()).unwrap_or_default();
    let (frames, _) = rf::segment(&wire);
    let decoded: Vec<Vec<rq::Field>> = frames
        .iter()
        .filter(|f| f.ty == rf::T_HEADERS)
        .filter_map(|f| match rq::judge_stateless(&f.payload) {
            rq::Stateless::MustAccept(fl) | rq::Stateless::DontCare(fl, _) => Some(fl),
            _ => None,
        })
        .collect();
    rep.count("request_targets_checked_on_the_wire");
    check_sent_headers(&msg, true, &decoded, "request on stream 0", rep, &case);
}

fn run_case(gen: &str, _index: u64, seed: u64, _tier: Tier, rep: &mut Report) {
    let mut rng = Rng::new(seed);
    match gen {
        "direct_lists" => {
            for _ in 0..50 {
                let kind = *rng.pick(&[MsgKind::Request, MsgKind::Request, MsgKind::Response, MsgKind::Trailers]);
                let f = gen_list(kind, &mut rng);
                rep.sig(hash64(&("direct", kind, &f)));
                check_direct(kind, &f, rep);
            }
        }
        "end_to_end_lists" => {
            let kind = *rng.pick(&[MsgKind::Request, MsgKind::Response, MsgKind::Trailers]);
            let f = gen_list(kind, &mut rng);
            let h3_server = match kind {
                MsgKind::Request => true,
                MsgKind::Response => false,
                MsgKind::Trailers => rng.bool(),
            };
            check_e2e(kind, &f, h3_server, rng.next(), rep);
        }
        "send_side_messages" => check_send_side(rng.next(), rep),
        "send_side_request_targets" => check_send_targets(rng.next(), rep),
        _ => {}
    }
}
