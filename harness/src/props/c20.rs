//! C20 — stateful QPACK encoder and decoder stay in agreement (RFC 9204 with the dynamic table).
//!
//! History checker: h3's `Encoder` and `Decoder` (cfg-guarded hook `h3::qpack::verif_stateful`)
//! are connected through two in-order byte streams whose delivery the PRNG schedules; an
//! independent RFC 9204 model (refimpl/qpack_dyn.rs) follows both ends and judges every step.

use crate::refimpl::qpack::{section_size, Field};
use crate::refimpl::qpack_dyn::{
    self as rd, DecInstr, DecStreamReader, DynTable, EncStreamReader, InstrKind, RLine,
    SectionOutcome,
};
use crate::report::Report;
use crate::util::{hash64, hex_short, Rng};
use crate::{panics, Gen, PropDef, Tier};
use h3::qpack::verif_stateful::{ack_header, stream_canceled, Decoder, DynamicTable, Encoder};
use h3::qpack::{DecoderError, HeaderField};
use serde_json::json;
use std::collections::{BTreeMap, BTreeSet, VecDeque};

pub fn def() -> PropDef {
    PropDef {
        id: "C20",
        rule: "histories of 1..40 field sections over a 4-name x 4-value alphabet plus static-table \
               names/values (repeats inside a section force Duplicate), table capacity in {0; 1,16,31,32 \
               (no entry fits); 33..63 (one entry); 64; 80; 100; 127; 150; 256; 4096}, blocked-streams limit in \
               {0,1,2,100}, both h3 tables configured with the same capacity (no in-band capacity \
               instruction), distinct stream ids with occasional header+trailer pairs (plus a directed generator with 30..40 repeat-heavy sections whose instructions arrive in one burst, and three hand-written minimal histories); schedules from \
               the PRNG: encoder-stream bytes delivered in order in arbitrary slices (cuts inside \
               instructions) and arbitrarily late, blocks decoded in any order (same stream: in order) \
               and retried, decoder-stream bytes (Insert Count Increments from on_encoder_recv, \
               ack_header after each decoded section with non-zero Required Insert Count, occasional \
               stream_canceled) delivered to the encoder late, sliced or never. After every step: \
               (1) h3 decode == input list once the encoder-stream prefix the section depends on was \
               delivered, MissingRefs and nothing else before; (2) reference decoder on the same bytes \
               agrees (blocked / fields), both consume the same instruction prefix and hold the same \
               table; (3) reference size <= capacity, h3 curr_size <= max_size on both sides, h3 \
               encoder table == reference applied to the emitted instructions; (4) no entry evicted \
               while an unacknowledged section references it or (RFC 9204 2.1.1) before its insertion \
               was acknowledged, references only to live entries, Required Insert Count = largest \
               reference + 1; encoder keeps streams at risk of blocking (unacknowledged section with \
               RIC > Known Received Count) <= limit (RFC 9204 2.1.2); no panic, no error on either \
               stream. Non-trivial = distinct (configuration, workload, schedule) by hash.",
        assumptions: || {
            vec![
                "reference RFC 9204 dynamic-table model (refimpl/qpack_dyn.rs, written from the RFC; shares no code with h3), its static table and octets' Huffman decoder are correct".into(),
                "both tables are configured out of band with the same capacity, which is also the maximum capacity MaxEntries derives from (as /repo/h3/src/qpack/tests.rs does); Set Dynamic Table Capacity is parsed by the reference but never generated".into(),
                "a Section Acknowledgment is emitted only for sections whose Required Insert Count is non-zero (RFC 9204 4.4.1); sections on one stream are decoded in stream order; a stream is cancelled only after all its sections were encoded and is not decoded afterwards".into(),
                "Known Received Count at the encoder = Insert Count Increments delivered + max RIC of delivered Section Acknowledgments (RFC 9204 2.1.4), counting complete instructions only".into(),
                "the decoder stream is one ordered byte stream: acknowledgements are delayed, sliced or withheld from some point on, never reordered".into(),
            ]
        },
        gens,
        run_case,
        finish,
    }
}

const GENS: [(&str, u64, u64, u64); 7] = [
    // name, lite, quick, thorough
    ("cap_0", 3, 1_000, 100_000),
    ("cap_sub_entry", 2, 600, 60_000),
    ("cap_one_entry", 5, 6_000, 600_000),
    ("cap_64_100", 4, 5_000, 500_000),
    ("cap_256", 3, 4_000, 400_000),
    ("cap_4096", 3, 3_000, 300_000),
    // directed: many Duplicate/Insert instructions in flight, delivered in one burst
    ("cap_4096_insert_burst", 1, 400, 40_000),
];

fn gens(tier: Tier) -> Vec<Gen> {
    let mut v: Vec<Gen> = GENS.iter().map(|(n, l, q, t)| Gen::new(n, tier.pick(*l, *q, *t))).collect();
    v.push(Gen::exhaustive("directed_minimal", 3));
    v
}

fn finish(tier: Tier, rep: &mut Report) {
    // far below what the workloads normally reach (quick: 100x .. 1000x above these)
    let floors: &[(&str, u64)] = match tier {
        Tier::Lite => &[
            ("sections_encoded", 20),
            ("decode_ok", 10),
            ("sections_with_dynamic_refs", 2),
            ("enc_instr[insert-literal-name]", 1),
        ],
        _ => &[
            ("histories", 5_000),
            ("sections_encoded", 50_000),
            ("decode_ok", 30_000),
            ("sections_with_dynamic_refs", 5_000),
            ("decode_blocked", 1_000),
            ("decoded_after_being_blocked", 500),
            ("evictions[encoder_model]", 1_000),
            ("evictions[decoder_reference]", 500),
            ("enc_instr[insert-literal-name]", 500),
            ("enc_instr[insert-static-name-ref]", 500),
            ("enc_instr[insert-dynamic-name-ref]", 200),
            ("enc_instr[duplicate]", 200),
            ("acks_delivered", 2_000),
            ("increments_delivered", 2_000),
            ("acks_withheld", 200),
            ("cancels_emitted", 50),
            ("sections_with_sign_bit", 100),
            ("line[dynamic-relative]", 1_000),
            ("line[dynamic-post-base]", 1_000),
            ("line[dynamic-name-relative]", 100),
            ("enc_deliveries_cutting_an_instruction", 500),
            ("table_compared[decoder]", 10_000),
            ("table_compared[encoder]", 10_000),
        ],
    };
    for (k, floor) in floors {
        if rep.get(k) < *floor {
            rep.inconclusive(format!("{} = {} below floor {}", k, rep.get(k), floor));
        }
    }
}

// ---------------------------------------------------------------------------------------------
// workload

const DYN_NAMES: [&str; 4] = ["k", "x-a", "x-bb", "x-custom-name"];
const STATIC_NAMES: [&str; 4] = ["age", ":path", "cookie", "content-type"];
const SHORT_VALUES: [&str; 4] = ["", "1", "v2", "a-longer-value-0123456789"];
const STATIC_EXACT: [(&str, &str); 4] = [
    (":method", "GET"),
    (":path", "/"),
    ("age", "0"),
    (":status", "200"),
];

fn long_values() -> [Vec<u8>; 4] {
    [
        vec![b'z'; 90],
        b"ab".iter().cycle().take(130).cloned().collect(),
        b"0123456789".iter().cycle().take(200).cloned().collect(),
        b"value-".iter().cycle().take(260).cloned().collect(),
    ]
}

#[derive(Clone, Debug)]
struct Config {
    cap: u64,
    limit: u64,
    style: u8,
    long_values: bool,
    repeat_pct: u64,
    withhold_acks_after: Option<u64>,
    min_sections: usize,
    min_fields: usize,
}

const STYLES: [&str; 7] = [
    "lockstep",
    "balanced",
    "late-encoder-stream",
    "late-acks",
    "encode-all-first",
    "bursty",
    "encode-all-first-then-burst",
];

/// weights for [encode, deliver encoder bytes, decode, deliver decoder bytes]
fn weights(style: u8, all_encoded: bool) -> [u64; 4] {
    match style {
        1 => [3, 3, 3, 3],
        2 => [6, 1, 3, 2],
        3 => [3, 3, 3, 1],
        4 | 6 => {
            if all_encoded {
                [0, 3, 3, 2]
            } else {
                [8, 0, 2, 0]
            }
        }
        _ => [2, 2, 4, 2],
    }
}

struct Sec {
    stream: u64,
    fields: Vec<Field>,
    emitted: bool,
    block: Vec<u8>,
    ric: u64,
    refs: BTreeSet<u64>,
    /// encoder-stream offset after the instruction that makes the insert count reach `ric`
    dep_offset: u64,
    decoded: bool,
    abandoned: bool,
    attempts: u32,
    was_blocked: bool,
    /// the encoder has been told (Section Acknowledgment / Stream Cancellation delivered)
    released: bool,
}

fn gen_fields(rng: &mut Rng, cfg: &Config, longs: &[Vec<u8>; 4]) -> Vec<Field> {
    let k = match rng.below(10) {
        0 => 0,
        1 | 2 => 1,
        _ => 1 + rng.usize(6),
    }
    .max(cfg.min_fields);
    let mut out: Vec<Field> = Vec::with_capacity(k);
    let value = |rng: &mut Rng| -> Vec<u8> {
        let i = rng.usize(4);
        if cfg.long_values {
            longs[i].clone()
        } else {
            SHORT_VALUES[i].as_bytes().to_vec()
        }
    };
    for _ in 0..k {
        let r = rng.below(100);
        if !out.is_empty() && r < cfg.repeat_pct {
            let f = out[rng.usize(out.len())].clone();
            out.push(f);
        } else if r < 65 {
            let n = DYN_NAMES[rng.usize(4)].as_bytes().to_vec();
            let v = value(rng);
            out.push((n, v));
        } else if r < 90 {
            let n = STATIC_NAMES[rng.usize(4)].as_bytes().to_vec();
            let v = value(rng);
            out.push((n, v));
        } else {
            let (n, v) = STATIC_EXACT[rng.usize(4)];
            out.push((n.as_bytes().to_vec(), v.as_bytes().to_vec()));
        }
    }
    out
}

fn gen_config(gen: &str, rng: &mut Rng) -> Config {
    if gen == "cap_4096_insert_burst" {
        return Config {
            cap: 4096,
            limit: 100,
            style: 6,
            long_values: false,
            repeat_pct: 75,
            withhold_acks_after: None,
            min_sections: 30,
            min_fields: 4,
        };
    }
    let cap = match gen {
        "cap_0" => 0,
        "cap_sub_entry" => *rng.pick(&[1u64, 16, 31, 32]),
        // capacities that are not multiples of 32 (and of 16): MaxEntries is floor(capacity / 32)
        // on both sides, whatever is left over
        "cap_one_entry" => {
            if rng.bool() {
                rng.range(33, 40)
            } else {
                rng.range(41, 63)
            }
        }
        "cap_64_100" => *rng.pick(&[64u64, 80, 100, 127, 150]),
        "cap_256" => 256,
        _ => 4096,
    };
    let limit = *rng.pick(&[0u64, 1, 1, 2, 2, 100, 100, 100]);
    let style = rng.below(STYLES.len() as u64) as u8;
    let long_values = match cap {
        4096 => rng.chance(1, 2),
        256 => rng.chance(1, 5),
        _ => false,
    };
    // repeats inside a section force Duplicate instructions (many insertions per section)
    let repeat_pct = *rng.pick(&[10u64, 10, 10, 10, 10, 50, 50, 75]);
    let withhold_acks_after = match rng.below(6) {
        0 => Some(0),
        1 => Some(rng.below(60)),
        _ => None,
    };
    Config {
        cap,
        limit,
        style,
        long_values,
        repeat_pct,
        withhold_acks_after,
        min_sections: 1,
        min_fields: 0,
    }
}

fn gen_plan(rng: &mut Rng, cfg: &Config) -> Vec<Sec> {
    let n = cfg.min_sections + rng.usize(41 - cfg.min_sections);
    let longs = long_values();
    let id_base = *rng.pick(&[0u64, 0, 15, 40, 5000]);
    let mut secs: Vec<Sec> = Vec::with_capacity(n);
    let mut next_stream = 0u64;
    let mut last_single: Option<u64> = None;
    for _ in 0..n {
        let stream = match last_single {
            Some(s) if rng.chance(1, 4) => {
                last_single = None;
                s
            }
            _ => {
                let s = 4 * (id_base + next_stream);
                next_stream += 1;
                last_single = Some(s);
                s
            }
        };
        secs.push(Sec {
            stream,
            fields: gen_fields(rng, cfg, &longs),
            emitted: false,
            block: Vec::new(),
            ric: 0,
            refs: BTreeSet::new(),
            dep_offset: 0,
            decoded: false,
            abandoned: false,
            attempts: 0,
            was_blocked: false,
            released: false,
        });
    }
    secs
}

// ---------------------------------------------------------------------------------------------
// the connected pair + model

#[derive(Clone, Debug)]
enum Step {
    Encode(usize),
    DeliverEnc(usize),
    Decode(usize, &'static str),
    DeliverDec(usize),
    Cancel(u64),
    Flush,
}

impl Step {
    fn show(&self) -> String {
        match self {
            Step::Encode(i) => format!("E{}", i),
            Step::DeliverEnc(n) => format!("enc+{}", n),
            Step::Decode(i, o) => format!("D{}:{}", i, o),
            Step::DeliverDec(n) => format!("dec+{}", n),
            Step::Cancel(s) => format!("X{}", s),
            Step::Flush => "flush".into(),
        }
    }
}

/// stable key for signatures: digits collapsed, bounded length
fn key(s: &str) -> String {
    let mut out = String::new();
    let mut last_hash = false;
    for c in s.chars() {
        if c.is_ascii_digit() {
            if !last_hash {
                out.push('#');
            }
            last_hash = true;
        } else {
            out.push(c);
            last_hash = false;
        }
    }
    out.chars().take(70).collect()
}

fn show_field(f: &Field) -> String {
    let s = |b: &[u8]| {
        if b.len() > 12 {
            format!("{}..({}B)", String::from_utf8_lossy(&b[..8]), b.len())
        } else {
            String::from_utf8_lossy(b).to_string()
        }
    };
    format!("{}={}", s(&f.0), s(&f.1))
}

fn show_fields(fs: &[Field]) -> String {
    fs.iter().map(show_field).collect::<Vec<_>>().join(", ")
}

struct World {
    cfg: Config,
    secs: Vec<Sec>,
    /// stream id -> its sections in emission order
    streams: BTreeMap<u64, Vec<usize>>,
    next: usize,
    enc: Encoder,
    dec: Decoder,
    // encoder side model: the table the emitted instructions describe
    enc_model: DynTable,
    enc_model_rd: EncStreamReader,
    /// insert_offsets[k] = encoder-stream offset at which the insert count reaches k
    insert_offsets: Vec<u64>,
    enc_pending: VecDeque<u8>,
    enc_delivered: u64,
    // decoder side
    dec_inbuf: Vec<u8>,
    h3_dec_consumed: u64,
    dec_ref: DynTable,
    dec_ref_rd: EncStreamReader,
    /// inserts the decoder has announced with Insert Count Increments so far
    announced: u64,
    emitted_dec_rd: DecStreamReader,
    dec_pending: VecDeque<u8>,
    dec_emitted_total: u64,
    // encoder's view of the decoder stream
    enc_inbuf: Vec<u8>,
    h3_enc_consumed: u64,
    ack_rd: DecStreamReader,
    krc: u64,
    /// per stream: sections with RIC > 0 the encoder has not been told about yet
    outstanding: BTreeMap<u64, VecDeque<usize>>,
    cancelled: BTreeSet<u64>,
    acks_emitted: u64,
    acks_delivered: u64,
    trace: Vec<Step>,
    dead: bool,
    limit_reported: bool,
    /// an RFC-level precondition of the statement was broken earlier in this history (recorded, not
    /// judged by itself): statement-level symptoms that follow are reported under this root cause
    root_mark: Option<String>,
    gen: String,
}

fn table(cap: u64, limit: u64) -> Option<DynamicTable> {
    let mut t = DynamicTable::new();
    t.set_max_size(cap as usize).ok()?;
    t.set_max_blocked(limit as usize).ok()?;
    Some(t)
}

impl World {
    fn new(gen: &str, cfg: Config, secs: Vec<Sec>) -> Option<World> {
        let mut streams: BTreeMap<u64, Vec<usize>> = BTreeMap::new();
        for (i, s) in secs.iter().enumerate() {
            streams.entry(s.stream).or_default().push(i);
        }
        Some(World {
            enc: Encoder::verif_with_table(table(cfg.cap, cfg.limit)?),
            dec: Decoder::verif_with_table(table(cfg.cap, cfg.limit)?),
            enc_model: DynTable::new(cfg.cap, cfg.cap),
            enc_model_rd: EncStreamReader::new(),
            insert_offsets: vec![0],
            enc_pending: VecDeque::new(),
            enc_delivered: 0,
            dec_inbuf: Vec::new(),
            h3_dec_consumed: 0,
            dec_ref: DynTable::new(cfg.cap, cfg.cap),
            dec_ref_rd: EncStreamReader::new(),
            announced: 0,
            emitted_dec_rd: DecStreamReader::new(),
            dec_pending: VecDeque::new(),
            dec_emitted_total: 0,
            enc_inbuf: Vec::new(),
            h3_enc_consumed: 0,
            ack_rd: DecStreamReader::new(),
            krc: 0,
            outstanding: BTreeMap::new(),
            cancelled: BTreeSet::new(),
            acks_emitted: 0,
            acks_delivered: 0,
            trace: Vec::new(),
            dead: false,
            limit_reported: false,
            root_mark: None,
            gen: gen.to_string(),
            cfg,
            secs,
            streams,
            next: 0,
        })
    }

    fn case_json(&self) -> serde_json::Value {
        json!({
            "gen": self.gen,
            "capacity": self.cfg.cap,
            "blocked_limit": self.cfg.limit,
            "style": STYLES[self.cfg.style as usize],
            "long_values": self.cfg.long_values,
            "sections": self.secs.iter().enumerate().take(self.next.max(1)).map(|(i, s)| {
                format!("#{} stream {} [{}]{}", i, s.stream, show_fields(&s.fields),
                    if s.emitted { format!(" block {} ric {} refs {:?}", hex_short(&s.block, 24), s.ric, s.refs) } else { String::new() })
            }).collect::<Vec<_>>(),
            "trace": self.trace.iter().map(|s| s.show()).collect::<Vec<_>>().join(" "),
        })
    }

    fn viol(&mut self, rep: &mut Report, rule: &str, detail: String, fatal: bool) {
        let detail = format!(
            "{} [cap {} limit {} after {} steps]",
            detail,
            self.cfg.cap,
            self.cfg.limit,
            self.trace.len()
        );
        // one signature per root cause: symptoms that follow a recorded RFC-level breach are
        // reported under it, with the symptom in the detail
        let (rule, detail) = match &self.root_mark {
            Some(m) => (format!("statement-violated-after[{}]", m), format!("{}: {}", rule, detail)),
            None => (rule.to_string(), detail),
        };
        rep.violation(format!("C20/{}", rule), detail, self.case_json());
        if fatal {
            self.dead = true;
        }
    }

    fn panic_viol(&mut self, rep: &mut Report, call: &str, p: panics::PanicInfo) {
        if p.in_repo() {
            self.viol(
                rep,
                &format!("panic[{}:{}:{}]", call, p.file(), p.msg_key()),
                format!("{} panicked: {} at {}", call, p.msg, p.loc),
                true,
            );
        } else {
            rep.inconclusive(format!("harness panic in {}: {} at {}", call, p.msg, p.loc));
            self.dead = true;
        }
    }

    /// (3) capacity invariants on both h3 tables
    fn check_sizes(&mut self, rep: &mut Report) {
        rep.evaluations += 1;
        let (ec, em) = {
            let t = self.enc.verif_table();
            (t.verif_curr_size(), t.verif_max_size())
        };
        let (dc, dm) = {
            let t = self.dec.verif_table();
            (t.verif_curr_size(), t.verif_max_size())
        };
        if ec > em || em as u64 != self.cfg.cap {
            self.viol(rep, "table-over-capacity[encoder]", format!("encoder table size {} capacity {} (configured {})", ec, em, self.cfg.cap), true);
        } else if dc > dm || dm as u64 != self.cfg.cap {
            self.viol(rep, "table-over-capacity[decoder]", format!("decoder table size {} capacity {} (configured {})", dc, dm, self.cfg.cap), true);
        }
        if self.cfg.cap > 0 {
            rep.max("max:table_fill_pct[encoder]", ec as u64 * 100 / self.cfg.cap);
            rep.max("max:table_fill_pct[decoder]", dc as u64 * 100 / self.cfg.cap);
        }
    }

    // ------------------------------------------------------------------ encode one section
    fn do_encode(&mut self, rep: &mut Report) {
        let i = self.next;
        self.next += 1;
        self.trace.push(Step::Encode(i));
        let fields: Vec<HeaderField> = self.secs[i]
            .fields
            .iter()
            .map(|(n, v)| HeaderField::new(n.clone(), v.clone()))
            .collect();
        let stream = self.secs[i].stream;
        let mut block: Vec<u8> = Vec::new();
        let mut ebuf: Vec<u8> = Vec::new();
        rep.evaluations += 1;
        rep.count("sections_encoded");
        let r = {
            let enc = &mut self.enc;
            panics::catch(|| enc.encode(stream, &mut block, &mut ebuf, &fields))
        };
        let ric_ret = match r {
            Err(p) => return self.panic_viol(rep, "encode", p),
            Ok(Err(e)) => {
                return self.viol(rep, &format!("encode-fails[{}]", key(&format!("{:?}", e))), format!("encode of section #{} [{}] failed: {:?}", i, show_fields(&self.secs[i].fields), e), true)
            }
            Ok(Ok(r)) => r as u64,
        };

        // the instructions this call put on the encoder stream, applied to the encoder-side model
        let krc = self.krc;
        let mut applied: Vec<(rd::Applied, u64, u64)> = Vec::new();
        let fed = self.enc_model_rd.feed(&ebuf, &mut self.enc_model, |t, _ins, a, off| {
            applied.push((a.clone(), off, t.size()));
        });
        for (a, off, size) in &applied {
            rep.count(&format!("enc_instr[{}]", a.kind.name()));
            if a.inserted.is_some() {
                self.insert_offsets.push(*off);
            }
            if *size > self.cfg.cap {
                return self.viol(rep, "reference-table-over-capacity", format!("reference size {} after {:?}", size, a.kind), true);
            }
            for ev in &a.evicted {
                rep.count("evictions[encoder_model]");
                rep.evaluations += 1;
                // (4) an entry referenced by a section the encoder has no acknowledgement for
                let holder = self
                    .secs
                    .iter()
                    .position(|s| s.emitted && !s.released && s.refs.contains(ev));
                if let Some(j) = holder {
                    let cancelled = self.secs[j].abandoned;
                    return self.viol(
                        rep,
                        "evicted-while-referenced",
                        format!(
                            "encoding section #{} evicted absolute index {} ({:?}) which section #{} (stream {}, RIC {}, {}) still references: no acknowledgement or cancellation for it has reached the encoder",
                            i, ev, a.kind, j, self.secs[j].stream, self.secs[j].ric,
                            if cancelled { "cancelled at the decoder, cancellation not delivered" } else if self.secs[j].decoded { "decoded, ack not delivered" } else { "not yet decoded" }
                        ),
                        true,
                    );
                }
                // RFC 9204 2.1.1: not evictable until its insertion has been acknowledged
                if *ev >= krc {
                    let by_cancel = self.secs.iter().any(|s| s.emitted && s.released && s.abandoned && s.refs.contains(ev));
                    // RFC 9204 §2.1.1 goes beyond the property statement (the entry is not referenced by
                    // an unacknowledged section any more): recorded, not judged. What the statement
                    // forbids are its consequences (a section reported with an error other than
                    // "blocked", a mis-decode, a panic), which the other oracles catch.
                    rep.count("rfc_2_1_1_eviction_before_insertion_acknowledged (observed, not judged)");
                    if self.root_mark.is_none() {
                        self.root_mark = Some(format!("evicted-before-insertion-acknowledged:{}", if by_cancel { "after-stream-cancel" } else { "other" }));
                    }
                }
            }
        }
        if let Err(e) = fed {
            return self.viol(rep, &format!("encoder-stream-invalid[{}]", key(&e)), format!("instructions emitted for section #{}: {} (bytes {})", i, e, hex_short(&ebuf, 48)), true);
        }
        if self.enc_model_rd.queued() > 0 {
            return self.viol(rep, "encoder-stream-ends-inside-instruction", format!("encode of section #{} left {} bytes of an incomplete instruction: {}", i, self.enc_model_rd.queued(), hex_short(&ebuf, 48)), true);
        }
        self.enc_pending.extend(ebuf.iter());

        // (3) h3's encoder table == what its instructions describe
        rep.count("table_compared[encoder]");
        rep.evaluations += 1;
        {
            let t = self.enc.verif_table();
            let ents = t.verif_entries();
            let tot = t.verif_total_inserted() as u64;
            let cur = t.verif_curr_size() as u64;
            if tot != self.enc_model.insert_count() {
                return self.viol(rep, "encoder-table-differs-from-its-instructions[insert-count]", format!("after section #{}: h3 encoder inserted {} entries, its instruction stream {}", i, tot, self.enc_model.insert_count()), true);
            }
            if ents.len() != self.enc_model.len() || !ents.iter().zip(self.enc_model.entries_iter()).all(|(a, b)| a == b) {
                return self.viol(rep, "encoder-table-differs-from-its-instructions[entries]", format!("after section #{}: h3 encoder table [{}] but its instruction stream gives [{}]", i, show_fields(&ents), show_fields(&self.enc_model.entries())), true);
            }
            if cur != self.enc_model.size() {
                return self.viol(rep, "encoder-table-differs-from-its-instructions[size]", format!("after section #{}: h3 curr_size {} reference {}", i, cur, self.enc_model.size()), true);
            }
        }
        self.check_sizes(rep);
        if self.dead {
            return;
        }

        // the block: index arithmetic against the encoder-side model
        rep.evaluations += 1;
        let info = match rd::resolve_section(&block, self.cfg.cap, self.enc_model.insert_count()) {
            Ok(x) => x,
            Err(e) => {
                return self.viol(rep, &format!("block-invalid[{}]", key(&e)), format!("section #{} block {}: {}", i, hex_short(&block, 48), e), true)
            }
        };
        for r in &info.refs {
            if *r >= self.enc_model.insert_count() {
                return self.viol(rep, "section-references-dead-entry[not-yet-inserted]", format!("section #{} references absolute index {} but only {} entries were ever inserted", i, r, self.enc_model.insert_count()), true);
            }
            if *r < self.enc_model.first_live() {
                return self.viol(rep, "section-references-dead-entry[evicted]", format!("section #{} references absolute index {} but the oldest live entry is {}", i, r, self.enc_model.first_live()), true);
            }
        }
        if info.ric != info.minimal_ric() {
            let w = if info.ric > info.minimal_ric() { "larger" } else { "smaller" };
            return self.viol(rep, &format!("ric-not-minimal[{}]", w), format!("section #{} declares Required Insert Count {} but its largest reference needs {} (RFC 9204 2.1.2)", i, info.ric, info.minimal_ric()), true);
        }
        if ric_ret != info.ric {
            return self.viol(rep, "encode-returns-other-ric", format!("encode() returned {} for section #{} but the block says {}", ric_ret, i, info.ric), true);
        }
        if info.ric > 0 {
            rep.count("sections_with_dynamic_refs");
        } else {
            rep.count("sections_without_dynamic_refs");
        }
        if info.sign {
            rep.count("sections_with_sign_bit");
        }
        for l in &info.lines {
            rep.count(match l {
                RLine::Static(_) => "line[static]",
                RLine::StaticName { .. } => "line[static-name]",
                RLine::Literal { .. } => "line[literal]",
                RLine::Dyn { post_base: false, .. } => "line[dynamic-relative]",
                RLine::Dyn { post_base: true, .. } => "line[dynamic-post-base]",
                RLine::DynName { post_base: false, .. } => "line[dynamic-name-relative]",
                RLine::DynName { post_base: true, .. } => "line[dynamic-name-post-base]",
            });
        }
        let dep = self.insert_offsets[info.ric as usize];
        let s = &mut self.secs[i];
        s.emitted = true;
        s.block = block;
        s.ric = info.ric;
        s.refs = info.refs;
        s.dep_offset = dep;
        if s.ric > 0 {
            self.outstanding.entry(stream).or_default().push_back(i);
        }

        // RFC 9204 2.1.2: streams that could become blocked, as far as the encoder can know
        rep.evaluations += 1;
        let at_risk: BTreeSet<u64> = self
            .secs
            .iter()
            .filter(|s| s.emitted && !s.released && s.ric > self.krc)
            .map(|s| s.stream)
            .collect();
        rep.max("max:streams_at_risk_of_blocking", at_risk.len() as u64);
        if at_risk.len() as u64 > self.cfg.limit {
            rep.count("blocked_limit_exceeded_events");
            if !self.limit_reported {
                self.limit_reported = true;
                let really: usize = {
                    let ic = self.dec_ref.insert_count();
                    let set: BTreeSet<u64> = self.secs.iter().filter(|s| s.emitted && !s.decoded && !s.abandoned && s.ric > ic).map(|s| s.stream).collect();
                    set.len()
                };
                let inserted_here = applied.iter().any(|(a, _, _)| a.inserted.is_some());
                // RFC 9204 §2.1.2 is not part of the property statement: recorded, not judged
                let _ = (really, inserted_here, stream);
                rep.count("rfc_2_1_2_blocked_streams_limit_exceeded_histories (observed, not judged)");
            }
        }
    }

    // ------------------------------------------------------------------ encoder stream -> decoder
    fn do_deliver_enc(&mut self, n: usize, rep: &mut Report) {
        let n = n.min(self.enc_pending.len());
        if n == 0 {
            return;
        }
        self.trace.push(Step::DeliverEnc(n));
        let chunk: Vec<u8> = self.enc_pending.drain(..n).collect();
        self.enc_delivered += n as u64;
        self.dec_inbuf.extend_from_slice(&chunk);
        rep.evaluations += 1;
        rep.count("enc_deliveries");
        let mut out: Vec<u8> = Vec::new();
        let before = self.dec_inbuf.len();
        let r = {
            let dec = &mut self.dec;
            let inbuf = &self.dec_inbuf;
            let out = &mut out;
            panics::catch(move || {
                let mut rdr = &inbuf[..];
                let r = dec.on_encoder_recv(&mut rdr, out);
                (r, rdr.len())
            })
        };
        let (res, remaining) = match r {
            Err(p) => return self.panic_viol(rep, "on_encoder_recv", p),
            Ok(x) => x,
        };
        let total = match res {
            Err(e) => {
                return self.viol(rep, &format!("decoder-rejects-encoder-stream[{}]", key(&format!("{:?}", e))), format!("on_encoder_recv failed with {:?} on bytes {} produced by h3's encoder", e, hex_short(&self.dec_inbuf, 48)), true)
            }
            Ok(t) => t as u64,
        };
        let consumed = before - remaining;
        self.dec_inbuf.drain(..consumed);
        self.h3_dec_consumed += consumed as u64;
        if remaining > 0 {
            rep.count("enc_deliveries_cutting_an_instruction");
        }

        // reference decoder on the same delivered prefix
        let mut n_ins = 0u64;
        let mut n_evict = 0u64;
        let fed = self.dec_ref_rd.feed(&chunk, &mut self.dec_ref, |_t, _i, a, _o| {
            if a.inserted.is_some() {
                n_ins += 1;
            }
            n_evict += a.evicted.len() as u64;
        });
        if let Err(e) = fed {
            rep.inconclusive(format!("reference decoder rejects bytes the encoder-side model accepted: {}", e));
            self.dead = true;
            return;
        }
        rep.add("evictions[decoder_reference]", n_evict);
        rep.add("dec_instructions_applied", n_ins);
        rep.max("max:inserts_in_one_delivery", n_ins);
        if self.h3_dec_consumed != self.dec_ref_rd.consumed {
            return self.viol(rep, "encoder-stream-consumption-differs", format!("h3's decoder consumed {} bytes of the encoder stream, the reference {} (delivered {})", self.h3_dec_consumed, self.dec_ref_rd.consumed, self.enc_delivered), true);
        }
        rep.count("table_compared[decoder]");
        {
            let t = self.dec.verif_table();
            let ents = t.verif_entries();
            let tot = t.verif_total_inserted() as u64;
            if tot != self.dec_ref.insert_count() || total != tot {
                return self.viol(rep, "decoder-table-differs-from-reference[insert-count]", format!("h3 decoder insert count {} (returned {}) reference {}", tot, total, self.dec_ref.insert_count()), true);
            }
            if ents.len() != self.dec_ref.len() || !ents.iter().zip(self.dec_ref.entries_iter()).all(|(a, b)| a == b) {
                return self.viol(rep, "decoder-table-differs-from-reference[entries]", format!("after {} encoder-stream bytes: h3 decoder table [{}] reference [{}]", self.h3_dec_consumed, show_fields(&ents), show_fields(&self.dec_ref.entries())), true);
            }
            if t.verif_curr_size() as u64 != self.dec_ref.size() {
                return self.viol(rep, "decoder-table-differs-from-reference[size]", format!("h3 curr_size {} reference {}", t.verif_curr_size(), self.dec_ref.size()), true);
            }
        }
        self.check_sizes(rep);
        if self.dead {
            return;
        }
        // what the decoder put on its own stream
        if !out.is_empty() {
            match self.emitted_dec_rd.feed(&out) {
                Err(e) => return self.viol(rep, "decoder-stream-malformed", format!("on_encoder_recv emitted {}: {}", hex_short(&out, 16), e), true),
                Ok(ins) => {
                    if self.emitted_dec_rd.queued() > 0 {
                        return self.viol(rep, "decoder-stream-malformed", format!("on_encoder_recv emitted an incomplete instruction {}", hex_short(&out, 16)), true);
                    }
                    for x in ins {
                        if let DecInstr::InsertCountIncrement(k) = x {
                            self.announced += k;
                            rep.count("increments_emitted");
                            rep.max("max:increment_emitted", k);
                        } else {
                            rep.count("unexpected_decoder_instruction_from_on_encoder_recv");
                        }
                    }
                }
            }
            if self.announced > self.dec_ref.insert_count() {
                return self.viol(rep, "decoder-announces-too-many-inserts", format!("Insert Count Increments sum to {} but only {} insertions were received", self.announced, self.dec_ref.insert_count()), true);
            }
            self.dec_emitted_total += out.len() as u64;
            self.dec_pending.extend(out.iter());
        }
    }

    // ------------------------------------------------------------------ a block reaches the decoder
    fn decodable(&self) -> Vec<usize> {
        let mut v = Vec::new();
        for idxs in self.streams.values() {
            // first section of the stream that is emitted, not decoded, not abandoned
            for &i in idxs {
                let s = &self.secs[i];
                if !s.emitted || s.abandoned {
                    break;
                }
                if !s.decoded {
                    v.push(i);
                    break;
                }
            }
        }
        v.sort_unstable();
        v
    }

    fn do_decode(&mut self, i: usize, rep: &mut Report) {
        rep.evaluations += 1;
        rep.count("decode_attempts");
        let ready = self.enc_delivered >= self.secs[i].dep_offset;
        let when = if ready { "after-dependencies" } else { "before-dependencies" };
        let r = {
            let dec = &self.dec;
            let block = &self.secs[i].block;
            panics::catch(|| {
                let mut rdr = &block[..];
                dec.decode_header(&mut rdr)
            })
        };
        let reference = rd::decode_section(&self.dec_ref, &self.secs[i].block);
        self.secs[i].attempts += 1;
        let res = match r {
            Err(p) => {
                self.trace.push(Step::Decode(i, "panic"));
                return self.panic_viol(rep, "decode_header", p);
            }
            Ok(x) => x,
        };
        let input = &self.secs[i].fields;
        let h3_class;
        match &res {
            Ok(d) => {
                h3_class = "fields";
                self.trace.push(Step::Decode(i, "ok"));
                let got: Vec<Field> = d.fields.iter().map(|f| (f.name.to_vec(), f.value.to_vec())).collect();
                if got != *input {
                    return self.viol(rep, &format!("decodes-to-other-fields[{}]", when), format!("section #{} [{}] decoded by h3 as [{}] (block {}, decoder insert count {})", i, show_fields(input), show_fields(&got), hex_short(&self.secs[i].block, 32), self.dec_ref.insert_count()), true);
                }
                if !ready {
                    return self.viol(rep, "decoded-before-dependencies", format!("section #{} needs encoder-stream offset {} but only {} bytes were delivered, and h3 decoded it", i, self.secs[i].dep_offset, self.enc_delivered), true);
                }
                if d.mem_size != section_size(input) {
                    return self.viol(rep, "decoded-size-wrong", format!("section #{}: mem_size {} expected {}", i, d.mem_size, section_size(input)), true);
                }
                if d.dyn_ref != (self.secs[i].ric > 0) {
                    return self.viol(rep, "dyn-ref-flag-wrong", format!("section #{} has Required Insert Count {} but Decoded::dyn_ref is {}", i, self.secs[i].ric, d.dyn_ref), true);
                }
            }
            Err(DecoderError::MissingRefs(n)) => {
                h3_class = "blocked";
                self.trace.push(Step::Decode(i, "blocked"));
                if ready {
                    return self.viol(rep, "blocked-after-dependencies-delivered", format!("section #{} (RIC {}) reported MissingRefs({}) although all {} encoder-stream bytes it depends on were delivered (decoder insert count {})", i, self.secs[i].ric, n, self.secs[i].dep_offset, self.dec_ref.insert_count()), true);
                }
                if *n as u64 != self.secs[i].ric {
                    rep.count("missing_refs_value_differs_from_ric");
                }
            }
            Err(e) => {
                self.trace.push(Step::Decode(i, "error"));
                return self.viol(rep, &format!("decode-error[{}][{}]", when, key(&format!("{:?}", e))), format!("section #{} (RIC {}, block {}) fails with {:?}; decoder insert count {}, {} of {} needed encoder-stream bytes delivered", i, self.secs[i].ric, hex_short(&self.secs[i].block, 32), e, self.dec_ref.insert_count(), self.enc_delivered.min(self.secs[i].dep_offset), self.secs[i].dep_offset), true);
            }
        }
        // (2) reference decoder on the same bytes
        let ref_class = match &reference {
            SectionOutcome::Blocked { .. } => "blocked",
            SectionOutcome::Error(_) => "error",
            SectionOutcome::Fields { .. } => "fields",
        };
        let same_fields = match (&res, &reference) {
            (Ok(d), SectionOutcome::Fields { fields, .. }) => {
                d.fields.len() == fields.len() && d.fields.iter().zip(fields.iter()).all(|(a, b)| a.name[..] == b.0[..] && a.value[..] == b.1[..])
            }
            _ => true,
        };
        if h3_class != ref_class || !same_fields {
            return self.viol(rep, &format!("reference-disagrees[h3={},reference={}]", h3_class, ref_class), format!("section #{} block {}: h3 {} but the RFC 9204 reference says {:?}", i, hex_short(&self.secs[i].block, 32), h3_class, reference), true);
        }
        match res {
            Ok(d) => {
                rep.count("decode_ok");
                let s = &mut self.secs[i];
                s.decoded = true;
                if s.was_blocked {
                    rep.count("decoded_after_being_blocked");
                }
                if d.dyn_ref {
                    let mut out: Vec<u8> = Vec::new();
                    ack_header(s.stream, &mut out);
                    self.acks_emitted += 1;
                    rep.count("acks_emitted");
                    self.dec_emitted_total += out.len() as u64;
                    self.dec_pending.extend(out.iter());
                }
            }
            Err(_) => {
                rep.count("decode_blocked");
                self.secs[i].was_blocked = true;
                // streams actually blocked at the decoder right now (blocks that arrived)
                let ic = self.dec_ref.insert_count();
                let blocked: BTreeSet<u64> = self.secs.iter().filter(|s| s.emitted && s.attempts > 0 && !s.decoded && !s.abandoned && s.ric > ic).map(|s| s.stream).collect();
                rep.max("max:streams_blocked_at_decoder", blocked.len() as u64);
                if blocked.len() as u64 > self.cfg.limit {
                    rep.count("decoder_saw_more_blocked_streams_than_limit");
                }
            }
        }
    }

    // ------------------------------------------------------------------ decoder stream -> encoder
    fn do_deliver_dec(&mut self, n: usize, rep: &mut Report) {
        let n = n.min(self.dec_pending.len());
        if n == 0 {
            return;
        }
        self.trace.push(Step::DeliverDec(n));
        let chunk: Vec<u8> = self.dec_pending.drain(..n).collect();
        self.enc_inbuf.extend_from_slice(&chunk);
        rep.evaluations += 1;
        rep.count("dec_deliveries");
        let before = self.enc_inbuf.len();
        let r = {
            let enc = &mut self.enc;
            let inbuf = &self.enc_inbuf;
            panics::catch(move || {
                let mut rdr = &inbuf[..];
                let r = enc.on_decoder_recv(&mut rdr);
                (r, rdr.len())
            })
        };
        let (res, remaining) = match r {
            Err(p) => return self.panic_viol(rep, "on_decoder_recv", p),
            Ok(x) => x,
        };
        // the model reads the same bytes
        let ins = match self.ack_rd.feed(&chunk) {
            Ok(i) => i,
            Err(e) => {
                rep.inconclusive(format!("decoder stream unparsable by the reference: {}", e));
                self.dead = true;
                return;
            }
        };
        let mut largest_increment = 0;
        for x in &ins {
            match *x {
                DecInstr::SectionAck(s) => {
                    match self.outstanding.get_mut(&s).and_then(|q| q.pop_front()) {
                        Some(j) => {
                            self.secs[j].released = true;
                            self.krc = self.krc.max(self.secs[j].ric);
                            self.acks_delivered += 1;
                            rep.count("acks_delivered");
                        }
                        None => {
                            rep.inconclusive(format!("harness emitted a Section Acknowledgment for stream {} with nothing outstanding", s));
                            self.dead = true;
                            return;
                        }
                    }
                }
                DecInstr::StreamCancel(s) => {
                    rep.count("cancels_delivered");
                    if let Some(q) = self.outstanding.remove(&s) {
                        for j in q {
                            self.secs[j].released = true;
                            rep.count("sections_released_by_cancel");
                        }
                    }
                }
                DecInstr::InsertCountIncrement(k) => {
                    rep.count("increments_delivered");
                    largest_increment = largest_increment.max(k);
                    self.krc += k;
                    if k == 0 || self.krc > self.enc_model.insert_count() {
                        return self.viol(rep, &format!("decoder-stream-invalid[{}]", if k == 0 { "increment-zero" } else { "increment-beyond-sent" }), format!("Insert Count Increment {} makes the Known Received Count {} with {} insertions sent (RFC 9204 4.4.3)", k, self.krc, self.enc_model.insert_count()), true);
                    }
                }
            }
        }
        if let Err(e) = res {
            let k = key(&format!("{:?}", e));
            // narrow the one parser limit that is known: Increment values above 64
            let what = if k.contains("InvalidInteger") && largest_increment > 64 { "[insert-count-increment>64]" } else { "" };
            return self.viol(
                rep,
                &format!("encoder-rejects-decoder-stream[{}]{}", k, what),
                format!("on_decoder_recv failed with {:?} on decoder-stream bytes {} (instructions {:?}) produced by h3's decoder side", e, hex_short(&self.enc_inbuf, 32), ins),
                true,
            );
        }
        let consumed = before - remaining;
        self.enc_inbuf.drain(..consumed);
        self.h3_enc_consumed += consumed as u64;
        if self.h3_enc_consumed != self.ack_rd.consumed {
            return self.viol(rep, "decoder-stream-consumption-differs", format!("h3's encoder consumed {} bytes of the decoder stream, the reference {}", self.h3_enc_consumed, self.ack_rd.consumed), true);
        }
        self.check_sizes(rep);
    }

    // ------------------------------------------------------------------ the decoder abandons a stream
    fn cancel_candidates(&self) -> Vec<u64> {
        self.streams
            .iter()
            .filter(|(s, idxs)| !self.cancelled.contains(s) && idxs.iter().all(|&i| self.secs[i].emitted))
            .map(|(s, _)| *s)
            .collect()
    }

    fn do_cancel(&mut self, stream: u64, rep: &mut Report) {
        self.trace.push(Step::Cancel(stream));
        self.cancelled.insert(stream);
        let mut live = false;
        for &i in &self.streams[&stream] {
            let s = &mut self.secs[i];
            if !s.decoded {
                s.abandoned = true;
                live = true;
            }
        }
        rep.count("cancels_emitted");
        if live {
            rep.count("cancels_emitted_with_undecoded_sections");
        }
        let mut out: Vec<u8> = Vec::new();
        stream_canceled(stream, &mut out);
        self.dec_emitted_total += out.len() as u64;
        self.dec_pending.extend(out.iter());
    }

    fn dec_delivery_allowed(&self) -> bool {
        match self.cfg.withhold_acks_after {
            Some(n) => (self.h3_enc_consumed + self.enc_inbuf.len() as u64) < n,
            None => true,
        }
    }
}

fn pick_len(rng: &mut Rng, pending: usize) -> usize {
    match rng.below(6) {
        0 => 1,
        1 => 1 + rng.usize(pending.min(3)),
        2 | 3 => 1 + rng.usize(pending),
        _ => pending,
    }
}

fn run_history(gen: &str, index: u64, seed: u64, rep: &mut Report) {
    let mut rng = Rng::new(seed);
    let cfg = gen_config(gen, &mut rng);
    let secs = gen_plan(&mut rng, &cfg);
    let n = secs.len();
    let plan_hash = hash64(&(cfg.cap, cfg.limit, cfg.style, secs.iter().map(|s| (s.stream, &s.fields)).collect::<Vec<_>>()));
    let mut w = match World::new(gen, cfg.clone(), secs) {
        Some(w) => w,
        None => {
            rep.inconclusive("cannot configure h3's DynamicTable");
            return;
        }
    };
    rep.count("histories");
    rep.count(&format!("histories[limit={}]", cfg.limit));
    rep.count(&format!("histories[style={}]", STYLES[cfg.style as usize]));
    rep.count(&format!("histories[capacity={}]", if (33..=63).contains(&cfg.cap) { "33..63".to_string() } else if (1..=32).contains(&cfg.cap) { "1..32".to_string() } else { cfg.cap.to_string() }));
    if cfg.long_values {
        rep.count("histories[long values]");
    }
    if cfg.withhold_acks_after.is_some() {
        rep.count("histories[decoder stream stalls]");
    }

    let mut cancels = 0;
    if cfg.style == 0 {
        // lockstep: everything delivered at once, like h3's own tests
        while w.next < n && !w.dead {
            w.do_encode(rep);
            if w.dead {
                break;
            }
            let p = w.enc_pending.len();
            w.do_deliver_enc(p, rep);
            if w.dead {
                break;
            }
            for i in w.decodable() {
                w.do_decode(i, rep);
                if w.dead {
                    break;
                }
            }
            if w.dead {
                break;
            }
            if w.dec_delivery_allowed() {
                let p = w.dec_pending.len();
                w.do_deliver_dec(p, rep);
            }
        }
    } else {
        let budget = 8 * n + 40;
        for _ in 0..budget {
            if w.dead {
                break;
            }
            let wt = weights(cfg.style, w.next >= n);
            let cand = w.decodable();
            let can = [
                w.next < n,
                !w.enc_pending.is_empty(),
                !cand.is_empty(),
                !w.dec_pending.is_empty() && w.dec_delivery_allowed(),
            ];
            // a stream cancellation now and then
            if cancels < 3 && rng.chance(1, 50) {
                let cc = w.cancel_candidates();
                if !cc.is_empty() {
                    let s = *rng.pick(&cc);
                    w.do_cancel(s, rep);
                    cancels += 1;
                    continue;
                }
            }
            let total: u64 = (0..4).filter(|&k| can[k]).map(|k| wt[k]).sum();
            if total == 0 {
                if can.iter().any(|c| *c) {
                    // only zero-weight actions are possible: take the first one
                    let k = (0..4).find(|&k| can[k]).unwrap();
                    step(&mut w, k, &cand, &mut rng, cfg.style, rep);
                    continue;
                }
                break;
            }
            let mut x = rng.below(total);
            let mut k = 0;
            for j in 0..4 {
                if can[j] {
                    if x < wt[j] {
                        k = j;
                        break;
                    }
                    x -= wt[j];
                }
            }
            step(&mut w, k, &cand, &mut rng, cfg.style, rep);
        }
    }

    finish_history(&mut w, &mut rng, index == 0 && gen != "cap_sub_entry", plan_hash, rep);
}

/// Flush: everything still owed arrives; every section that was not abandoned must decode.
fn finish_history(w: &mut World, rng: &mut Rng, sample: bool, plan_hash: u64, rep: &mut Report) {
    let n = w.secs.len();
    let cfg = w.cfg.clone();
    if !w.dead {
        w.trace.push(Step::Flush);
        while w.next < n && !w.dead {
            w.do_encode(rep);
        }
        while !w.enc_pending.is_empty() && !w.dead {
            let p = w.enc_pending.len();
            let k = if rng.chance(1, 2) { p } else { pick_len(rng, p) };
            w.do_deliver_enc(k, rep);
        }
        loop {
            if w.dead {
                break;
            }
            let cand = w.decodable();
            if cand.is_empty() {
                break;
            }
            for i in cand {
                if w.dead {
                    break;
                }
                w.do_decode(i, rep);
                if !w.dead && !w.secs[i].decoded {
                    // cannot happen: ready sections either decode or raise a violation
                    rep.inconclusive("flush: a ready section neither decoded nor failed");
                    w.dead = true;
                }
            }
        }
        if !w.dead && w.dec_delivery_allowed() && cfg.withhold_acks_after.is_none() {
            let p = w.dec_pending.len();
            w.do_deliver_dec(p, rep);
        }
        if !w.dead {
            rep.count("histories_completed");
            let undecoded = w.secs.iter().filter(|s| !s.decoded && !s.abandoned).count();
            if undecoded > 0 {
                rep.inconclusive("flush left sections undecoded");
            }
        }
    }
    rep.add("acks_withheld", w.acks_emitted - w.acks_delivered);
    rep.add("sections_abandoned_by_cancel", w.secs.iter().filter(|s| s.abandoned).count() as u64);
    let trace_hash = hash64(&w.trace.iter().map(|s| s.show()).collect::<Vec<_>>());
    rep.sig(hash64(&(plan_hash, trace_hash)));
    rep.sig_in("workloads", plan_hash);
    if sample {
        let mut c = w.case_json();
        c["outcome"] = json!(if w.dead { "stopped at a violation" } else { "held" });
        c["final"] = json!({
            "encoder_insert_count": w.enc_model.insert_count(),
            "decoder_insert_count": w.dec_ref.insert_count(),
            "known_received_count": w.krc,
            "encoder_table_entries": w.enc_model.len(),
            "evicted": w.enc_model.first_live(),
        });
        rep.sample(c);
    }
}

fn step(w: &mut World, k: usize, cand: &[usize], rng: &mut Rng, style: u8, rep: &mut Report) {
    match k {
        0 => w.do_encode(rep),
        1 => {
            let p = w.enc_pending.len();
            let n = if style >= 5 { p } else { pick_len(rng, p) };
            w.do_deliver_enc(n, rep);
        }
        2 => {
            let i = cand[rng.usize(cand.len())];
            w.do_decode(i, rep);
        }
        _ => {
            let p = w.dec_pending.len();
            let n = if style >= 5 { p } else { pick_len(rng, p) };
            w.do_deliver_dec(n, rep);
        }
    }
}

fn run_case(gen: &str, index: u64, seed: u64, _tier: Tier, rep: &mut Report) {
    if gen == "directed_minimal" {
        run_directed(index, seed, rep);
    } else {
        run_history(gen, index, seed, rep);
    }
}

// ---------------------------------------------------------------------------------------------
// three hand-written minimal histories (one per defect class the random histories exposed in the
// stateful encoder at the time of writing); they hold on an encoder that follows RFC 9204 2.1.1,
// 2.1.2 and 4.4.3 and keep these paths covered whatever the seed.

fn sec(stream: u64, fields: &[(&str, &str)]) -> Sec {
    Sec {
        stream,
        fields: fields.iter().map(|(n, v)| (n.as_bytes().to_vec(), v.as_bytes().to_vec())).collect(),
        emitted: false,
        block: Vec::new(),
        ric: 0,
        refs: BTreeSet::new(),
        dep_offset: 0,
        decoded: false,
        abandoned: false,
        attempts: 0,
        was_blocked: false,
        released: false,
    }
}

const ALL: usize = usize::MAX;

fn run_directed(index: u64, seed: u64, rep: &mut Report) {
    let mut rng = Rng::new(seed);
    let base = Config {
        cap: 4096,
        limit: 100,
        style: 0,
        long_values: false,
        repeat_pct: 0,
        withhold_acks_after: None,
        min_sections: 1,
        min_fields: 0,
    };
    let (cfg, secs, script): (Config, Vec<Sec>, Vec<Step>) = match index {
        // the decoder abandons stream 0 before the insertion arrived; the encoder then evicts the
        // never-acknowledged entry, and the next section's Required Insert Count wraps
        0 => (
            Config { cap: 40, ..base },
            vec![sec(0, &[("k", "1")]), sec(4, &[("k", "v2")])],
            vec![Step::Encode(0), Step::Cancel(0), Step::DeliverDec(ALL), Step::Encode(1), Step::Decode(1, "")],
        ),
        // one stream may block; a second stream references the same unacknowledged entry
        1 => (
            Config { limit: 1, ..base },
            vec![sec(0, &[("k", "1")]), sec(4, &[("k", "1")])],
            vec![Step::Encode(0), Step::Encode(1)],
        ),
        // 66 insertions arrive in one batch: Insert Count Increment 66
        _ => {
            let names = ["k", "x-a", "x-bb", "x-custom-name"];
            let values = ["1", "v2", "a-longer-value-0123456789"];
            let mut secs = Vec::new();
            let mut script = Vec::new();
            for i in 0..11usize {
                let f = (names[i % 4], values[i / 4]);
                secs.push(sec(4 * i as u64, &[f, f, f, f, f, f]));
                script.push(Step::Encode(i));
            }
            script.push(Step::DeliverEnc(ALL));
            script.push(Step::DeliverDec(ALL));
            (base, secs, script)
        }
    };
    let plan_hash = hash64(&("directed", index));
    let mut w = match World::new("directed_minimal", cfg, secs) {
        Some(w) => w,
        None => {
            rep.inconclusive("cannot configure h3's DynamicTable");
            return;
        }
    };
    rep.count("histories");
    rep.count("histories[directed]");
    for st in script {
        if w.dead {
            break;
        }
        match st {
            Step::Encode(_) => w.do_encode(rep),
            Step::DeliverEnc(n) => w.do_deliver_enc(n, rep),
            Step::DeliverDec(n) => w.do_deliver_dec(n, rep),
            Step::Cancel(s) => w.do_cancel(s, rep),
            Step::Decode(i, _) => {
                if w.decodable().contains(&i) {
                    w.do_decode(i, rep)
                }
            }
            Step::Flush => {}
        }
    }
    finish_history(&mut w, &mut rng, false, plan_hash, rep);
}

#[allow(dead_code)]
fn _kinds() -> [InstrKind; 5] {
    [
        InstrKind::SetCapacity,
        InstrKind::InsertStaticNameRef,
        InstrKind::InsertDynamicNameRef,
        InstrKind::InsertLiteralName,
        InstrKind::Duplicate,
    ]
}
