//! C17 — the Quinn adapter (h3-quinn) moves bytes, identifiers and errors faithfully.
//!
//! E5 rig: an `h3_quinn` endpoint driven through the `h3::quic` traits talks to a raw `quinn`
//! peer over 127.0.0.1 (see `quinnrig`). Four generators:
//!   * `conservation` — frames written with `send_data`/`poll_ready` under swept flow-control
//!     windows, premature second writes, raw reader fast/slow/stalling; byte-exact comparison at
//!     the raw peer; echo back through `poll_data`.
//!   * `id_matrix`    — `send_id`/`recv_id` in every read/write state.
//!   * `errors`       — peer close / reset / stop / idle timeout -> h3 error classes and codes.
//!   * `datagrams`    — the datagram adapter in both directions.

use crate::panics;
use crate::quinnrig::{self as rig, AConn, FlagWaker, Obs, ObsCell, Outcome, Pair, Payload, RigCfg, SegBuf, Stage, WINDOWS};
use crate::refimpl::frames as rf;
use crate::refimpl::varint as rv;
use crate::report::Report;
use crate::util::{hash64, hex_short, Rng};
use crate::{Gen, PropDef, Tier};
use bytes::{Buf, Bytes};
use h3::proto::frame::Frame;
use h3::proto::stream::StreamType;
use h3::quic::{self, ConnectionErrorIncoming, StreamErrorIncoming, StreamId, WriteBuf};
use serde_json::json;
use std::cell::RefCell;
use std::collections::HashMap;
use std::task::{Context, Poll};
use std::time::Duration;

pub fn def() -> PropDef {
    PropDef {
        id: "C17",
        rule: "a case = one real Quinn loopback connection (127.0.0.1) between an h3_quinn endpoint driven through \
               the h3::quic traits (client or server role) and a raw quinn peer. conservation: 1..3 streams \
               (adapter-opened bidi / split bidi / via opener() / uni with and without a (StreamType, Frame) first \
               write / peer-opened bidi), 1..6 DATA|HEADERS frames per stream with payloads 0 B..256 KiB as Bytes or \
               as a multi-segment Buf, raw peer stream window x connection window swept completely over \
               {1,7,64,1Ki,64Ki,1Mi}^2 (index) with the adapter's send window from the same set (PRNG), raw reader \
               fast / 1..k-byte reads / stalling, a second send_data issued right after an accepted one and at \
               PRNG-chosen Pending points of poll_ready; streams sequential or concurrent; end by poll_finish or \
               reset(code); the bytes read by the raw peer must equal ref-encoded header||payload of every accepted \
               send_data, once, in order (a prefix before a local reset), every premature send_data must return Err; \
               bidi streams echo data back which poll_data must deliver unchanged under a swept adapter receive \
               window. id_matrix: send_id/recv_id queried under catch_unwind in states fresh, data-buffered, \
               after-read, read-pending, read-cancelled (polled once to Pending, woken, never re-polled), \
               stop_sending with a read in flight / idle, after FIN, after peer reset, write-buffered, write-pending, \
               write-complete, after finish / local reset / peer stop / connection close, on accepted and opened, \
               whole and split streams, both roles; value must equal the id computed from the opening order \
               (RFC 9000 2.1) and Quinn's own id at the raw peer. errors: peer close(c) seen by pending and later \
               accept_bidi / accept_recv / poll_data / poll_ready / open / datagram calls, peer reset(c) at three \
               points, peer stop(c) while a write is blocked or idle, idle timeout on either side with keep-alives \
               off; c over {0, 0x100..0x110, 2^62-1, PRNG}. datagrams: send_datagram -> raw read_datagram and raw \
               send_datagram -> poll_incoming_datagram, one at a time, sizes 0..max_datagram_size. Non-trivial \
               distinct = distinct (generator, configuration, plan) hashes. regression_seeds: the two smallest \
               recv_id scenarios. Watchdog 30 s per connection => inconclusive.",
        assumptions: || {
            vec![
                "quinn 0.11 / quinn-proto on loopback is the transport environment: it delivers stream bytes reliably and in order and reports its own stream ids, close / reset / stop codes and idle timeouts correctly (the raw peer's view is the reference)".into(),
                "reference varint / frame header encoding (refimpl) is correct".into(),
                "wall-clock is used only to pace the raw reader and as a 30 s watchdog; a watchdog firing or a transport-level failure (Undefined / Timeout without an idle-timeout scenario) is inconclusive, never a violation".into(),
                "don't-care: bytes not yet delivered when the peer closes / resets / stops or the adapter resets may be discarded (only a prefix is required); poll_finish after a peer stop or a dead connection (Quinn reports Ok); what poll_data returns after FIN or after a local stop_sending; after the first write-path error a further send_data may be accepted or refused with the same condition, but must not turn the peer's condition into ConnectionErrorIncoming::InternalError (the class on which h3 closes the connection with H3_INTERNAL_ERROR); QUIC datagrams may be lost (never altered or duplicated)".into(),
                "a scenario hit by transport-level trouble (Quinn aborting after packet loss on the loaded loopback, a handshake timing out) is discarded, keeping what was judged before; more than 2 % discards, any failed rig expectation that transport trouble does not explain, or any watchdog firing makes the run inconclusive".into(),
                "the h3-side caller follows the trait protocol except for the deliberate premature send_data; error codes are < 2^62".into(),
            ]
        },
        gens,
        run_case,
        finish,
    }
}

fn gens(tier: Tier) -> Vec<Gen> {
    vec![
        Gen::new("regression_seeds", 2),
        Gen::new("conservation", tier.pick(1, 36, 2160)),
        Gen::new("id_matrix", tier.pick(1, 10, 360)),
        Gen::new("errors", tier.pick(1, 16, 480)),
        Gen::new("datagrams", tier.pick(0, 2, 40)),
        Gen::new("unframed", tier.pick(1, 8, 240)),
        Gen::new("buffered", tier.pick(1, 30, 900)),
    ]
}

fn finish(tier: Tier, rep: &mut Report) {
    let floors: &[(&str, u64)] = match tier {
        Tier::Lite => &[("connections", 2), ("frames_sent", 1), ("bytes_conserved", 1)],
        Tier::Quick => &[
            ("connections", 50),
            ("frames_sent", 60),
            ("bytes_conserved", 200_000),
            ("partial_writes[poll_ready Pending with a write in flight]", 200),
            ("premature_send_data_refused", 30),
            ("streams_conserved", 30),
            ("echo_bytes_conserved", 1_000),
            ("id_query[recv_id:read-pending]", 10),
            ("id_query[recv_id:read-cancelled]", 5),
            ("id_query[recv_id:after-fin]", 5),
            ("id_query[recv_id:after-reset]", 5),
            ("id_query[send_id:write-pending]", 50),
            ("error_mapping_checked[close]", 8),
            ("error_mapping_checked[reset]", 20),
            ("error_mapping_checked[stop]", 20),
            ("error_mapping_checked[timeout]", 4),
            ("datagrams_conserved[adapter->raw]", 10),
            ("unframed_streams_conserved", 5),
            ("error_mapping[stop->poll_send:StreamTerminated]", 10),
            ("error_mapping[close->poll_send:Connection:ApplicationClose]", 5),
        ],
        Tier::Thorough => &[
            ("connections", 2_500),
            ("frames_sent", 4_000),
            ("bytes_conserved", 20_000_000),
            ("partial_writes[poll_ready Pending with a write in flight]", 20_000),
            ("premature_send_data_refused", 2_000),
            ("streams_conserved", 2_000),
            ("echo_bytes_conserved", 100_000),
            ("id_query[recv_id:read-pending]", 500),
            ("id_query[recv_id:read-cancelled]", 200),
            ("id_query[recv_id:after-fin]", 200),
            ("id_query[recv_id:after-reset]", 200),
            ("id_query[send_id:write-pending]", 5_000),
            ("error_mapping_checked[close]", 400),
            ("error_mapping_checked[reset]", 1_000),
            ("error_mapping_checked[stop]", 1_000),
            ("error_mapping_checked[timeout]", 200),
            ("datagrams_conserved[adapter->raw]", 300),
            ("unframed_streams_conserved", 200),
            ("error_mapping[stop->poll_send:StreamTerminated]", 400),
            ("error_mapping[close->poll_send:Connection:ApplicationClose]", 200),
        ],
    };
    for (k, floor) in floors {
        if rep.get(k) < *floor {
            rep.inconclusive(format!("{} = {} below floor {}", k, rep.get(k), floor));
        }
    }
    // discarded scenarios: tolerated up to 2 % of the connections (at least 2)
    let discarded = rep.get("scenarios_discarded");
    if discarded > (rep.get("connections") / 50).max(2) {
        rep.inconclusive(format!("{} of {} scenarios were discarded because of transport / rig trouble: {:?}", discarded, rep.get("connections"), rep.notes));
    }
    if rep.get("scenarios_discarded[rig expectation]") > 0 {
        rep.inconclusive(format!("a rig expectation failed (not explained by transport trouble): {:?}", rep.notes));
    }
    if tier != Tier::Lite {
        for w in WINDOWS {
            for side in ["raw.stream_rwnd", "raw.conn_rwnd", "adapter.send_window"] {
                let k = format!("window[{}={}]", side, w);
                if rep.get(&k) == 0 {
                    rep.inconclusive(format!("{} never used", k));
                }
            }
        }
    }
}

/// Error codes of the quantifier.
pub fn codes() -> Vec<u64> {
    let mut v = vec![0x100u64, 0, (1u64 << 62) - 1, 0x10c, 0x102];
    for c in 0x101..=0x110u64 {
        if !v.contains(&c) {
            v.push(c);
        }
    }
    v
}

fn pick_code(rng: &mut Rng) -> u64 {
    match rng.below(4) {
        0 => rng.next() & ((1u64 << 62) - 1),
        1 => rng.below(0x400),
        _ => *rng.pick(&codes()),
    }
}

// ---------------------------------------------------------------------------------------------
// a stream that is either whole or split (so every scenario runs over both shapes)

pub enum Halves<B: Buf> {
    Whole(h3_quinn::BidiStream<B>),
    Split(h3_quinn::SendStream<B>, h3_quinn::RecvStream),
}

impl<B: Buf> Halves<B> {
    fn new(b: h3_quinn::BidiStream<B>, split: bool) -> Self {
        if split {
            let (s, r) = quic::BidiStream::split(b);
            Halves::Split(s, r)
        } else {
            Halves::Whole(b)
        }
    }
}

impl<B: Buf> quic::SendStream<B> for Halves<B> {
    fn poll_ready(&mut self, cx: &mut Context<'_>) -> Poll<Result<(), StreamErrorIncoming>> {
        match self {
            Halves::Whole(b) => b.poll_ready(cx),
            Halves::Split(s, _) => s.poll_ready(cx),
        }
    }
    fn send_data<T: Into<WriteBuf<B>>>(&mut self, data: T) -> Result<(), StreamErrorIncoming> {
        match self {
            Halves::Whole(b) => b.send_data(data),
            Halves::Split(s, _) => s.send_data(data),
        }
    }
    fn poll_finish(&mut self, cx: &mut Context<'_>) -> Poll<Result<(), StreamErrorIncoming>> {
        match self {
            Halves::Whole(b) => b.poll_finish(cx),
            Halves::Split(s, _) => s.poll_finish(cx),
        }
    }
    fn reset(&mut self, reset_code: u64) {
        match self {
            Halves::Whole(b) => b.reset(reset_code),
            Halves::Split(s, _) => s.reset(reset_code),
        }
    }
    fn send_id(&self) -> StreamId {
        match self {
            Halves::Whole(b) => b.send_id(),
            Halves::Split(s, _) => s.send_id(),
        }
    }
}

impl<B: Buf> quic::RecvStream for Halves<B> {
    type Buf = Bytes;
    fn poll_data(&mut self, cx: &mut Context<'_>) -> Poll<Result<Option<Bytes>, StreamErrorIncoming>> {
        match self {
            Halves::Whole(b) => b.poll_data(cx),
            Halves::Split(_, r) => r.poll_data(cx),
        }
    }
    fn stop_sending(&mut self, error_code: u64) {
        match self {
            Halves::Whole(b) => b.stop_sending(error_code),
            Halves::Split(_, r) => r.stop_sending(error_code),
        }
    }
    fn recv_id(&self) -> StreamId {
        match self {
            Halves::Whole(b) => b.recv_id(),
            Halves::Split(_, r) => r.recv_id(),
        }
    }
}

// ---------------------------------------------------------------------------------------------
// id queries

/// `send_id()` under catch_unwind, compared with the expected id. `class` is the state class used
/// in violation signatures (several labels may share a root cause), `label` the exact state.
fn q_send<B: Buf, S: quic::SendStream<B>>(s: &S, label: &str, class: &str, expect: u64, obs: &ObsCell) {
    let mut o = obs.borrow_mut();
    o.evaluations += 1;
    o.count(&format!("id_query[send_id:{}]", label));
    match panics::catch(|| s.send_id().into_inner()) {
        Ok(v) if v == expect => {}
        Ok(v) => o.violation(format!("send_id-wrong[{}]", class), format!("send_id() = {} in state {}, Quinn's id of the stream is {}", v, label, expect)),
        Err(p) => {
            o.count(&format!("id_query_panicked[send_id:{}]", label));
            o.violation(format!("send_id-panics[{}]", class), format!("send_id() panicked in state {}: {} at {}", label, p.msg, p.loc))
        }
    }
}

fn q_recv<R: quic::RecvStream>(r: &R, label: &str, class: &str, expect: u64, obs: &ObsCell) {
    let mut o = obs.borrow_mut();
    o.evaluations += 1;
    o.count(&format!("id_query[recv_id:{}]", label));
    match panics::catch(|| r.recv_id().into_inner()) {
        Ok(v) if v == expect => {}
        Ok(v) => o.violation(format!("recv_id-wrong[{}]", class), format!("recv_id() = {} in state {}, Quinn's id of the stream is {}", v, label, expect)),
        Err(p) => {
            o.count(&format!("id_query_panicked[recv_id:{}]", label));
            o.violation(format!("recv_id-panics[{}]", class), format!("recv_id() panicked in state {}: {} at {}", label, p.msg, p.loc))
        }
    }
}

// ---------------------------------------------------------------------------------------------
// conservation: plans

#[derive(Clone, Copy, Debug, PartialEq, Eq, Hash)]
enum SKind {
    OpenBidi,
    OpenBidiSplit,
    OpenerBidi,
    OpenSend,
    OpenerSend,
    AcceptBidi,
    AcceptBidiSplit,
}

impl SKind {
    fn bidi(self) -> bool {
        !matches!(self, SKind::OpenSend | SKind::OpenerSend)
    }
    fn opened_by_adapter(self) -> bool {
        !matches!(self, SKind::AcceptBidi | SKind::AcceptBidiSplit)
    }
    fn split(self) -> bool {
        matches!(self, SKind::OpenBidiSplit | SKind::AcceptBidiSplit)
    }
}

#[derive(Clone, Debug, Hash)]
struct FrameP {
    headers: bool,
    payload: Vec<u8>,
    /// first write on a uni stream as a `(StreamType, Frame)` tuple
    stream_type: Option<u64>,
    /// issue a second send_data right after this one was accepted (before any poll_ready)
    premature_now: bool,
}

impl FrameP {
    fn wire(&self) -> Vec<u8> {
        let mut v = Vec::new();
        if let Some(t) = self.stream_type {
            rv::put(&mut v, t);
        }
        v.extend(rf::frame(if self.headers { rf::T_HEADERS } else { rf::T_DATA }, &self.payload));
        v
    }
}

#[derive(Clone, Debug, Hash)]
enum Reader {
    Fast,
    /// reads of 1..=max bytes, a short sleep every `pause_every` reads
    Slow { max: usize, pause_every: usize },
    /// (after this many bytes, sleep this many ms), then fast
    Stall { points: Vec<(usize, u64)> },
}

impl Reader {
    fn name(&self) -> &'static str {
        match self {
            Reader::Fast => "fast",
            Reader::Slow { .. } => "slow",
            Reader::Stall { .. } => "stall",
        }
    }
}

#[derive(Clone, Copy, Debug, Hash, PartialEq, Eq)]
enum EndP {
    Finish,
    Reset(u64),
}

#[derive(Clone, Debug, Hash)]
struct StreamP {
    kind: SKind,
    frames: Vec<FramePlan>,
    reader: Reader,
    end: EndP,
    /// at each Pending of poll_ready a premature send_data is issued with chance 1/den (0 = never)
    premature_den: u64,
    /// bytes the raw peer sends back on a bidi stream
    echo: Vec<u8>,
    seed: u64,
}
type FramePlan = FrameP;

#[derive(Clone, Debug)]
struct ConsPlan {
    cfg: RigCfg,
    seg_payload: bool,
    concurrent: bool,
    streams: Vec<StreamP>,
}

fn size_near(w: u64, rng: &mut Rng) -> usize {
    let d = rng.below(3) as i64 - 1;
    (w as i64 * rng.range(1, 3) as i64 + d).max(0) as usize
}

/// Bytes a stream may carry so that a case stays around a second even when every round trip moves
/// only `wmin` bytes.
fn byte_budget(wmin: u64, send_limited: bool, tier: Tier) -> usize {
    let rts: u64 = if send_limited { 40 } else { 1200 };
    let cap: u64 = tier.pick(64 << 10, 600 << 10, 900 << 10);
    (wmin.saturating_mul(rts)).clamp(48, cap) as usize
}

fn cons_plan(index: u64, seed: u64, tier: Tier) -> ConsPlan {
    let mut rng = Rng::new(seed);
    let n = WINDOWS.len() as u64;
    let raw_stream = WINDOWS[(index % n) as usize];
    let raw_conn = WINDOWS[((index / n) % n) as usize];
    // adapter send window: mostly roomy so the receive windows are what bites; every value occurs
    let a_send = if tier == Tier::Thorough { WINDOWS[((index / (n * n)) % n) as usize] } else if index % 5 == 2 { WINDOWS[((index / 5) % n) as usize] } else { *rng.pick(&WINDOWS[3..]) };
    let adapter_is_client = rng.bool();
    let mut cfg = RigCfg::roomy(adapter_is_client);
    cfg.raw.stream_rwnd = raw_stream;
    cfg.raw.conn_rwnd = raw_conn;
    cfg.adapter.send_window = a_send;
    // echo direction: adapter receive windows / raw send window
    cfg.adapter.stream_rwnd = *rng.pick(&WINDOWS);
    cfg.adapter.conn_rwnd = *rng.pick(&WINDOWS[2..]);
    cfg.raw.send_window = *rng.pick(&WINDOWS[2..]);

    let fast_acks = rng.chance(2, 3);
    cfg.adapter.fast_acks = fast_acks;
    cfg.raw.fast_acks = fast_acks;
    let rwmin = raw_stream.min(raw_conn);
    let send_limited = a_send <= rwmin && !fast_acks;
    let wmin = rwmin.min(a_send);
    let n_streams = 1 + rng.usize(3);
    let concurrent = n_streams > 1 && rng.bool();
    let budget = byte_budget(wmin, send_limited, tier) / n_streams;
    let echo_w = cfg.adapter.stream_rwnd.min(cfg.adapter.conn_rwnd).min(cfg.raw.send_window);
    let echo_budget = byte_budget(echo_w, cfg.raw.send_window <= cfg.adapter.stream_rwnd.min(cfg.adapter.conn_rwnd) && !fast_acks, tier).min(256 << 10) / n_streams;

    let mut streams = Vec::new();
    for _ in 0..n_streams {
        let kind = *rng.pick(&[SKind::OpenBidi, SKind::OpenBidiSplit, SKind::OpenerBidi, SKind::OpenSend, SKind::OpenerSend, SKind::AcceptBidi, SKind::AcceptBidiSplit]);
        let n_frames = 1 + rng.usize(6);
        let mut left = budget;
        let mut frames = Vec::new();
        for fi in 0..n_frames {
            let want = match rng.below(8) {
                0 => 0,
                1 => 1,
                2 => 2 + rng.usize(9),
                3 => size_near(wmin, &mut rng),
                4 => size_near(wmin, &mut rng) * 3 + 1,
                5 => 256 << 10,
                6 => rng.usize(64 << 10),
                _ => rng.usize(left.max(1)),
            };
            let len = want.min(left).min(256 << 10);
            left -= len;
            let stream_type = if !kind.bidi() && fi == 0 && rng.bool() {
                Some(*rng.pick(&[0x00u64, 0x02, 0x03, 0x54, 0x21 + 0x1f * 3, 0x3fff_ffff_ffff_fffe]))
            } else {
                None
            };
            frames.push(FrameP {
                headers: rng.chance(1, 3),
                payload: rng.bytes(len),
                stream_type,
                premature_now: rng.chance(1, 3),
            });
        }
        let reader = match rng.below(3) {
            0 => Reader::Fast,
            1 => {
                let total: usize = frames.iter().map(|f| f.payload.len() + 2).sum();
                let max = (1 + rng.usize(if wmin < 64 { 3 } else { 3000 })).max(total / 1500);
                Reader::Slow { max, pause_every: 1 + rng.usize(40) }
            }
            _ => {
                let total: usize = frames.iter().map(|f| f.payload.len() + 2).sum();
                let k = 1 + rng.usize(3);
                let mut points: Vec<(usize, u64)> = (0..k).map(|_| (rng.usize(total + 1), rng.range(1, 25))).collect();
                points.sort_unstable();
                Reader::Stall { points }
            }
        };
        let end = if rng.chance(1, 5) { EndP::Reset(pick_code(&mut rng)) } else { EndP::Finish };
        let echo_len = rng.usize(echo_budget + 1);
        let echo = if kind.bidi() && end == EndP::Finish { rng.bytes(echo_len) } else { Vec::new() };
        streams.push(StreamP {
            kind,
            frames,
            reader,
            end,
            premature_den: *rng.pick(&[0u64, 1, 2, 5, 20]),
            echo,
            seed: rng.next(),
        });
    }
    ConsPlan {
        cfg,
        seg_payload: rng.bool(),
        concurrent,
        streams,
    }
}

fn cons_plan_json(p: &ConsPlan) -> serde_json::Value {
    json!({
        "cfg": p.cfg.json(),
        "payload_buf": if p.seg_payload { "SegBuf (multi-chunk)" } else { "Bytes" },
        "streams_concurrent": p.concurrent,
        "streams": p.streams.iter().map(|s| json!({
            "kind": format!("{:?}", s.kind),
            "frames": s.frames.iter().map(|f| json!({
                "type": if f.headers { "HEADERS" } else { "DATA" }, "payload_len": f.payload.len(), "payload": hex_short(&f.payload, 8),
                "stream_type_prefix": f.stream_type, "second_send_data_right_after": f.premature_now})).collect::<Vec<_>>(),
            "raw_reader": format!("{:?}", s.reader),
            "end": format!("{:?}", s.end),
            "premature_send_data_chance_per_pending": if s.premature_den == 0 { "never".to_string() } else { format!("1/{}", s.premature_den) },
            "echo_len": s.echo.len(),
        })).collect::<Vec<_>>(),
    })
}

// ---------------------------------------------------------------------------------------------
// conservation: execution

#[derive(Default, Debug)]
struct WriteLog {
    accepted: Vec<usize>,
    /// (frame index, call, error class) of the first write-path error
    err: Option<(usize, &'static str, String, &'static str)>,
    pendings: u64,
    refused: u64,
    premature_accepted: Option<String>,
    ended: bool,
}

const DECOY: u8 = 0xEE;

fn premature<B: Payload, S: quic::SendStream<B>>(s: &mut S, rng: &mut Rng, at: &str, log: &mut WriteLog, obs: &ObsCell) {
    let n = rng.usize(40);
    let decoy: Frame<B> = if rng.bool() {
        Frame::Data(B::make(&vec![DECOY; n], rng))
    } else {
        Frame::Headers(Bytes::from(vec![DECOY; n]))
    };
    let r = panics::catch(|| s.send_data(decoy));
    let mut o = obs.borrow_mut();
    o.evaluations += 1;
    match r {
        Ok(Err(e)) => {
            log.refused += 1;
            o.count("premature_send_data_refused");
            o.count(&format!("premature_send_data_refused_at[{}]", at));
            o.count(&format!("premature_send_data_error[{}]", rig::stream_err_kind(&e)));
        }
        Ok(Ok(())) => {
            if log.premature_accepted.is_none() {
                log.premature_accepted = Some(at.to_string());
            }
        }
        Err(p) => o.violation(format!("send_data-panics[{}]", at), format!("premature send_data panicked: {} at {}", p.msg, p.loc)),
    }
}

async fn write_frames<B: Payload, S: quic::SendStream<B>>(s: &mut S, sp: &StreamP, expect_id: u64, obs: &ObsCell) -> WriteLog {
    let mut log = WriteLog::default();
    let mut rng = Rng::new(sp.seed);
    let mut trng = Rng::new(sp.seed ^ 0x7157); // decisions taken at timing-dependent points
    q_send::<B, S>(s, "fresh", "fresh", expect_id, obs);
    for (i, f) in sp.frames.iter().enumerate() {
        let frame: Frame<B> = if f.headers {
            Frame::Headers(Bytes::copy_from_slice(&f.payload))
        } else {
            Frame::Data(B::make(&f.payload, &mut rng))
        };
        let r = match f.stream_type {
            Some(t) => s.send_data((StreamType::from_value(t), frame)),
            None => s.send_data(frame),
        };
        if let Err(e) = r {
            log.err = Some((i, "send_data", rig::stream_err_class(&e), rig::stream_err_kind(&e)));
            return log;
        }
        log.accepted.push(i);
        q_send::<B, S>(s, "write-buffered", "write-buffered", expect_id, obs);
        if f.premature_now {
            premature::<B, S>(s, &mut rng, "right-after-send_data", &mut log, obs);
        }
        let mut pend_here = 0u64;
        let r = std::future::poll_fn(|cx| match s.poll_ready(cx) {
            Poll::Pending => {
                log.pendings += 1;
                pend_here += 1;
                if pend_here <= 64 || pend_here % 64 == 0 {
                    q_send::<B, S>(s, "write-pending", "write-pending", expect_id, obs);
                }
                if sp.premature_den > 0 && trng.chance(1, sp.premature_den) {
                    premature::<B, S>(s, &mut trng, "poll_ready-pending", &mut log, obs);
                }
                Poll::Pending
            }
            Poll::Ready(r) => Poll::Ready(r),
        })
        .await;
        if let Err(e) = r {
            log.err = Some((i, "poll_ready", rig::stream_err_class(&e), rig::stream_err_kind(&e)));
            return log;
        }
        q_send::<B, S>(s, "write-complete", "write-complete", expect_id, obs);
    }
    match sp.end {
        EndP::Finish => {
            if let Err(e) = rig::finish::<B, S>(s).await {
                log.err = Some((sp.frames.len(), "poll_finish", rig::stream_err_class(&e), rig::stream_err_kind(&e)));
                return log;
            }
            q_send::<B, S>(s, "after-finish", "after-finish", expect_id, obs);
        }
        EndP::Reset(c) => {
            s.reset(c);
            q_send::<B, S>(s, "after-local-reset", "after-local-reset", expect_id, obs);
        }
    }
    log.ended = true;
    log
}

#[derive(Debug)]
enum ReadEnd {
    Fin,
    Reset(u64),
    Err(String),
}

async fn raw_read(r: &mut quinn::RecvStream, style: &Reader) -> (Vec<u8>, ReadEnd) {
    let mut out = Vec::new();
    let mut reads = 0usize;
    let mut stall_i = 0usize;
    let mut rr = Rng::new(hash64(&format!("{:?}", style)));
    loop {
        let res: Result<Option<usize>, quinn::ReadError> = match style {
            Reader::Fast => r.read_chunk(usize::MAX, true).await.map(|c| {
                c.map(|c| {
                    out.extend_from_slice(&c.bytes);
                    c.bytes.len()
                })
            }),
            Reader::Slow { max, pause_every } => {
                reads += 1;
                if reads % pause_every == 0 {
                    tokio::time::sleep(Duration::from_micros(300)).await;
                } else {
                    tokio::task::yield_now().await;
                }
                let k = 1 + rr.usize(*max);
                let mut buf = vec![0u8; k];
                r.read(&mut buf).await.map(|n| {
                    n.map(|n| {
                        out.extend_from_slice(&buf[..n]);
                        n
                    })
                })
            }
            Reader::Stall { points } => {
                while stall_i < points.len() && out.len() >= points[stall_i].0 {
                    tokio::time::sleep(Duration::from_millis(points[stall_i].1)).await;
                    stall_i += 1;
                }
                let lim = if stall_i < points.len() { (points[stall_i].0 - out.len()).max(1) } else { usize::MAX };
                r.read_chunk(lim, true).await.map(|c| {
                    c.map(|c| {
                        out.extend_from_slice(&c.bytes);
                        c.bytes.len()
                    })
                })
            }
        };
        match res {
            Ok(Some(_)) => {}
            Ok(None) => return (out, ReadEnd::Fin),
            Err(quinn::ReadError::Reset(c)) => return (out, ReadEnd::Reset(c.into_inner())),
            Err(e) => return (out, ReadEnd::Err(e.to_string())),
        }
    }
}

fn first_diff(a: &[u8], b: &[u8]) -> usize {
    a.iter().zip(b.iter()).position(|(x, y)| x != y).unwrap_or(a.len().min(b.len()))
}

/// Which frame (and whether header or payload) byte offset `off` of the expected stream is in.
fn locate(sp: &StreamP, accepted: &[usize], off: usize) -> String {
    let mut pos = 0;
    for &i in accepted {
        let w = sp.frames[i].wire();
        if off < pos + w.len() {
            let hdr = w.len() - sp.frames[i].payload.len();
            let o = off - pos;
            return if o < hdr { format!("frame #{} header byte {}", i, o) } else { format!("frame #{} payload byte {} of {}", i, o - hdr, sp.frames[i].payload.len()) };
        }
        pos += w.len();
    }
    "past the end".into()
}

fn judge_conservation(si: usize, sp: &StreamP, w: &WriteLog, got: &[u8], end: &ReadEnd, obs: &ObsCell) {
    let mut o = obs.borrow_mut();
    o.evaluations += 1;
    o.add("partial_writes[poll_ready Pending with a write in flight]", w.pendings);
    if let Some(at) = &w.premature_accepted {
        o.violation(
            format!("premature-send_data-accepted[{}]", at),
            format!("stream #{} ({:?}): send_data issued while the previous write was unfinished ({}) returned Ok", si, sp.kind, at),
        );
        return;
    }
    if let Some((fi, call, class, kind)) = &w.err {
        if kind.starts_with("Connection:Undefined") || kind.starts_with("Connection:Timeout") {
            o.inconclusive(format!("conservation: transport failed under the writer ({} at frame {}: {})", call, fi, class));
        } else {
            o.violation(
                format!("spurious-write-error[{}:{}]", call, kind),
                format!("stream #{} ({:?}): {} of frame #{} failed with {} although the peer neither stopped nor closed", si, sp.kind, call, fi, class),
            );
        }
        return;
    }
    let mut expect = Vec::new();
    for &i in &w.accepted {
        expect.extend(sp.frames[i].wire());
    }
    let describe = |o: &mut Obs, kind: &str| {
        let d = first_diff(got, &expect);
        o.violation(
            format!("conservation[{}]", kind),
            format!(
                "stream #{} ({:?}, reader {}): raw peer read {} B, accepted send_data calls encode to {} B; first difference at offset {} ({}): got {} expected {}; poll_ready returned Pending {} times",
                si,
                sp.kind,
                sp.reader.name(),
                got.len(),
                expect.len(),
                d,
                locate(sp, &w.accepted, d),
                hex_short(&got[d.min(got.len())..], 8),
                hex_short(&expect[d.min(expect.len())..], 8),
                w.pendings
            ),
        );
    };
    match (sp.end, end) {
        (_, ReadEnd::Err(e)) => o.inconclusive(format!("conservation: raw reader failed: {}", e)),
        (EndP::Finish, ReadEnd::Fin) => {
            if got == &expect[..] {
                o.count("streams_conserved");
                o.add("bytes_conserved", got.len() as u64);
                o.add("frames_sent", w.accepted.len() as u64);
            } else if expect.starts_with(got) {
                describe(&mut o, "truncated");
            } else if got.starts_with(&expect) {
                describe(&mut o, "extra-bytes");
            } else {
                describe(&mut o, "bytes-differ");
            }
        }
        (EndP::Reset(c), ReadEnd::Reset(c2)) => {
            o.count("outgoing_code_checked[reset]");
            if c != *c2 {
                o.violation("outgoing-reset-code", format!("reset({:#x}) reached the raw peer as RESET_STREAM({:#x})", c, c2));
            }
            if expect.starts_with(got) {
                o.count("streams_conserved_prefix_before_reset");
                o.add("bytes_conserved", got.len() as u64);
                o.add("frames_sent", w.accepted.len() as u64);
            } else {
                describe(&mut o, "bytes-differ-before-reset");
            }
        }
        (EndP::Finish, ReadEnd::Reset(c)) => o.violation("finish-seen-as-reset", format!("stream #{}: poll_finish returned Ok but the raw peer saw RESET_STREAM({:#x})", si, c)),
        (EndP::Reset(c), ReadEnd::Fin) => o.violation("reset-seen-as-fin", format!("stream #{}: reset({:#x}) without poll_finish but the raw peer saw FIN", si, c)),
    }
}

/// adapter side of one stream once it is open
async fn run_adapter_side<B: Payload, S: quic::SendStream<B>>(s: &mut S, sp: &StreamP, id: u64, obs: &ObsCell) -> WriteLog {
    write_frames::<B, S>(s, sp, id, obs).await
}

/// read the echo through poll_data until FIN
async fn read_echo<R: quic::RecvStream>(r: &mut R, id: u64, obs: &ObsCell) -> Result<Vec<u8>, String> {
    let mut out = Vec::new();
    let mut n = 0u64;
    loop {
        match rig::read_next(r).await {
            Ok(Some(b)) => {
                rig::drain_buf(b, &mut out);
                n += 1;
                if n <= 8 {
                    q_recv(r, "after-read", "after-read", id, obs);
                }
            }
            Ok(None) => {
                q_recv(r, "after-fin", "after-fin", id, obs);
                return Ok(out);
            }
            Err(e) => return Err(rig::stream_err_class(&e)),
        }
    }
}

enum AStream<B: Buf> {
    Bi(Halves<B>),
    Uni(h3_quinn::SendStream<B>),
}

type RawHalves = (Option<quinn::SendStream>, quinn::RecvStream);

async fn cons_scenario<B: Payload>(plan: &ConsPlan, obs: &ObsCell, stage: &Stage) -> Result<(), String> {
    stage.set("connect");
    let pair = rig::connect(&plan.cfg).await?;
    obs.borrow_mut().count("connections");
    let mut aconn = AConn::new(pair.adapter.clone());
    let mut op = rig::opener::<B>(&aconn);
    let raw = pair.raw.clone();

    // expected ids from the opening order
    let mut ids = Vec::new();
    let (mut n_abi, mut n_auni, mut n_rbi) = (0u64, 0u64, 0u64);
    for sp in &plan.streams {
        let id = match (sp.kind.opened_by_adapter(), sp.kind.bidi()) {
            (true, true) => {
                n_abi += 1;
                pair.stream_id(true, true, n_abi - 1)
            }
            (true, false) => {
                n_auni += 1;
                pair.stream_id(true, false, n_auni - 1)
            }
            _ => {
                n_rbi += 1;
                pair.stream_id(false, true, n_rbi - 1)
            }
        };
        ids.push(id);
    }

    // raw acceptor: hands accepted streams to the per-stream readers by id
    let mut txs: HashMap<u64, tokio::sync::oneshot::Sender<RawHalves>> = HashMap::new();
    let mut rxs: Vec<Option<tokio::sync::oneshot::Receiver<RawHalves>>> = Vec::new();
    for (sp, id) in plan.streams.iter().zip(&ids) {
        if sp.kind.opened_by_adapter() {
            let (tx, rx) = tokio::sync::oneshot::channel();
            txs.insert(*id, tx);
            rxs.push(Some(rx));
        } else {
            rxs.push(None);
        }
    }
    let acceptor = async {
        let (mut bi, mut uni) = (0u64, 0u64);
        while bi < n_abi || uni < n_auni {
            tokio::select! {
                r = raw.accept_bi(), if bi < n_abi => {
                    let (s, r) = r.map_err(|e| format!("raw accept_bi: {}", e))?;
                    bi += 1;
                    let id: u64 = r.id().into();
                    match txs.remove(&id) {
                        Some(tx) => { let _ = tx.send((Some(s), r)); }
                        None => return Err(format!("raw peer accepted unexpected bidi stream {}", id)),
                    }
                }
                r = raw.accept_uni(), if uni < n_auni => {
                    let r = r.map_err(|e| format!("raw accept_uni: {}", e))?;
                    uni += 1;
                    let id: u64 = r.id().into();
                    match txs.remove(&id) {
                        Some(tx) => { let _ = tx.send((None, r)); }
                        None => return Err(format!("raw peer accepted unexpected uni stream {}", id)),
                    }
                }
            }
        }
        Ok::<(), String>(())
    };

    let aconn_ref = &mut aconn;
    let op_ref = &mut op;
    let raw_ref = &raw;
    let rxs_cell = RefCell::new(rxs);
    let main = async {
        // open one stream (adapter side + raw side for peer-opened ones)
        let mut opened: Vec<Option<(AStream<B>, Option<RawHalves>)>> = Vec::new();
        let mut jobs = Vec::new();
        for (si, sp) in plan.streams.iter().enumerate() {
            stage.set(format!("open stream #{} {:?}", si, sp.kind));
            let id = ids[si];
            let item: (AStream<B>, Option<RawHalves>) = match sp.kind {
                SKind::OpenBidi | SKind::OpenBidiSplit => {
                    let b = rig::open_bidi::<B>(aconn_ref).await.map_err(|e| format!("poll_open_bidi: {}", rig::stream_err_class(&e)))?;
                    (AStream::Bi(Halves::new(b, sp.kind.split())), None)
                }
                SKind::OpenerBidi => {
                    let b = rig::opener_open_bidi::<B>(op_ref).await.map_err(|e| format!("opener poll_open_bidi: {}", rig::stream_err_class(&e)))?;
                    (AStream::Bi(Halves::new(b, false)), None)
                }
                SKind::OpenSend => {
                    let s = rig::open_send::<B>(aconn_ref).await.map_err(|e| format!("poll_open_send: {}", rig::stream_err_class(&e)))?;
                    (AStream::Uni(s), None)
                }
                SKind::OpenerSend => {
                    let s = rig::opener_open_send::<B>(op_ref).await.map_err(|e| format!("opener poll_open_send: {}", rig::stream_err_class(&e)))?;
                    (AStream::Uni(s), None)
                }
                SKind::AcceptBidi | SKind::AcceptBidiSplit => {
                    let (mut rs, rr) = raw_ref.open_bi().await.map_err(|e| format!("raw open_bi: {}", e))?;
                    let raw_id: u64 = rs.id().into();
                    if raw_id != id {
                        return Err(format!("rig: raw peer's bidi stream has id {} but the opening order says {}", raw_id, id));
                    }
                    let tag = [0xA0 | si as u8];
                    rs.write_all(&tag).await.map_err(|e| format!("raw write tag: {}", e))?;
                    let b = rig::accept_bidi::<B>(aconn_ref).await.map_err(|e| format!("poll_accept_bidi: {}", rig::conn_err_class(&e)))?;
                    let mut h = Halves::new(b, sp.kind.split());
                    q_recv(&h, "fresh", "fresh", id, obs);
                    let mut got = Vec::new();
                    while got.is_empty() {
                        match rig::read_next(&mut h).await {
                            Ok(Some(b)) => rig::drain_buf(b, &mut got),
                            other => return Err(format!("reading the tag of an accepted stream: {:?}", other.map(|_| ()).map_err(|e| rig::stream_err_class(&e)))),
                        }
                    }
                    obs.borrow_mut().evaluations += 1;
                    if got != tag {
                        obs.borrow_mut().violation("recv-bytes-differ", format!("accepted bidi stream {}: peer wrote {:02x?}, poll_data delivered {:02x?}", id, tag, got));
                    }
                    q_recv(&h, "after-read", "after-read", id, obs);
                    (AStream::Bi(h), Some((Some(rs), rr)))
                }
            };
            if plan.concurrent {
                opened.push(Some(item));
            } else {
                run_stream::<B>(si, sp, id, item, &rxs_cell, obs, stage).await?;
            }
        }
        if plan.concurrent {
            for (si, sp) in plan.streams.iter().enumerate() {
                let item = opened[si].take().unwrap();
                jobs.push(run_stream::<B>(si, sp, ids[si], item, &rxs_cell, obs, stage));
            }
            for r in futures_util::future::join_all(jobs).await {
                r?;
            }
        }
        Ok::<(), String>(())
    };

    tokio::pin!(acceptor);
    tokio::pin!(main);
    let mut acc_done = false;
    let res = loop {
        tokio::select! {
            r = &mut acceptor, if !acc_done => {
                acc_done = true;
                if let Err(e) = r { break Err(e); }
            }
            m = &mut main => break m,
        }
    };
    stage.set("teardown");
    raw.close(rig::vi(0), b"done");
    res
}

async fn run_stream<B: Payload>(
    si: usize,
    sp: &StreamP,
    id: u64,
    item: (AStream<B>, Option<RawHalves>),
    rxs: &RefCell<Vec<Option<tokio::sync::oneshot::Receiver<RawHalves>>>>,
    obs: &ObsCell,
    stage: &Stage,
) -> Result<(), String> {
    let (mut astream, raw_halves) = item;
    let rx = rxs.borrow_mut()[si].take();
    {
        let mut o = obs.borrow_mut();
        o.count(&format!("stream_kind[{:?}]", sp.kind));
        o.count(&format!("raw_reader[{}]", sp.reader.name()));
        o.count(&format!("stream_end[{}]", if sp.end == EndP::Finish { "finish" } else { "reset" }));
    }
    // raw side: obtain the stream (accept via the acceptor, or already open), check Quinn's id, read
    let raw_side = async {
        let (rs, mut rr) = match raw_halves {
            Some(h) => h,
            None => rx.ok_or("rig: no receiver")?.await.map_err(|_| "rig: acceptor went away".to_string())?,
        };
        let qid: u64 = rr.id().into();
        if qid != id {
            return Err(format!("rig: raw stream id {} != expected {}", qid, id));
        }
        let (bytes, end) = raw_read(&mut rr, &sp.reader).await;
        Ok::<_, String>((rs, bytes, end))
    };
    stage.set(format!("stream #{} write/read", si));
    let (wlog, raw_res) = match &mut astream {
        AStream::Bi(h) => tokio::join!(run_adapter_side::<B, Halves<B>>(h, sp, id, obs), raw_side),
        AStream::Uni(s) => tokio::join!(run_adapter_side::<B, h3_quinn::SendStream<B>>(s, sp, id, obs), raw_side),
    };
    let (rs, bytes, end) = raw_res?;
    judge_conservation(si, sp, &wlog, &bytes, &end, obs);

    // echo phase on bidi streams
    if let (AStream::Bi(h), Some(mut rs)) = (&mut astream, rs) {
        if sp.end == EndP::Finish && wlog.ended {
            stage.set(format!("stream #{} echo", si));
            let raw_w = async {
                rs.write_all(&sp.echo).await.map_err(|e| format!("raw echo write: {}", e))?;
                rs.finish().map_err(|e| format!("raw echo finish: {}", e))?;
                Ok::<(), String>(())
            };
            let (w, r) = tokio::join!(raw_w, read_echo(h, id, obs));
            w?;
            let mut o = obs.borrow_mut();
            o.evaluations += 1;
            match r {
                Ok(got) if got == sp.echo => {
                    o.count("echo_streams_conserved");
                    o.add("echo_bytes_conserved", got.len() as u64);
                }
                Ok(got) => {
                    let d = first_diff(&got, &sp.echo);
                    o.violation(
                        "recv-bytes-differ",
                        format!("stream #{}: raw peer wrote {} B then FIN, poll_data delivered {} B; first difference at offset {}", si, sp.echo.len(), got.len(), d),
                    );
                }
                Err(class) => {
                    if class.contains("Undefined") || class.contains("Timeout") {
                        o.inconclusive(format!("echo: transport failed under the reader: {}", class));
                    } else {
                        o.violation("spurious-read-error", format!("stream #{}: poll_data failed with {} although the peer only wrote and finished", si, class));
                    }
                }
            }
        }
    }
    Ok(())
}

// ---------------------------------------------------------------------------------------------
// shared helpers for the id matrix and the error scenarios

enum Drained {
    Pending,
    Fin,
    #[allow(dead_code)]
    Err(StreamErrorIncoming),
}

/// poll_data with a flag waker until it is Pending (data that is already there is collected)
fn poll_until_pending<R: quic::RecvStream>(r: &mut R, fw: &std::sync::Arc<FlagWaker>, out: &mut Vec<u8>) -> Drained {
    loop {
        match rig::poll_once(fw, |cx| r.poll_data(cx)) {
            Poll::Pending => return Drained::Pending,
            Poll::Ready(Ok(Some(b))) => rig::drain_buf(b, out),
            Poll::Ready(Ok(None)) => return Drained::Fin,
            Poll::Ready(Err(e)) => return Drained::Err(e),
        }
    }
}

/// read through poll_data until at least `n` bytes are in `out`
async fn read_n<R: quic::RecvStream>(r: &mut R, n: usize, out: &mut Vec<u8>, obs: &ObsCell) -> Result<(), String> {
    while out.len() < n {
        match rig::read_next(r).await {
            Ok(Some(b)) => rig::drain_buf(b, out),
            Ok(None) => {
                // the peer wrote `n` bytes and has not finished the stream
                obs.borrow_mut().violation("recv-spurious-fin", format!("poll_data returned None after {} of {} bytes although the peer has not finished the stream", out.len(), n));
                return Err(format!("scenario stopped after a spurious FIN ({} of {} bytes)", out.len(), n));
            }
            Err(e) => return Err(format!("rig: read failed after {} of {} expected bytes: {}", out.len(), n, rig::stream_err_class(&e))),
        }
    }
    Ok(())
}

/// read until an error (data delivered before it is a don't-care); FIN is reported as Ok
/// After a read has reported the peer's condition the application may read again (e.g. `recv_data`
/// after an error, or `recv_trailers`): that call must not panic. What it returns is Quinn's
/// business (the error again, or None) and is only counted.
fn read_again_after_error<R: quic::RecvStream>(r: &mut R, cause: &str, obs: &ObsCell) {
    let fw = FlagWaker::new();
    for attempt in 0..2 {
        let res = panics::catch(|| rig::poll_once(&fw, |cx| r.poll_data(cx)));
        let mut o = obs.borrow_mut();
        o.evaluations += 1;
        match res {
            Err(p) => {
                o.violation(format!("poll_data-panics[read-again-after-{}]", cause), format!("poll_data #{} after the read had reported the peer's {} panicked: {} at {}", attempt + 2, cause, p.msg, p.loc));
                return;
            }
            Ok(Poll::Ready(Err(e))) => o.count(&format!("read_again_after_error[{}:{}]", cause, rig::stream_err_kind(&e))),
            Ok(Poll::Ready(Ok(None))) => o.count(&format!("read_again_after_error[{}:None]", cause)),
            Ok(Poll::Ready(Ok(Some(_)))) => o.count(&format!("read_again_after_error[{}:data]", cause)),
            Ok(Poll::Pending) => o.count(&format!("read_again_after_error[{}:Pending]", cause)),
        }
    }
}

async fn read_until_err<R: quic::RecvStream>(r: &mut R) -> Result<usize, StreamErrorIncoming> {
    let mut n = 0;
    loop {
        match rig::read_next(r).await {
            Ok(Some(b)) => n += b.remaining(),
            Ok(None) => return Ok(n),
            Err(e) => return Err(e),
        }
    }
}

#[derive(Clone, Copy, Debug)]
enum Want {
    AppClose(u64),
    Terminated(u64),
    Timeout,
}

impl Want {
    fn kind(self) -> &'static str {
        match self {
            Want::AppClose(_) => "close",
            Want::Terminated(_) => "reset/stop",
            Want::Timeout => "timeout",
        }
    }
}

fn conn_matches(e: &ConnectionErrorIncoming, want: Want) -> Result<(), &'static str> {
    match (e, want) {
        (ConnectionErrorIncoming::ApplicationClose { error_code }, Want::AppClose(c)) => {
            if *error_code == c {
                Ok(())
            } else {
                Err("wrong-code")
            }
        }
        (ConnectionErrorIncoming::Timeout, Want::Timeout) => Ok(()),
        (ConnectionErrorIncoming::ApplicationClose { .. }, _) => Err("got-ApplicationClose"),
        (ConnectionErrorIncoming::Timeout, _) => Err("got-Timeout"),
        (ConnectionErrorIncoming::InternalError(_), _) => Err("got-InternalError"),
        (ConnectionErrorIncoming::Undefined(_), _) => Err("got-Undefined"),
    }
}

fn stream_matches(e: &StreamErrorIncoming, want: Want) -> Result<(), &'static str> {
    match (e, want) {
        (StreamErrorIncoming::StreamTerminated { error_code }, Want::Terminated(c)) => {
            if *error_code == c {
                Ok(())
            } else {
                Err("wrong-code")
            }
        }
        (StreamErrorIncoming::StreamTerminated { .. }, _) => Err("got-StreamTerminated"),
        (StreamErrorIncoming::ConnectionErrorIncoming { connection_error }, Want::AppClose(_) | Want::Timeout) => conn_matches(connection_error, want).map_err(|m| match m {
            "wrong-code" => "wrong-code",
            "got-ApplicationClose" => "got-Connection:ApplicationClose",
            "got-Timeout" => "got-Connection:Timeout",
            "got-InternalError" => "got-Connection:InternalError",
            _ => "got-Connection:Undefined",
        }),
        (StreamErrorIncoming::ConnectionErrorIncoming { connection_error }, _) => Err(match connection_error {
            ConnectionErrorIncoming::ApplicationClose { .. } => "got-Connection:ApplicationClose",
            ConnectionErrorIncoming::Timeout => "got-Connection:Timeout",
            ConnectionErrorIncoming::InternalError(_) => "got-Connection:InternalError",
            ConnectionErrorIncoming::Undefined(_) => "got-Connection:Undefined",
        }),
        (StreamErrorIncoming::Unknown(_), _) => Err("got-Unknown"),
    }
}

/// `cause` = what the peer did (close|reset|stop|timeout), `path` = the adapter call that reported it.
fn check_stream_err(obs: &ObsCell, cause: &str, path: &str, got: Result<String, &StreamErrorIncoming>, want: Want) {
    let mut o = obs.borrow_mut();
    o.evaluations += 1;
    match got {
        Ok(what) => o.violation(
            format!("error-mapping[{}->{}:no-error]", cause, path),
            format!("peer {} expected to surface as {:?} from {}, but it returned {}", cause, want, path, what),
        ),
        Err(e) => match stream_matches(e, want) {
            Ok(()) => {
                o.count(&format!("error_mapping_checked[{}]", cause));
                o.count(&format!("error_mapping[{}->{}:{}]", cause, path, rig::stream_err_kind(e)));
            }
            Err(m) => o.violation(
                format!("error-mapping[{}->{}:{}]", cause, path, m),
                format!("peer {} surfaced from {} as {} — expected {:?}", cause, path, rig::stream_err_class(e), want),
            ),
        },
    }
}

fn check_conn_err<T>(obs: &ObsCell, cause: &str, path: &str, got: &Result<T, ConnectionErrorIncoming>, want: Want) {
    let mut o = obs.borrow_mut();
    o.evaluations += 1;
    match got {
        Ok(_) => o.violation(format!("error-mapping[{}->{}:no-error]", cause, path), format!("peer {} expected to surface as {:?} from {}, but it returned Ok", cause, want, path)),
        Err(e) => match conn_matches(e, want) {
            Ok(()) => {
                o.count(&format!("error_mapping_checked[{}]", cause));
                o.count(&format!("error_mapping[{}->{}:{}]", cause, path, want.kind()));
            }
            Err(m) => o.violation(
                format!("error-mapping[{}->{}:{}]", cause, path, m),
                format!("peer {} surfaced from {} as {} — expected {:?}", cause, path, rig::conn_err_class(e), want),
            ),
        },
    }
}

/// After a write-path call reported the peer's condition, a later write attempt must report it
/// again (or at least not turn it into `ConnectionErrorIncoming::InternalError`, the class reserved
/// for faults inside the trait implementation, on which h3 closes the whole connection with
/// H3_INTERNAL_ERROR). `r` is what `send_data` returned, `ready` what the following `poll_ready`
/// returned when `send_data` was accepted.
fn check_write_after_error(obs: &ObsCell, cause: &str, sd: &Result<(), StreamErrorIncoming>, ready: Option<&Result<(), StreamErrorIncoming>>, want: Want) {
    let mut o = obs.borrow_mut();
    o.evaluations += 1;
    let e = match (sd, ready) {
        (Err(e), _) => e,
        (Ok(()), Some(Err(e))) => e,
        (Ok(()), _) => {
            o.count(&format!("write_after_error[{}:accepted]", cause));
            return;
        }
    };
    o.count(&format!("write_after_error[{}:{}]", cause, rig::stream_err_kind(e)));
    if rig::stream_err_kind(e) == "Connection:InternalError" {
        o.violation(
            "write-after-peer-error-reports-InternalError",
            format!("after poll_ready reported the peer's {} ({:?}), the next send_data on the same stream failed with {} instead of the {} condition", cause, want, rig::stream_err_class(e), cause),
        );
    } else if stream_matches(e, want).is_ok() {
        o.count(&format!("error_mapping_checked[{}]", cause));
    }
}

fn check_outgoing(obs: &ObsCell, what: &str, sent: u64, seen: Option<u64>) {
    let mut o = obs.borrow_mut();
    o.evaluations += 1;
    o.count(&format!("outgoing_code_checked[{}]", what));
    if seen != Some(sent) {
        o.violation(format!("outgoing-{}-code", what), format!("{}({:#x}) reached the raw peer as {:?}", what, sent, seen));
    }
}

/// `lo + (0..span)` random bytes
fn rand_bytes(rng: &mut Rng, lo: usize, span: usize) -> Vec<u8> {
    let n = lo + rng.usize(span);
    rng.bytes(n)
}

fn data_frame<B: Payload>(data: &[u8], rng: &mut Rng) -> Frame<B> {
    Frame::Data(B::make(data, rng))
}

/// Everything that must stay alive until the scenario ends (dropping a Quinn stream half sends
/// STOP_SENDING(0) / FIN implicitly, which would disturb the states under test).
#[derive(Default)]
struct Keep(Vec<Box<dyn std::any::Any>>);
impl Keep {
    fn hold<T: 'static>(&mut self, t: T) {
        self.0.push(Box::new(t));
    }
}

/// stream counters per kind, to compute ids from the opening order
#[derive(Default)]
struct Order {
    a_bi: u64,
    a_uni: u64,
    r_bi: u64,
    r_uni: u64,
}

async fn raw_uni_accepted<B: Payload>(pair: &Pair, aconn: &mut AConn, ord: &mut Order, tag: &[u8]) -> Result<(quinn::SendStream, h3_quinn::RecvStream, u64), String> {
    let mut us = pair.raw.open_uni().await.map_err(|e| format!("raw open_uni: {}", e))?;
    let id = pair.stream_id(false, false, ord.r_uni);
    ord.r_uni += 1;
    let qid: u64 = us.id().into();
    if qid != id {
        return Err(format!("rig: raw uni stream id {} but opening order says {}", qid, id));
    }
    us.write_all(tag).await.map_err(|e| format!("raw write: {}", e))?;
    let r = rig::accept_recv::<B>(aconn).await.map_err(|e| format!("poll_accept_recv: {}", rig::conn_err_class(&e)))?;
    Ok((us, r, id))
}

async fn raw_bi_accepted<B: Payload>(pair: &Pair, aconn: &mut AConn, ord: &mut Order, tag: &[u8], split: bool) -> Result<(quinn::SendStream, quinn::RecvStream, Halves<B>, u64), String> {
    let (mut rs, rr) = pair.raw.open_bi().await.map_err(|e| format!("raw open_bi: {}", e))?;
    let id = pair.stream_id(false, true, ord.r_bi);
    ord.r_bi += 1;
    let qid: u64 = rs.id().into();
    if qid != id {
        return Err(format!("rig: raw bidi stream id {} but opening order says {}", qid, id));
    }
    rs.write_all(tag).await.map_err(|e| format!("raw write: {}", e))?;
    let b = rig::accept_bidi::<B>(aconn).await.map_err(|e| format!("poll_accept_bidi: {}", rig::conn_err_class(&e)))?;
    Ok((rs, rr, Halves::new(b, split), id))
}

fn check_recv_bytes(obs: &ObsCell, what: &str, got: &[u8], want: &[u8]) {
    let mut o = obs.borrow_mut();
    o.evaluations += 1;
    if got != want {
        o.violation("recv-bytes-differ", format!("{}: peer wrote {} B, poll_data delivered {} B, first difference at offset {}", what, want.len(), got.len(), first_diff(got, want)));
    } else {
        o.add("echo_bytes_conserved", got.len() as u64);
    }
}

// ---------------------------------------------------------------------------------------------
// id matrix

#[derive(Clone, Debug)]
struct IdPlan {
    cfg: RigCfg,
    seg_payload: bool,
    split: bool,
    /// raw peer's stream receive window (small, so a write can be left pending)
    small: u64,
    codes: [u64; 5],
    seed: u64,
}

fn id_plan(index: u64, seed: u64) -> IdPlan {
    let mut rng = Rng::new(seed);
    let mut cfg = RigCfg::roomy(index % 2 == 0);
    let small = [1u64, 7, 64, 1024][((index / 4) % 4) as usize];
    cfg.raw.stream_rwnd = small;
    let all = codes();
    let mut c = [0u64; 5];
    for (i, x) in c.iter_mut().enumerate() {
        *x = if rng.chance(1, 4) { pick_code(&mut rng) } else { all[((index as usize) * 5 + i) % all.len()] };
    }
    IdPlan {
        cfg,
        seg_payload: rng.bool(),
        split: (index / 2) % 2 == 0,
        small,
        codes: c,
        seed: rng.next(),
    }
}

async fn id_scenario<B: Payload>(plan: &IdPlan, obs: &ObsCell, stage: &Stage) -> Result<(), String> {
    stage.set("connect");
    let pair = rig::connect(&plan.cfg).await?;
    obs.borrow_mut().count("connections");
    let mut aconn = AConn::new(pair.adapter.clone());
    let raw = pair.raw.clone();
    let mut rng = Rng::new(plan.seed);
    let mut ord = Order::default();
    let mut keep = Keep::default();
    let pace = Duration::from_secs(2);

    // ---- A: peer-opened bidi: fresh, after-read, read-pending, read-cancelled, stop_sending with a read in flight
    {
        stage.set("A accepted bidi");
        let (mut rs, rr, mut h, id) = raw_bi_accepted::<B>(&pair, &mut aconn, &mut ord, &[0xA1], plan.split).await?;
        obs.borrow_mut().note(format!("A: peer opens bidi stream {} and writes 1 byte; adapter accepts it (split={})", id, plan.split));
        q_recv(&h, "fresh", "fresh", id, obs);
        q_send::<B, _>(&h, "fresh", "fresh", id, obs);
        let mut got = Vec::new();
        read_n(&mut h, 1, &mut got, obs).await?;
        check_recv_bytes(obs, "A tag", &got, &[0xA1]);
        q_recv(&h, "after-read", "after-read", id, obs);
        let fw = FlagWaker::new();
        let mut extra = Vec::new();
        match poll_until_pending(&mut h, &fw, &mut extra) {
            Drained::Pending => {}
            _ => return Err("rig: stream A ended instead of staying open".into()),
        }
        obs.borrow_mut().note("A: poll_data -> Pending; recv_id() queried now (read-pending)");
        q_recv(&h, "read-pending", "read-pending", id, obs);
        q_send::<B, _>(&h, "read-pending", "read-pending", id, obs);
        let more = rand_bytes(&mut rng, 1, 64);
        rs.write_all(&more).await.map_err(|e| format!("raw write: {}", e))?;
        let woke = fw.wait(pace).await;
        obs.borrow_mut().count(if woke { "read_cancelled_state[woken,data arrived,not re-polled]" } else { "read_cancelled_state[not woken]" });
        obs.borrow_mut().note("A: peer wrote more; the pending read is never re-polled (caller dropped its future); recv_id() queried (read-cancelled)");
        q_recv(&h, "read-cancelled", "read-pending", id, obs);
        q_send::<B, _>(&h, "read-cancelled", "read-pending", id, obs);
        // stop_sending while the read future is in flight (pending_stop path)
        let c = plan.codes[0];
        match panics::catch(|| quic::RecvStream::stop_sending(&mut h, c)) {
            Ok(()) => {}
            Err(p) => obs.borrow_mut().violation("stop_sending-panics[read-pending]", format!("stop_sending({:#x}) panicked with a read in flight: {} at {}", c, p.msg, p.loc)),
        }
        q_recv(&h, "read-cancelled+stop_sending", "read-pending", id, obs);
        // resume: the data the peer wrote must still come out (or the stop may have discarded it: don't-care)
        match rig::read_next(&mut h).await {
            Ok(Some(b)) => {
                rig::drain_buf(b, &mut extra);
                if more.starts_with(&extra) {
                    obs.borrow_mut().add("echo_bytes_conserved", extra.len() as u64);
                } else {
                    obs.borrow_mut().violation("recv-bytes-differ", format!("A: peer wrote {} B, resumed poll_data delivered {} B that are not a prefix", more.len(), extra.len()));
                }
            }
            Ok(None) => {
                obs.borrow_mut().violation("recv-spurious-fin", format!("A: the read that was in flight during stop_sending completed with None although the peer wrote {} B and has not finished", more.len()));
                return Err("scenario stopped after a spurious FIN on stream A".into());
            }
            Err(e) => obs.borrow_mut().count(&format!("resume_after_stop_sending[{}]", rig::stream_err_kind(&e))),
        }
        q_recv(&h, "after-stop_sending", "after-stop_sending", id, obs);
        let seen = tokio::time::timeout(pace, rs.stopped()).await;
        match seen {
            Ok(Ok(code)) => check_outgoing(obs, "stop_sending", c, code.map(|v| v.into_inner())),
            Ok(Err(e)) => return Err(format!("rig: stopped(): {}", e)),
            Err(_) => obs.borrow_mut().violation("outgoing-stop_sending-lost[read-pending]", format!("stop_sending({:#x}) issued with a read in flight never reached the raw peer although the read completed", c)),
        }
        keep.hold(rs);
        keep.hold(rr);
        keep.hold(h);
    }

    // ---- A2: stop_sending while a read is in flight and STAYS in flight: poll -> Pending,
    // stop_sending(c), poll again -> still Pending, only then data arrives
    {
        stage.set("A2 stop_sending, read stays pending");
        let (mut us, mut r, id) = raw_uni_accepted::<B>(&pair, &mut aconn, &mut ord, &[0xA2]).await?;
        let mut got = Vec::new();
        read_n(&mut r, 1, &mut got, obs).await?;
        let fw = FlagWaker::new();
        let mut extra = Vec::new();
        match poll_until_pending(&mut r, &fw, &mut extra) {
            Drained::Pending => {}
            _ => return Err("rig: stream A2 ended instead of staying open".into()),
        }
        let c = *plan.codes.last().unwrap_or(&0x10c);
        match panics::catch(|| quic::RecvStream::stop_sending(&mut r, c)) {
            Ok(()) => {}
            Err(p) => obs.borrow_mut().violation("stop_sending-panics[read-pending]", format!("stop_sending({:#x}) panicked with a read in flight: {} at {}", c, p.msg, p.loc)),
        }
        // the caller polls again while nothing has arrived
        match poll_until_pending(&mut r, &fw, &mut extra) {
            Drained::Pending => obs.borrow_mut().count("stop_sending_then_read_still_pending"),
            _ => obs.borrow_mut().count("stop_sending_then_read_completed_at_once"),
        }
        q_recv(&r, "read-pending+stop_sending+polled", "read-pending", id, obs);
        let more = rand_bytes(&mut rng, 1, 64);
        let _ = us.write_all(&more).await;
        // the read completes (data, or an error because the stop discarded it)
        match tokio::time::timeout(pace * 4, rig::read_next(&mut r)).await {
            Ok(Ok(Some(b))) => rig::drain_buf(b, &mut extra),
            Ok(Ok(None)) => obs.borrow_mut().count("A2_read_after_stop[None]"),
            Ok(Err(e)) => obs.borrow_mut().count(&format!("A2_read_after_stop[{}]", rig::stream_err_kind(&e))),
            Err(_) => obs.borrow_mut().count("A2_read_after_stop[still pending]"),
        }
        let seen = tokio::time::timeout(pace * 4, us.stopped()).await;
        match seen {
            Ok(Ok(code)) => check_outgoing(obs, "stop_sending", c, code.map(|v| v.into_inner())),
            Ok(Err(e)) => return Err(format!("rig: stopped(): {}", e)),
            Err(_) => obs.borrow_mut().violation("outgoing-stop_sending-lost[read-stays-pending]", format!("stop_sending({:#x}) issued while a read was in flight, which then stayed pending for another poll, never reached the raw peer", c)),
        }
        keep.hold(us);
        keep.hold(r);
    }

    // ---- B: peer-opened uni: data-buffered, after-read, after-fin
    {
        stage.set("B accepted uni fin");
        let (mut us, mut r, id) = raw_uni_accepted::<B>(&pair, &mut aconn, &mut ord, &[0xB1]).await?;
        q_recv(&r, "fresh", "fresh", id, obs);
        let data = rand_bytes(&mut rng, 1, 3000);
        us.write_all(&data).await.map_err(|e| format!("raw write: {}", e))?;
        tokio::time::sleep(Duration::from_millis(5)).await;
        q_recv(&r, "data-buffered", "data-buffered", id, obs);
        let mut got = Vec::new();
        read_n(&mut r, 1 + data.len(), &mut got, obs).await?;
        let mut want = vec![0xB1];
        want.extend_from_slice(&data);
        check_recv_bytes(obs, "B data", &got, &want);
        q_recv(&r, "after-read", "after-read", id, obs);
        us.finish().map_err(|e| format!("raw finish: {}", e))?;
        match rig::read_next(&mut r).await {
            Ok(None) => {}
            other => return Err(format!("rig: expected FIN on stream B, got {:?}", other.map(|b| b.map(|b| b.len())).map_err(|e| rig::stream_err_class(&e)))),
        }
        obs.borrow_mut().note(format!("B: peer-opened uni stream {} read to FIN; recv_id() queried (after-fin)", id));
        q_recv(&r, "after-fin", "after-fin", id, obs);
        let again = rig::read_next(&mut r).await;
        obs.borrow_mut().count(&format!(
            "poll_data_after_fin[{}]",
            match &again {
                Ok(None) => "None".to_string(),
                Ok(Some(_)) => "data".to_string(),
                Err(e) => rig::stream_err_kind(e).to_string(),
            }
        ));
        q_recv(&r, "after-fin+poll", "after-fin", id, obs);
        keep.hold(us);
        keep.hold(r);
    }

    // ---- C: peer-opened uni: read pending, then peer reset
    {
        stage.set("C accepted uni reset");
        let (mut us, mut r, id) = raw_uni_accepted::<B>(&pair, &mut aconn, &mut ord, &[0xC1]).await?;
        let mut got = Vec::new();
        read_n(&mut r, 1, &mut got, obs).await?;
        let fw = FlagWaker::new();
        match poll_until_pending(&mut r, &fw, &mut got) {
            Drained::Pending => {}
            _ => return Err("rig: stream C ended early".into()),
        }
        q_recv(&r, "read-pending", "read-pending", id, obs);
        let c = plan.codes[1];
        us.reset(rig::vi(c)).map_err(|e| format!("raw reset: {}", e))?;
        let res = read_until_err(&mut r).await;
        check_stream_err(obs, "reset", "poll_data", res.as_ref().map(|n| format!("FIN after {} B", n)).map_err(|e| e), Want::Terminated(c));
        obs.borrow_mut().note(format!("C: peer reset({:#x}) stream {} while a read was pending; recv_id() queried (after-reset)", c, id));
        q_recv(&r, "after-reset", "after-reset", id, obs);
        keep.hold(us);
        keep.hold(r);
    }

    // ---- D: peer-opened uni: stop_sending while idle, then poll
    {
        stage.set("D accepted uni stop_sending");
        let (us, mut r, id) = raw_uni_accepted::<B>(&pair, &mut aconn, &mut ord, &[0xD1]).await?;
        let mut got = Vec::new();
        read_n(&mut r, 1, &mut got, obs).await?;
        let c = plan.codes[2];
        match panics::catch(|| quic::RecvStream::stop_sending(&mut r, c)) {
            Ok(()) => {}
            Err(p) => obs.borrow_mut().violation("stop_sending-panics[idle]", format!("stop_sending({:#x}) panicked: {} at {}", c, p.msg, p.loc)),
        }
        q_recv(&r, "after-stop_sending", "after-stop_sending", id, obs);
        match tokio::time::timeout(pace, us.stopped()).await {
            Ok(Ok(code)) => check_outgoing(obs, "stop_sending", c, code.map(|v| v.into_inner())),
            Ok(Err(e)) => return Err(format!("rig: stopped(): {}", e)),
            Err(_) => obs.borrow_mut().violation("outgoing-stop_sending-lost[idle]", format!("stop_sending({:#x}) never reached the raw peer", c)),
        }
        let after = rig::read_next(&mut r).await;
        obs.borrow_mut().count(&format!(
            "poll_data_after_stop_sending[{}]",
            match &after {
                Ok(None) => "None".to_string(),
                Ok(Some(_)) => "data".to_string(),
                Err(e) => rig::stream_err_kind(e).to_string(),
            }
        ));
        q_recv(&r, "after-stop_sending+poll", "after-stop_sending", id, obs);
        keep.hold(us);
        keep.hold(r);
    }

    // ---- E: adapter-opened bidi: write-buffered / write-pending / read-pending / finish / FIN
    {
        stage.set("E opened bidi");
        let b = rig::open_bidi::<B>(&mut aconn).await.map_err(|e| format!("poll_open_bidi: {}", rig::stream_err_class(&e)))?;
        let id = pair.stream_id(true, true, ord.a_bi);
        ord.a_bi += 1;
        let mut h = Halves::new(b, plan.split);
        q_send::<B, _>(&h, "fresh", "fresh", id, obs);
        q_recv(&h, "fresh", "fresh", id, obs);
        let payload = rng.bytes((plan.small * 3 + 5) as usize);
        quic::SendStream::<B>::send_data(&mut h, data_frame::<B>(&payload, &mut rng)).map_err(|e| format!("send_data: {}", rig::stream_err_class(&e)))?;
        q_send::<B, _>(&h, "write-buffered", "write-buffered", id, obs);
        let fw = FlagWaker::new();
        match rig::poll_once(&fw, |cx| quic::SendStream::<B>::poll_ready(&mut h, cx)) {
            Poll::Pending => {
                obs.borrow_mut().note(format!("E: adapter-opened bidi stream {}: {} B DATA frame against a {} B stream window -> poll_ready Pending", id, payload.len(), plan.small));
                q_send::<B, _>(&h, "write-pending", "write-pending", id, obs);
                q_recv(&h, "write-pending", "write-pending", id, obs);
            }
            Poll::Ready(r) => {
                obs.borrow_mut().count("write_pending_state_not_reached");
                r.map_err(|e| format!("poll_ready: {}", rig::stream_err_class(&e)))?;
            }
        }
        let fwr = FlagWaker::new();
        let mut got = Vec::new();
        match poll_until_pending(&mut h, &fwr, &mut got) {
            Drained::Pending => {
                q_recv(&h, "read-pending", "read-pending", id, obs);
                q_send::<B, _>(&h, "read-pending+write-pending", "read-pending", id, obs);
            }
            _ => return Err("rig: stream E receive side ended early".into()),
        }
        // peer accepts and reads everything while the adapter completes the write
        let expect = rf::frame(rf::T_DATA, &payload);
        let raw_side = async {
            let (rs, mut rr) = raw.accept_bi().await.map_err(|e| format!("raw accept_bi: {}", e))?;
            let qid: u64 = rr.id().into();
            if qid != id {
                return Err(format!("rig: raw accepted bidi {} expected {}", qid, id));
            }
            let mut buf = vec![0u8; expect.len()];
            rr.read_exact(&mut buf).await.map_err(|e| format!("raw read_exact: {}", e))?;
            Ok::<_, String>((rs, rr, buf))
        };
        let (w, rawr) = tokio::join!(rig::ready::<B, _>(&mut h), raw_side);
        w.map_err(|e| format!("poll_ready: {}", rig::stream_err_class(&e)))?;
        let (mut rs, mut rr, buf) = rawr?;
        {
            let mut o = obs.borrow_mut();
            o.evaluations += 1;
            if buf == expect {
                o.add("bytes_conserved", buf.len() as u64);
                o.count("frames_sent");
            } else {
                o.violation("conservation[bytes-differ]", format!("E: raw peer read {} B that differ from the encoded frame at offset {}", buf.len(), first_diff(&buf, &expect)));
            }
        }
        q_send::<B, _>(&h, "write-complete", "write-complete", id, obs);
        q_recv(&h, "read-pending", "read-pending", id, obs);
        rig::finish::<B, _>(&mut h).await.map_err(|e| format!("poll_finish: {}", rig::stream_err_class(&e)))?;
        q_send::<B, _>(&h, "after-finish", "after-finish", id, obs);
        match rr.read_chunk(16, true).await {
            Ok(None) => {}
            other => return Err(format!("rig: raw expected FIN on stream E, got {:?}", other.map(|c| c.map(|c| c.bytes.len())))),
        }
        let reply = rand_bytes(&mut rng, 1, 2000);
        rs.write_all(&reply).await.map_err(|e| format!("raw write: {}", e))?;
        rs.finish().map_err(|e| format!("raw finish: {}", e))?;
        match read_echo(&mut h, id, obs).await {
            Ok(more) => {
                got.extend(more);
                check_recv_bytes(obs, "E reply", &got, &reply);
            }
            Err(class) => return Err(format!("rig: reading reply on stream E: {}", class)),
        }
        q_send::<B, _>(&h, "after-fin", "after-fin", id, obs);
        keep.hold(rs);
        keep.hold(rr);
        keep.hold(h);
    }

    // ---- F: adapter-opened uni via opener(): write-pending, then local reset
    {
        stage.set("F opened uni reset");
        let mut op = rig::opener::<B>(&aconn);
        let mut s = rig::opener_open_send::<B>(&mut op).await.map_err(|e| format!("poll_open_send: {}", rig::stream_err_class(&e)))?;
        let id = pair.stream_id(true, false, ord.a_uni);
        ord.a_uni += 1;
        q_send::<B, _>(&s, "fresh", "fresh", id, obs);
        let payload = rng.bytes((plan.small * 2 + 9) as usize);
        quic::SendStream::<B>::send_data(&mut s, data_frame::<B>(&payload, &mut rng)).map_err(|e| format!("send_data: {}", rig::stream_err_class(&e)))?;
        let fw = FlagWaker::new();
        if rig::poll_once(&fw, |cx| quic::SendStream::<B>::poll_ready(&mut s, cx)).is_pending() {
            q_send::<B, _>(&s, "write-pending", "write-pending", id, obs);
        } else {
            obs.borrow_mut().count("write_pending_state_not_reached");
        }
        let c = plan.codes[3];
        quic::SendStream::<B>::reset(&mut s, c);
        q_send::<B, _>(&s, "after-local-reset", "after-local-reset", id, obs);
        let mut rr = raw.accept_uni().await.map_err(|e| format!("raw accept_uni: {}", e))?;
        let qid: u64 = rr.id().into();
        if qid != id {
            return Err(format!("rig: raw accepted uni {} expected {}", qid, id));
        }
        let (_, end) = raw_read(&mut rr, &Reader::Fast).await;
        match end {
            ReadEnd::Reset(c2) => check_outgoing(obs, "reset", c, Some(c2)),
            ReadEnd::Fin => check_outgoing(obs, "reset", c, None),
            ReadEnd::Err(e) => return Err(format!("rig: raw read on stream F: {}", e)),
        }
        keep.hold(rr);
        keep.hold(s);
    }

    // ---- G: adapter-opened uni: peer stops while the write is pending
    {
        stage.set("G opened uni peer stop");
        let mut s = rig::open_send::<B>(&mut aconn).await.map_err(|e| format!("poll_open_send: {}", rig::stream_err_class(&e)))?;
        let id = pair.stream_id(true, false, ord.a_uni);
        ord.a_uni += 1;
        let payload = rng.bytes((plan.small * 2 + 3) as usize);
        quic::SendStream::<B>::send_data(&mut s, data_frame::<B>(&payload, &mut rng)).map_err(|e| format!("send_data: {}", rig::stream_err_class(&e)))?;
        let fw = FlagWaker::new();
        let first = rig::poll_once(&fw, |cx| quic::SendStream::<B>::poll_ready(&mut s, cx));
        let mut rr = raw.accept_uni().await.map_err(|e| format!("raw accept_uni: {}", e))?;
        let qid: u64 = rr.id().into();
        if qid != id {
            return Err(format!("rig: raw accepted uni {} expected {}", qid, id));
        }
        let c = plan.codes[4];
        rr.stop(rig::vi(c)).map_err(|e| format!("raw stop: {}", e))?;
        if first.is_pending() {
            let res = rig::ready::<B, _>(&mut s).await;
            check_stream_err(obs, "stop", "poll_ready", res.as_ref().map(|_| "Ok (whole frame written)".to_string()).map_err(|e| e), Want::Terminated(c));
            obs.borrow_mut().note(format!("G: peer stop({:#x}) on stream {} while poll_ready was Pending; send_id() queried (after-peer-stop)", c, id));
            q_send::<B, _>(&s, "after-peer-stop", "after-peer-stop", id, obs);
        } else {
            obs.borrow_mut().count("write_pending_state_not_reached");
        }
        keep.hold(rr);
        keep.hold(s);
    }

    // ---- H: connection closed by the peer with a read pending
    {
        stage.set("H conn close");
        let (us, mut r, id) = raw_uni_accepted::<B>(&pair, &mut aconn, &mut ord, &[0xE1]).await?;
        let mut got = Vec::new();
        read_n(&mut r, 1, &mut got, obs).await?;
        let fw = FlagWaker::new();
        match poll_until_pending(&mut r, &fw, &mut got) {
            Drained::Pending => {}
            _ => return Err("rig: stream H ended early".into()),
        }
        let mut s = rig::open_send::<B>(&mut aconn).await.map_err(|e| format!("poll_open_send: {}", rig::stream_err_class(&e)))?;
        let sid = pair.stream_id(true, false, ord.a_uni);
        let c = plan.codes[0];
        raw.close(rig::vi(c), b"bye");
        let res = read_until_err(&mut r).await;
        check_stream_err(obs, "close", "poll_data", res.as_ref().map(|n| format!("FIN after {} B", n)).map_err(|e| e), Want::AppClose(c));
        q_recv(&r, "after-conn-close", "after-conn-close", id, obs);
        q_send::<B, _>(&s, "after-conn-close", "after-conn-close", sid, obs);
        let _ = quic::SendStream::<B>::send_data(&mut s, data_frame::<B>(b"x", &mut rng));
        let res = rig::ready::<B, _>(&mut s).await;
        check_stream_err(obs, "close", "poll_ready", res.as_ref().map(|_| "Ok".to_string()).map_err(|e| e), Want::AppClose(c));
        q_send::<B, _>(&s, "after-conn-close+write", "after-conn-close", sid, obs);
        keep.hold(us);
        keep.hold(r);
        keep.hold(s);
    }
    stage.set("teardown");
    drop(keep);
    Ok(())
}

// ---------------------------------------------------------------------------------------------
// error mapping

#[derive(Clone, Debug)]
struct ErrPlan {
    kind: &'static str,
    cfg: RigCfg,
    seg_payload: bool,
    /// close / timeout: operations already pending when it happens (else issued afterwards)
    ops_pending_first: bool,
    code: u64,
    seed: u64,
}

fn err_plan(index: u64, seed: u64) -> ErrPlan {
    let mut rng = Rng::new(seed);
    let kind = ["close", "reset", "stop", "timeout"][(index % 4) as usize];
    let round = index / 4;
    let mut cfg = RigCfg::roomy(rng.bool());
    let all = codes();
    let code = if round < all.len() as u64 * 2 { all[(round / 2) as usize % all.len()] } else { pick_code(&mut rng) };
    let ops_pending_first = round % 2 == 0;
    match kind {
        "close" => {
            cfg.raw.stream_rwnd = 64;
            cfg.adapter.datagrams = true;
            cfg.raw.datagrams = true;
        }
        "stop" => {
            cfg.raw.stream_rwnd = *rng.pick(&[7u64, 64, 1024, 1 << 20]);
        }
        "timeout" => {
            cfg.raw.stream_rwnd = 64;
            let ms = rng.range(300, 500);
            match rng.below(3) {
                0 => cfg.adapter.idle_ms = ms,
                1 => cfg.raw.idle_ms = ms,
                _ => {
                    cfg.adapter.idle_ms = ms;
                    cfg.raw.idle_ms = ms + 50;
                }
            }
        }
        _ => {}
    }
    ErrPlan {
        kind,
        cfg,
        seg_payload: rng.bool(),
        ops_pending_first,
        code,
        seed: rng.next(),
    }
}

/// close and timeout share the choreography: a set of adapter operations is pending (or issued
/// afterwards) when the connection dies; each must report `want`.
async fn conn_death_scenario<B: Payload>(plan: &ErrPlan, obs: &ObsCell, stage: &Stage) -> Result<(), String> {
    use h3_datagram::quic_traits::{DatagramConnectionExt, RecvDatagram, SendDatagram, SendDatagramErrorIncoming};
    stage.set("connect");
    let pair = rig::connect(&plan.cfg).await?;
    obs.borrow_mut().count("connections");
    let mut aconn = AConn::new(pair.adapter.clone());
    let raw = pair.raw.clone();
    let mut rng = Rng::new(plan.seed);
    let mut ord = Order::default();
    let mut keep = Keep::default();
    let cause = plan.kind;
    let want = if cause == "close" { Want::AppClose(plan.code) } else { Want::Timeout };
    let with_dgram = plan.cfg.adapter.datagrams;

    stage.set("setup streams");
    // a stream to read from
    let (us, mut r, _rid) = raw_uni_accepted::<B>(&pair, &mut aconn, &mut ord, &[0x11]).await?;
    let mut got = Vec::new();
    read_n(&mut r, 1, &mut got, obs).await?;
    // a stream whose write blocks (raw stream window 64, raw never reads)
    let mut w = rig::open_send::<B>(&mut aconn).await.map_err(|e| format!("poll_open_send: {}", rig::stream_err_class(&e)))?;
    quic::SendStream::<B>::send_data(&mut w, data_frame::<B>(&rng.bytes(1000), &mut rng)).map_err(|e| format!("send_data: {}", rig::stream_err_class(&e)))?;
    // an idle bidi stream used after the event
    let mut idle = rig::open_bidi::<B>(&mut aconn).await.map_err(|e| format!("poll_open_bidi: {}", rig::stream_err_class(&e)))?;
    let mut dg_recv = <AConn as DatagramConnectionExt<B>>::recv_datagram_handler(&aconn);
    let mut dg_send = <AConn as DatagramConnectionExt<B>>::send_datagram_handler(&aconn);

    let fw = FlagWaker::new();
    if plan.ops_pending_first {
        stage.set("make operations pending");
        if !matches!(rig::poll_once(&fw, |cx| <AConn as quic::Connection<B>>::poll_accept_bidi(&mut aconn, cx)), Poll::Pending) {
            return Err("rig: poll_accept_bidi was not Pending".into());
        }
        if !matches!(rig::poll_once(&fw, |cx| <AConn as quic::Connection<B>>::poll_accept_recv(&mut aconn, cx)), Poll::Pending) {
            return Err("rig: poll_accept_recv was not Pending".into());
        }
        match poll_until_pending(&mut r, &fw, &mut got) {
            Drained::Pending => {}
            _ => return Err("rig: read stream ended early".into()),
        }
        if !rig::poll_once(&fw, |cx| quic::SendStream::<B>::poll_ready(&mut w, cx)).is_pending() {
            obs.borrow_mut().count("write_pending_state_not_reached");
        }
        if with_dgram && !rig::poll_once(&fw, |cx| dg_recv.poll_incoming_datagram(cx)).is_pending() {
            return Err("rig: poll_incoming_datagram was not Pending".into());
        }
    }
    stage.set(format!("peer {}", cause));
    if cause == "close" {
        raw.close(rig::vi(plan.code), b"closing");
        if !plan.ops_pending_first {
            // rig synchronisation only: wait until the adapter's Quinn connection saw the close
            pair.adapter.closed().await;
        }
        obs.borrow_mut().note(format!("peer close({:#x}); operations {}", plan.code, if plan.ops_pending_first { "were pending" } else { "issued afterwards" }));
    } else {
        // both sides fall silent; keep-alives are off
        if !plan.ops_pending_first {
            pair.adapter.closed().await;
        }
        obs.borrow_mut().note(format!("idle timeout (adapter {} ms / raw {} ms); operations {}", plan.cfg.adapter.idle_ms, plan.cfg.raw.idle_ms, if plan.ops_pending_first { "were pending" } else { "issued afterwards" }));
    }
    let when = if plan.ops_pending_first { "pending" } else { "after" };
    obs.borrow_mut().count(&format!("conn_death[{}:ops-{}]", cause, when));

    stage.set("collect accept_bidi");
    let res = rig::accept_bidi::<B>(&mut aconn).await;
    check_conn_err(obs, cause, "poll_accept_bidi", &res, want);
    stage.set("collect accept_recv");
    let res = rig::accept_recv::<B>(&mut aconn).await;
    check_conn_err(obs, cause, "poll_accept_recv", &res, want);
    stage.set("collect poll_data");
    let res = read_until_err(&mut r).await;
    check_stream_err(obs, cause, "poll_data", res.as_ref().map(|n| format!("FIN after {} B", n)).map_err(|e| e), want);
    if res.is_err() {
        read_again_after_error(&mut r, cause, obs);
    }
    stage.set("collect poll_ready");
    let res = rig::ready::<B, _>(&mut w).await;
    check_stream_err(obs, cause, "poll_ready", res.as_ref().map(|_| "Ok".to_string()).map_err(|e| e), want);
    if res.is_err() {
        let later = quic::SendStream::<B>::send_data(&mut w, data_frame::<B>(b"again", &mut rng));
        let rdy = if later.is_ok() { Some(rig::ready::<B, _>(&mut w).await) } else { None };
        check_write_after_error(obs, cause, &later, rdy.as_ref(), want);
    }
    stage.set("open after");
    let res = rig::open_bidi::<B>(&mut aconn).await;
    check_stream_err(obs, cause, "poll_open_bidi", res.as_ref().map(|_| "a stream".to_string()).map_err(|e| e), want);
    let res = rig::open_send::<B>(&mut aconn).await;
    check_stream_err(obs, cause, "poll_open_send", res.as_ref().map(|_| "a stream".to_string()).map_err(|e| e), want);
    let mut op = rig::opener::<B>(&aconn);
    let res = rig::opener_open_bidi::<B>(&mut op).await;
    check_stream_err(obs, cause, "opener.poll_open_bidi", res.as_ref().map(|_| "a stream".to_string()).map_err(|e| e), want);
    let res = rig::opener_open_send::<B>(&mut op).await;
    check_stream_err(obs, cause, "opener.poll_open_send", res.as_ref().map(|_| "a stream".to_string()).map_err(|e| e), want);
    // a second opener, cloned from the first: the same outcome through both paths
    let mut op2 = op.clone();
    let res = rig::opener_open_send::<B>(&mut op2).await;
    check_stream_err(obs, cause, "cloned opener.poll_open_send", res.as_ref().map(|_| "a stream".to_string()).map_err(|e| e), want);
    let res = rig::opener_open_bidi::<B>(&mut op2).await;
    check_stream_err(obs, cause, "cloned opener.poll_open_bidi", res.as_ref().map(|_| "a stream".to_string()).map_err(|e| e), want);
    stage.set("idle stream after");
    // an untouched stream: send_data only buffers, poll_ready must report the connection error
    let sd = quic::SendStream::<B>::send_data(&mut idle, data_frame::<B>(b"late", &mut rng));
    match sd {
        Ok(()) => {
            let res = rig::ready::<B, _>(&mut idle).await;
            check_stream_err(obs, cause, "send_data+poll_ready", res.as_ref().map(|_| "Ok".to_string()).map_err(|e| e), want);
        }
        Err(e) => check_stream_err(obs, cause, "send_data", Err(&e), want),
    }
    let res = read_until_err(&mut idle).await;
    check_stream_err(obs, cause, "poll_data(fresh bidi)", res.as_ref().map(|n| format!("FIN after {} B", n)).map_err(|e| e), want);
    let fin = rig::finish::<B, _>(&mut idle).await;
    obs.borrow_mut().count(&format!("poll_finish_after_conn_death[{}]", match &fin { Ok(()) => "Ok", Err(e) => rig::stream_err_kind(e) }));
    if with_dgram {
        stage.set("datagram paths");
        let res = std::future::poll_fn(|cx| dg_recv.poll_incoming_datagram(cx)).await;
        check_conn_err(obs, cause, "poll_incoming_datagram", &res, want);
        let d = h3_datagram::datagram::Datagram::new(StreamId::try_from(0u64).unwrap(), B::make(b"dg", &mut rng)).encode();
        let res = dg_send.send_datagram(d);
        let mut o = obs.borrow_mut();
        o.evaluations += 1;
        match res {
            Err(SendDatagramErrorIncoming::ConnectionError(e)) => match conn_matches(&e, want) {
                Ok(()) => {
                    o.count(&format!("error_mapping_checked[{}]", cause));
                    o.count(&format!("error_mapping[{}->send_datagram:{}]", cause, want.kind()));
                }
                Err(m) => o.violation(format!("error-mapping[{}->send_datagram:{}]", cause, m), format!("send_datagram after peer {} failed with {}", cause, rig::conn_err_class(&e))),
            },
            Err(other) => o.violation(format!("error-mapping[{}->send_datagram:not-a-connection-error]", cause), format!("send_datagram after peer {} failed with {:?}", cause, other)),
            Ok(()) => o.violation(format!("error-mapping[{}->send_datagram:no-error]", cause), format!("send_datagram after peer {} returned Ok", cause)),
        }
    }
    keep.hold(us);
    keep.hold(r);
    keep.hold(w);
    keep.hold(idle);
    Ok(())
}

async fn reset_scenario<B: Payload>(plan: &ErrPlan, obs: &ObsCell, stage: &Stage) -> Result<(), String> {
    stage.set("connect");
    let pair = rig::connect(&plan.cfg).await?;
    obs.borrow_mut().count("connections");
    let mut aconn = AConn::new(pair.adapter.clone());
    let mut rng = Rng::new(plan.seed);
    let mut ord = Order::default();
    let mut keep = Keep::default();
    let mut cs = codes();
    cs.push(plan.code);
    cs.push(pick_code(&mut rng));
    for (i, c) in cs.into_iter().enumerate() {
        let point = (i + rng.usize(3)) % 3;
        let bidi = rng.bool();
        stage.set(format!("reset #{} point {} bidi {}", i, point, bidi));
        obs.borrow_mut().count(&format!("reset_point[{}]", ["before-any-data", "read-pending", "data-unread"][point]));
        let tag = [0x20u8 + i as u8];
        // open on the raw side
        let (mut rs, rr_keep, id) = if bidi {
            let (rs, rr) = pair.raw.open_bi().await.map_err(|e| format!("raw open_bi: {}", e))?;
            let id = pair.stream_id(false, true, ord.r_bi);
            ord.r_bi += 1;
            (rs, Some(rr), id)
        } else {
            let rs = pair.raw.open_uni().await.map_err(|e| format!("raw open_uni: {}", e))?;
            let id = pair.stream_id(false, false, ord.r_uni);
            ord.r_uni += 1;
            (rs, None, id)
        };
        let qid: u64 = rs.id().into();
        if qid != id {
            return Err(format!("rig: raw stream id {} expected {}", qid, id));
        }
        let n_extra = 1 + rng.usize(200);
        let extra = rng.bytes(n_extra);
        match point {
            0 => rs.reset(rig::vi(c)).map_err(|e| format!("raw reset: {}", e))?,
            1 => rs.write_all(&tag).await.map_err(|e| format!("raw write: {}", e))?,
            _ => {
                rs.write_all(&tag).await.map_err(|e| format!("raw write: {}", e))?;
                rs.write_all(&extra).await.map_err(|e| format!("raw write: {}", e))?;
            }
        }
        // accept on the adapter side
        let mut h: Box<dyn DynRecv> = if bidi {
            let b = rig::accept_bidi::<B>(&mut aconn).await.map_err(|e| format!("poll_accept_bidi: {}", rig::conn_err_class(&e)))?;
            Box::new(Halves::new(b, rng.bool()))
        } else {
            Box::new(rig::accept_recv::<B>(&mut aconn).await.map_err(|e| format!("poll_accept_recv: {}", rig::conn_err_class(&e)))?)
        };
        q_recv(&DynRef(&*h), "fresh", "fresh", id, obs);
        match point {
            0 => {}
            1 => {
                let mut got = Vec::new();
                read_n(&mut DynMut(&mut *h), 1, &mut got, obs).await?;
                let fw = FlagWaker::new();
                match poll_until_pending(&mut DynMut(&mut *h), &fw, &mut got) {
                    Drained::Pending => {}
                    _ => return Err("rig: stream ended before the reset".into()),
                }
                q_recv(&DynRef(&*h), "read-pending", "read-pending", id, obs);
                rs.reset(rig::vi(c)).map_err(|e| format!("raw reset: {}", e))?;
            }
            _ => {
                rs.reset(rig::vi(c)).map_err(|e| format!("raw reset: {}", e))?;
                tokio::time::sleep(Duration::from_millis(rng.below(4))).await;
            }
        }
        let res = read_until_err(&mut DynMut(&mut *h)).await;
        check_stream_err(obs, "reset", "poll_data", res.as_ref().map(|n| format!("FIN after {} B", n)).map_err(|e| e), Want::Terminated(c));
        if res.is_err() {
            read_again_after_error(&mut DynMut(&mut *h), "reset", obs);
        }
        q_recv(&DynRef(&*h), "after-reset", "after-reset", id, obs);
        keep.hold(rs);
        keep.hold(rr_keep);
        keep.hold(h);
    }
    obs.borrow_mut().note("peer reset(c) for every code at three points (before any data / read pending / data unread)");
    Ok(())
}

/// object-safe view of the receive side (bidi or uni) for the reset scenario
trait DynRecv {
    fn poll_data_dyn(&mut self, cx: &mut Context<'_>) -> Poll<Result<Option<Bytes>, StreamErrorIncoming>>;
    fn recv_id_dyn(&self) -> StreamId;
}
impl<B: Buf> DynRecv for Halves<B> {
    fn poll_data_dyn(&mut self, cx: &mut Context<'_>) -> Poll<Result<Option<Bytes>, StreamErrorIncoming>> {
        quic::RecvStream::poll_data(self, cx)
    }
    fn recv_id_dyn(&self) -> StreamId {
        quic::RecvStream::recv_id(self)
    }
}
impl DynRecv for h3_quinn::RecvStream {
    fn poll_data_dyn(&mut self, cx: &mut Context<'_>) -> Poll<Result<Option<Bytes>, StreamErrorIncoming>> {
        quic::RecvStream::poll_data(self, cx)
    }
    fn recv_id_dyn(&self) -> StreamId {
        quic::RecvStream::recv_id(self)
    }
}
struct DynMut<'a>(&'a mut dyn DynRecv);
struct DynRef<'a>(&'a dyn DynRecv);
impl quic::RecvStream for DynMut<'_> {
    type Buf = Bytes;
    fn poll_data(&mut self, cx: &mut Context<'_>) -> Poll<Result<Option<Bytes>, StreamErrorIncoming>> {
        self.0.poll_data_dyn(cx)
    }
    fn stop_sending(&mut self, _error_code: u64) {}
    fn recv_id(&self) -> StreamId {
        self.0.recv_id_dyn()
    }
}
impl quic::RecvStream for DynRef<'_> {
    type Buf = Bytes;
    fn poll_data(&mut self, _cx: &mut Context<'_>) -> Poll<Result<Option<Bytes>, StreamErrorIncoming>> {
        unreachable!("DynRef is only used for id queries")
    }
    fn stop_sending(&mut self, _error_code: u64) {}
    fn recv_id(&self) -> StreamId {
        self.0.recv_id_dyn()
    }
}

async fn stop_scenario<B: Payload>(plan: &ErrPlan, obs: &ObsCell, stage: &Stage) -> Result<(), String> {
    stage.set("connect");
    let pair = rig::connect(&plan.cfg).await?;
    obs.borrow_mut().count("connections");
    let mut aconn = AConn::new(pair.adapter.clone());
    let raw = pair.raw.clone();
    let mut rng = Rng::new(plan.seed);
    let mut ord = Order::default();
    let mut keep = Keep::default();
    let window = plan.cfg.raw.stream_rwnd;
    let mut cs = codes();
    cs.push(plan.code);
    cs.push(pick_code(&mut rng));
    for (i, c) in cs.into_iter().enumerate() {
        let bidi = rng.bool();
        let blocked = rng.bool();
        stage.set(format!("stop #{} bidi {} blocked {}", i, bidi, blocked));
        // adapter opens and writes a first small frame so that the peer can accept
        let (mut s, id): (Box<dyn DynSend<B>>, u64) = if bidi {
            let b = rig::open_bidi::<B>(&mut aconn).await.map_err(|e| format!("poll_open_bidi: {}", rig::stream_err_class(&e)))?;
            let id = pair.stream_id(true, true, ord.a_bi);
            ord.a_bi += 1;
            (Box::new(Halves::new(b, rng.bool())), id)
        } else {
            let s = rig::open_send::<B>(&mut aconn).await.map_err(|e| format!("poll_open_send: {}", rig::stream_err_class(&e)))?;
            let id = pair.stream_id(true, false, ord.a_uni);
            ord.a_uni += 1;
            (Box::new(s), id)
        };
        let n_first = rng.usize(3);
        let first = rng.bytes(n_first);
        s.send_frame(data_frame::<B>(&first, &mut rng)).map_err(|e| format!("send_data: {}", rig::stream_err_class(&e)))?;
        let raw_accept = async {
            if bidi {
                let (rs, rr) = raw.accept_bi().await.map_err(|e| format!("raw accept_bi: {}", e))?;
                Ok::<_, String>((Some(rs), rr))
            } else {
                Ok((None, raw.accept_uni().await.map_err(|e| format!("raw accept_uni: {}", e))?))
            }
        };
        let (w, acc) = tokio::join!(std::future::poll_fn(|cx| s.poll_ready_dyn(cx)), raw_accept);
        w.map_err(|e| format!("poll_ready of the first frame: {}", rig::stream_err_class(&e)))?;
        let (rs, mut rr) = acc?;
        let qid: u64 = rr.id().into();
        if qid != id {
            return Err(format!("rig: raw accepted stream {} expected {}", qid, id));
        }
        let mut first_err: Option<(&'static str, StreamErrorIncoming)> = None;
        if blocked && window <= 1024 {
            // a write larger than the window is left pending, then the peer stops
            let big = rng.bytes(window as usize * 2 + 600);
            s.send_frame(data_frame::<B>(&big, &mut rng)).map_err(|e| format!("send_data: {}", rig::stream_err_class(&e)))?;
            let fw = FlagWaker::new();
            match rig::poll_once(&fw, |cx| s.poll_ready_dyn(cx)) {
                Poll::Pending => {
                    obs.borrow_mut().count("stop_point[write-blocked]");
                    rr.stop(rig::vi(c)).map_err(|e| format!("raw stop: {}", e))?;
                    if let Err(e) = std::future::poll_fn(|cx| s.poll_ready_dyn(cx)).await {
                        first_err = Some(("poll_ready", e));
                    }
                }
                Poll::Ready(Ok(())) => {
                    obs.borrow_mut().count("write_pending_state_not_reached");
                    rr.stop(rig::vi(c)).map_err(|e| format!("raw stop: {}", e))?;
                }
                Poll::Ready(Err(e)) => return Err(format!("rig: write failed before the stop: {}", rig::stream_err_class(&e))),
            }
        } else {
            obs.borrow_mut().count("stop_point[between-writes]");
            rr.stop(rig::vi(c)).map_err(|e| format!("raw stop: {}", e))?;
        }
        // keep writing until the stop surfaces
        let mut n = 0u64;
        while first_err.is_none() {
            n += 1;
            if n > 20_000 {
                break;
            }
            let n_chunk = 1 + rng.usize(64);
            let chunk = rng.bytes(n_chunk);
            if let Err(e) = s.send_frame(data_frame::<B>(&chunk, &mut rng)) {
                first_err = Some(("send_data", e));
                break;
            }
            if let Err(e) = std::future::poll_fn(|cx| s.poll_ready_dyn(cx)).await {
                first_err = Some(("poll_ready", e));
                break;
            }
            if n % 16 == 0 {
                tokio::time::sleep(Duration::from_millis(1)).await;
            } else {
                tokio::task::yield_now().await;
            }
        }
        match &first_err {
            None => obs.borrow_mut().inconclusive(format!("peer stop({:#x}) did not surface after 20000 further writes", c)),
            Some((path, e)) => check_stream_err(obs, "stop", path, Err(e), Want::Terminated(c)),
        }
        q_send::<B, _>(&DynSendRef(&*s), "after-peer-stop", "after-peer-stop", id, obs);
        // a further write attempt on the stopped stream
        if first_err.is_some() {
            let later = s.send_frame(data_frame::<B>(b"again", &mut rng));
            let rdy = if later.is_ok() { Some(std::future::poll_fn(|cx| s.poll_ready_dyn(cx)).await) } else { None };
            check_write_after_error(obs, "stop", &later, rdy.as_ref(), Want::Terminated(c));
        }
        let fin = std::future::poll_fn(|cx| s.poll_finish_dyn(cx)).await;
        obs.borrow_mut().count(&format!("poll_finish_after_peer_stop[{}]", match &fin { Ok(()) => "Ok", Err(e) => rig::stream_err_kind(e) }));
        q_send::<B, _>(&DynSendRef(&*s), "after-peer-stop+finish", "after-peer-stop", id, obs);
        keep.hold(rs);
        keep.hold(rr);
        keep.hold(s);
    }
    obs.borrow_mut().note(format!("peer stop(c) for every code, write blocked by a {} B window or between writes", window));
    Ok(())
}

// ---------------------------------------------------------------------------------------------
// unframed writes (`SendStreamUnframed::poll_send`: WebTransport payloads, AsyncWrite)

#[derive(Clone, Debug)]
struct UnfPlan {
    cfg: RigCfg,
    total: usize,
    max_piece: usize,
    slow_reader: bool,
    code: u64,
    seed: u64,
}

fn unf_plan(index: u64, seed: u64) -> UnfPlan {
    let mut rng = Rng::new(seed);
    let mut cfg = RigCfg::roomy(index % 2 == 0);
    cfg.raw.stream_rwnd = *rng.pick(&[7u64, 64, 300, 1024, 1 << 20]);
    UnfPlan {
        cfg,
        total: *rng.pick(&[0usize, 1, 63, 1000, 5000, 40_000]),
        max_piece: *rng.pick(&[1usize, 7, 100, 4096, 1 << 16]),
        slow_reader: rng.bool(),
        code: pick_code(&mut rng),
        seed: rng.next(),
    }
}

/// One unframed write of `data` piece by piece; returns the bytes the adapter reported as accepted.
async fn unframed_write_all<B: Payload, S: quic::SendStreamUnframed<B>>(s: &mut S, data: &[u8], max_piece: usize, rng: &mut Rng, obs: &ObsCell) -> Result<usize, (usize, StreamErrorIncoming)> {
    let mut off = 0usize;
    while off < data.len() {
        let k = (1 + rng.usize(max_piece)).min(data.len() - off);
        let mut piece: &[u8] = &data[off..off + k];
        let before = piece.len();
        let r = std::future::poll_fn(|cx| s.poll_send(cx, &mut piece)).await;
        match r {
            Ok(n) => {
                let advanced = before - piece.len();
                let mut o = obs.borrow_mut();
                o.evaluations += 1;
                if n != advanced {
                    o.violation("poll_send-count-differs-from-advance", format!("poll_send returned {} but advanced the buffer by {}", n, advanced));
                }
                if n == 0 {
                    o.violation("poll_send-accepted-nothing", format!("poll_send returned Ok(0) for a {}-byte piece", before));
                    return Ok(off);
                }
                if n < before {
                    o.count("unframed_partial_writes");
                }
                o.count("unframed_pieces_accepted");
                off += n;
            }
            Err(e) => return Err((off, e)),
        }
    }
    Ok(off)
}

async fn unframed_scenario<B: Payload>(plan: &UnfPlan, obs: &ObsCell, stage: &Stage) -> Result<(), String> {
    stage.set("connect");
    let pair = rig::connect(&plan.cfg).await?;
    obs.borrow_mut().count("connections");
    let mut aconn = AConn::new(pair.adapter.clone());
    let raw = pair.raw.clone();
    let mut rng = Rng::new(plan.seed);
    let mut keep = Keep::default();

    // (1) conservation: everything poll_send accepted reaches the peer exactly once, in order
    stage.set("unframed conservation");
    let mut s = rig::open_send::<B>(&mut aconn).await.map_err(|e| format!("poll_open_send: {}", rig::stream_err_class(&e)))?;
    let data = rng.bytes(plan.total.max(1));
    let style = if plan.slow_reader { Reader::Slow { max: 97, pause_every: 5 } } else { Reader::Fast };
    let reader = async {
        let mut rr = raw.accept_uni().await.map_err(|e| format!("raw accept_uni: {}", e))?;
        Ok::<_, String>(raw_read(&mut rr, &style).await)
    };
    let writer = async {
        let mut wrng = Rng::new(plan.seed ^ 0x55);
        let r = unframed_write_all::<B, _>(&mut s, &data, plan.max_piece, &mut wrng, obs).await;
        let fin = std::future::poll_fn(|cx| quic::SendStream::<B>::poll_finish(&mut s, cx)).await;
        (r, fin)
    };
    let ((wres, fin), rres) = tokio::join!(writer, reader);
    let (got, end) = rres?;
    match wres {
        Err((_, e)) => return Err(format!("rig: unframed write failed on a healthy connection: {}", rig::stream_err_class(&e))),
        Ok(n) => {
            let mut o = obs.borrow_mut();
            o.evaluations += 1;
            if fin.is_err() {
                o.violation("poll_finish-after-unframed-writes-failed", "poll_finish failed on a healthy stream".to_string());
            }
            if got != data[..n] || !matches!(end, ReadEnd::Fin) {
                o.violation(
                    "unframed-bytes-not-conserved",
                    format!("poll_send accepted {} bytes, the peer read {} ({:?}); first difference at offset {}", n, got.len(), end, first_diff(&got, &data[..n])),
                );
            } else {
                o.add("unframed_bytes_conserved", n as u64);
                o.count("unframed_streams_conserved");
            }
        }
    }
    keep.hold(s);

    // (1b) an unframed write issued while a frame accepted by send_data() is unfinished is refused
    // (an error or the adapter's "not ready" panic) - or at least lands behind the whole frame:
    // what the peer reads is the frame followed by whatever poll_send reported as accepted
    if plan.cfg.raw.stream_rwnd <= 1024 {
        stage.set("unframed after unfinished frame");
        let mut s = rig::open_send::<B>(&mut aconn).await.map_err(|e| format!("poll_open_send: {}", rig::stream_err_class(&e)))?;
        let slack = rng.usize(200);
        let payload = rng.bytes(plan.cfg.raw.stream_rwnd as usize * 2 + 10 + slack);
        let headers = rng.bool();
        let fp = FrameP { headers, payload: payload.clone(), stream_type: None, premature_now: false };
        let extra = rng.bytes_1upto(40);
        let poll_first = rng.bool();
        let reader = async {
            let mut rr = raw.accept_uni().await.map_err(|e| format!("raw accept_uni: {}", e))?;
            Ok::<_, String>(raw_read(&mut rr, &style).await)
        };
        let writer = async {
            let frame: Frame<B> = if headers { Frame::Headers(Bytes::copy_from_slice(&payload)) } else { Frame::Data(B::make(&payload, &mut rng)) };
            if let Err(e) = quic::SendStream::<B>::send_data(&mut s, frame) {
                return Err(format!("rig: send_data on a fresh stream: {}", rig::stream_err_class(&e)));
            }
            let fw = rig::FlagWaker::new();
            let mut accepted = 0usize;
            let mut how = "frame-finished-first";
            // either right after send_data() (nothing of the frame written yet) or after a first
            // poll_ready() that left the frame partly written
            let unfinished = !poll_first || rig::poll_once(&fw, |cx| quic::SendStream::<B>::poll_ready(&mut s, cx)).is_pending();
            if unfinished {
                how = "never-answered";
                for _ in 0..4000u32 {
                    let mut sl: &[u8] = &extra;
                    match panics::catch(|| rig::poll_once(&fw, |cx| quic::SendStreamUnframed::<B>::poll_send(&mut s, cx, &mut sl))) {
                        Err(_) => {
                            how = "refused-by-panic";
                            break;
                        }
                        Ok(Poll::Ready(Err(_))) => {
                            how = "refused-by-error";
                            break;
                        }
                        Ok(Poll::Ready(Ok(n))) => {
                            accepted = n;
                            how = "accepted";
                            break;
                        }
                        Ok(Poll::Pending) => tokio::time::sleep(Duration::from_millis(1)).await,
                    }
                }
            }
            let ready = std::future::poll_fn(|cx| quic::SendStream::<B>::poll_ready(&mut s, cx)).await;
            let fin = std::future::poll_fn(|cx| quic::SendStream::<B>::poll_finish(&mut s, cx)).await;
            Ok((how, accepted, ready.is_ok() && fin.is_ok()))
        };
        let (wres, rres) = tokio::join!(writer, reader);
        let (got, end) = rres?;
        let (how, accepted, clean) = wres?;
        let mut want = fp.wire();
        want.extend_from_slice(&extra[..accepted]);
        let mut o = obs.borrow_mut();
        o.evaluations += 1;
        o.count(&format!("unframed_write_while_frame_unfinished[{}: {}]", if poll_first { "frame partly written" } else { "right after send_data" }, how));
        if !clean {
            o.violation("write-fails-after-refused-unframed-write", format!("poll_ready / poll_finish failed on a healthy stream after an unframed write attempt ({})", how));
        } else if got != want || !matches!(end, ReadEnd::Fin) {
            o.violation(
                "unframed-write-interleaved-with-unfinished-frame",
                format!(
                    "send_data({} B frame) unfinished, poll_send({} B): {} ({} B accepted); the peer read {} B ({:?}), expected the frame ({} B on the wire) followed by the accepted bytes; first difference at offset {}",
                    payload.len(), extra.len(), how, accepted, got.len(), end, fp.wire().len(), first_diff(&got, &want)
                ),
            );
        }
        drop(o);
        keep.hold(s);
    }

    // (2) the peer's STOP_SENDING surfaces from poll_send as StreamTerminated with the peer's code
    let mut cs = vec![plan.code];
    cs.push(*rng.pick(&codes()));
    for c in cs {
        stage.set(format!("unframed stop {:#x}", c));
        let mut s = rig::open_send::<B>(&mut aconn).await.map_err(|e| format!("poll_open_send: {}", rig::stream_err_class(&e)))?;
        let mut first: &[u8] = b"x";
        std::future::poll_fn(|cx| quic::SendStreamUnframed::<B>::poll_send(&mut s, cx, &mut first)).await.map_err(|e| format!("first poll_send: {}", rig::stream_err_class(&e)))?;
        let mut rr = raw.accept_uni().await.map_err(|e| format!("raw accept_uni: {}", e))?;
        rr.stop(rig::vi(c)).map_err(|e| format!("raw stop: {}", e))?;
        let mut first_err = None;
        for i in 0..20_000u32 {
            let chunk = rng.bytes_1upto(64);
            let mut sl: &[u8] = &chunk;
            match std::future::poll_fn(|cx| quic::SendStreamUnframed::<B>::poll_send(&mut s, cx, &mut sl)).await {
                Ok(_) => {}
                Err(e) => {
                    first_err = Some(e);
                    break;
                }
            }
            if i % 16 == 0 {
                tokio::time::sleep(Duration::from_millis(1)).await;
            } else {
                tokio::task::yield_now().await;
            }
        }
        match &first_err {
            None => obs.borrow_mut().inconclusive(format!("peer stop({:#x}) did not surface from poll_send after 20000 writes", c)),
            Some(e) => check_stream_err(obs, "stop", "poll_send", Err(e), Want::Terminated(c)),
        }
        keep.hold(rr);
        keep.hold(s);
    }

    // (3) the peer's application close surfaces from poll_send as ApplicationClose with its code
    stage.set("unframed close");
    let mut s = rig::open_send::<B>(&mut aconn).await.map_err(|e| format!("poll_open_send: {}", rig::stream_err_class(&e)))?;
    let mut first: &[u8] = b"y";
    std::future::poll_fn(|cx| quic::SendStreamUnframed::<B>::poll_send(&mut s, cx, &mut first)).await.map_err(|e| format!("first poll_send: {}", rig::stream_err_class(&e)))?;
    raw.close(rig::vi(plan.code), b"closing");
    pair.adapter.closed().await;
    let mut sl: &[u8] = b"after the close";
    let r = std::future::poll_fn(|cx| quic::SendStreamUnframed::<B>::poll_send(&mut s, cx, &mut sl)).await;
    check_stream_err(obs, "close", "poll_send", r.as_ref().map(|n| format!("Ok({})", n)).map_err(|e| e), Want::AppClose(plan.code));
    keep.hold(s);
    obs.borrow_mut().note(format!("unframed: {} B in pieces of up to {} B through a {} B stream window; stop and close codes {:#x}", plan.total, plan.max_piece, plan.cfg.raw.stream_rwnd, plan.code));
    Ok(())
}


// ---------------------------------------------------------------------------------------------
// buffered reads: h3's BufRecvStream (h3/src/stream.rs) over the adapter, every public way of
// taking bytes out of it, possibly over a path that loses or swaps datagrams

#[derive(Clone, Copy, Debug, PartialEq, Eq, Hash)]
enum BOp {
    /// poll_read(): pull one more chunk from the transport into the buffer (look-ahead)
    ReadAhead,
    TakeChunk(usize),
    PollData,
    FuturesRead(usize),
    TokioRead(usize),
    /// split() the stream (bidirectional streams, once) and go on with the receiving half
    Split,
}

#[derive(Debug)]
struct BufPlan {
    cfg: RigCfg,
    bidi: bool,
    total: usize,
    /// sizes of the raw peer's writes and whether it pauses behind each
    writes: Vec<(usize, bool)>,
    ops: Vec<BOp>,
    seed: u64,
}

fn buf_plan(index: u64, seed: u64, tier: Tier) -> BufPlan {
    let mut rng = Rng::new(seed);
    let mut cfg = RigCfg::roomy(index % 2 == 0);
    let lossy = index % 3 == 2;
    let total = if lossy {
        *rng.pick(&[40_000usize, 100_000, 200_000])
    } else {
        *rng.pick(&[0usize, 1, 2, 60, 61, 1200, 5000, 30_000])
    };
    let total = if tier == Tier::Lite { total.min(5000) } else { total };
    if lossy {
        // a few large datagrams towards the adapter are lost or overtaken, once each
        let mut r = rig::RelayCfg::default();
        for _ in 0..1 + rng.usize(4) {
            r.drop_to_adapter.push(2 + rng.below(60));
        }
        for _ in 0..rng.usize(3) {
            r.swap_to_adapter.push(2 + rng.below(60));
        }
        if rng.chance(1, 3) {
            r.drop_to_raw.push(rng.below(6));
        }
        cfg.relay = Some(r);
    } else {
        cfg.adapter.stream_rwnd = *rng.pick(&[16u64, 300, 1 << 20]);
    }
    let mut writes = Vec::new();
    let mut left = total;
    while left > 0 {
        let span = *rng.pick(&[3usize, 80, 2000, 70_000]);
        let k = (1 + rng.usize(span)).min(left);
        writes.push((k, !lossy && rng.chance(1, 3)));
        left -= k;
    }
    let n_ops = 2 + rng.usize(24);
    let bidi = rng.bool();
    let mut ops = Vec::new();
    let mut split_done = false;
    for _ in 0..n_ops {
        let op = match rng.below(if bidi && !split_done { 12 } else { 11 }) {
            0 | 1 | 2 => BOp::ReadAhead,
            3 | 4 => BOp::TakeChunk(*rng.pick(&[1usize, 7, 1000, usize::MAX])),
            5 | 6 | 7 => BOp::PollData,
            8 => BOp::FuturesRead(*rng.pick(&[1usize, 5, 700, 9000])),
            9 | 10 => BOp::TokioRead(*rng.pick(&[1usize, 5, 700, 9000])),
            _ => {
                split_done = true;
                BOp::Split
            }
        };
        ops.push(op);
    }
    BufPlan { cfg, bidi, total, writes, ops, seed: rng.next() }
}

/// Run `ops` on `s`; everything taken out is appended to `out`. Returns Ok(true) once the end of
/// the stream was reported, Ok(false) when the ops ran out (or a Split is next) first.
async fn buf_ops<R: quic::RecvStream + Unpin>(s: &mut h3::stream::BufRecvStream<R, Bytes>, ops: &mut std::collections::VecDeque<BOp>, out: &mut Vec<u8>, obs: &ObsCell) -> Result<bool, String> {
    use futures_util::io::AsyncReadExt as _;
    while let Some(op) = ops.front().copied() {
        if op == BOp::Split {
            return Ok(false);
        }
        ops.pop_front();
        obs.borrow_mut().count(&format!("buffered_op[{}]", match op { BOp::ReadAhead => "poll_read (look-ahead)", BOp::TakeChunk(_) => "take_chunk", BOp::PollData => "poll_data", BOp::FuturesRead(_) => "futures AsyncRead", BOp::TokioRead(_) => "tokio AsyncRead", BOp::Split => "split" }));
        match op {
            BOp::ReadAhead => {
                // the answer (end seen or not) says nothing about what is still buffered
                let eos = std::future::poll_fn(|cx| s.poll_read(cx)).await.map_err(|e| format!("poll_read: {}", rig::stream_err_class(&e)))?;
                if eos {
                    obs.borrow_mut().count("buffered_end_seen_by_look_ahead");
                    if s.has_remaining() {
                        obs.borrow_mut().count("buffered_end_seen_while_bytes_still_buffered");
                    }
                }
            }
            BOp::TakeChunk(limit) => {
                if let Some(b) = s.take_chunk(limit) {
                    out.extend_from_slice(&b);
                }
            }
            BOp::PollData => match std::future::poll_fn(|cx| quic::RecvStream::poll_data(s, cx)).await.map_err(|e| format!("poll_data: {}", rig::stream_err_class(&e)))? {
                Some(mut b) => {
                    while b.has_remaining() {
                        let c = b.chunk().to_vec();
                        out.extend_from_slice(&c);
                        b.advance(c.len());
                    }
                }
                None => return Ok(true),
            },
            BOp::FuturesRead(n) => {
                let mut buf = vec![0u8; n];
                let k = s.read(&mut buf).await.map_err(|e| format!("futures read: {}", e))?;
                if k == 0 {
                    return Ok(true);
                }
                out.extend_from_slice(&buf[..k]);
            }
            BOp::TokioRead(n) => {
                let mut buf = vec![0u8; n];
                let k = tokio::io::AsyncReadExt::read(s, &mut buf).await.map_err(|e| format!("tokio read: {}", e))?;
                if k == 0 {
                    return Ok(true);
                }
                out.extend_from_slice(&buf[..k]);
            }
            BOp::Split => unreachable!(),
        }
    }
    Ok(false)
}

/// After the planned operations: drain with poll_data to the end.
async fn buf_drain<R: quic::RecvStream + Unpin>(s: &mut h3::stream::BufRecvStream<R, Bytes>, out: &mut Vec<u8>) -> Result<(), String> {
    loop {
        match std::future::poll_fn(|cx| quic::RecvStream::poll_data(s, cx)).await.map_err(|e| format!("poll_data: {}", rig::stream_err_class(&e)))? {
            Some(mut b) => {
                while b.has_remaining() {
                    let c = b.chunk().to_vec();
                    out.extend_from_slice(&c);
                    b.advance(c.len());
                }
            }
            None => return Ok(()),
        }
    }
}

async fn buffered_scenario(plan: &BufPlan, obs: &ObsCell, stage: &Stage) -> Result<(), String> {
    stage.set("connect");
    let pair = rig::connect(&plan.cfg).await?;
    obs.borrow_mut().count("connections");
    let mut aconn = AConn::new(pair.adapter.clone());
    let raw = pair.raw.clone();
    let mut rng = Rng::new(plan.seed);
    let data = rng.bytes(plan.total.max(1));
    let data = &data[..plan.total];
    stage.set("buffered read");
    let writer = async {
        let mut ws = if plan.bidi {
            let (ws, rr) = raw.open_bi().await.map_err(|e| format!("raw open_bi: {}", e))?;
            std::mem::forget(rr); // dropping it would send STOP_SENDING to the adapter's send half
            ws
        } else {
            raw.open_uni().await.map_err(|e| format!("raw open_uni: {}", e))?
        };
        let mut off = 0;
        if plan.total == 0 {
            // a stream only exists for the peer once something was sent on it
        }
        for (k, pause) in &plan.writes {
            ws.write_all(&data[off..off + k]).await.map_err(|e| format!("raw write: {}", e))?;
            off += k;
            if *pause {
                tokio::time::sleep(Duration::from_millis(2)).await;
            }
        }
        ws.finish().map_err(|e| format!("raw finish: {}", e))?;
        // keep the stream object until the peer has read everything
        let _ = ws.stopped().await;
        Ok::<_, String>(())
    };
    let reader = async {
        let mut out = Vec::new();
        let mut ops: std::collections::VecDeque<BOp> = plan.ops.iter().copied().collect();
        if plan.bidi {
            let b = rig::accept_bidi::<Bytes>(&mut aconn).await.map_err(|e| format!("accept_bidi: {}", rig::conn_err_class(&e)))?;
            let mut whole = h3::stream::BufRecvStream::<_, Bytes>::new(b);
            let mut ended = buf_ops(&mut whole, &mut ops, &mut out, obs).await?;
            if !ended && ops.front() == Some(&BOp::Split) {
                ops.pop_front();
                obs.borrow_mut().count("buffered_op[split]");
                if whole.has_remaining() {
                    obs.borrow_mut().count("buffered_split_with_bytes_buffered");
                }
                let (send, mut recv) = quic::BidiStream::<Bytes>::split(whole);
                ended = buf_ops(&mut recv, &mut ops, &mut out, obs).await?;
                if !ended {
                    buf_drain(&mut recv, &mut out).await?;
                }
                drop(send);
            } else if !ended {
                buf_drain(&mut whole, &mut out).await?;
            }
        } else {
            let r = rig::accept_recv::<Bytes>(&mut aconn).await.map_err(|e| format!("accept_recv: {}", rig::conn_err_class(&e)))?;
            let mut s = h3::stream::BufRecvStream::<_, Bytes>::new(r);
            if !buf_ops(&mut s, &mut ops, &mut out, obs).await? {
                buf_drain(&mut s, &mut out).await?;
            }
        }
        Ok::<_, String>(out)
    };
    let (w, r) = tokio::join!(writer, reader);
    let got = r?;
    w?;
    let mut o = obs.borrow_mut();
    o.evaluations += 1;
    {
        let st = pair.relay_stats.lock().unwrap();
        o.add("relay_datagrams_forwarded", st.forwarded);
        o.add("relay_datagrams_dropped", st.dropped);
        o.add("relay_datagrams_swapped", st.swapped);
        if st.dropped + st.swapped > 0 {
            o.count("buffered_streams_over_a_path_with_loss_or_reordering");
        }
    }
    if got != data {
        let at = first_diff(&got, data);
        let kind = if got.len() < data.len() && got[..] == data[..got.len()] {
            "buffered-read-ends-early"
        } else if got.len() == data.len() {
            "buffered-read-bytes-out-of-order-or-changed"
        } else {
            "buffered-read-bytes-lost-or-repeated"
        };
        o.violation(kind, format!("the peer wrote {} B and finished; BufRecvStream over the adapter handed out {} B before reporting the end; first difference at offset {}", data.len(), got.len(), at));
    } else {
        o.add("buffered_bytes_conserved", got.len() as u64);
        o.count("buffered_streams_conserved");
    }
    o.note(format!("buffered: {} B in {} writes over a {} stream, ops {:?}", plan.total, plan.writes.len(), if plan.bidi { "bidirectional" } else { "unidirectional" }, plan.ops));
    Ok(())
}

/// object-safe view of the send side (bidi or uni)
trait DynSend<B: Buf> {
    fn send_frame(&mut self, f: Frame<B>) -> Result<(), StreamErrorIncoming>;
    fn poll_ready_dyn(&mut self, cx: &mut Context<'_>) -> Poll<Result<(), StreamErrorIncoming>>;
    fn poll_finish_dyn(&mut self, cx: &mut Context<'_>) -> Poll<Result<(), StreamErrorIncoming>>;
    fn send_id_dyn(&self) -> StreamId;
}
impl<B: Buf, S: quic::SendStream<B>> DynSend<B> for S {
    fn send_frame(&mut self, f: Frame<B>) -> Result<(), StreamErrorIncoming> {
        self.send_data(f)
    }
    fn poll_ready_dyn(&mut self, cx: &mut Context<'_>) -> Poll<Result<(), StreamErrorIncoming>> {
        self.poll_ready(cx)
    }
    fn poll_finish_dyn(&mut self, cx: &mut Context<'_>) -> Poll<Result<(), StreamErrorIncoming>> {
        self.poll_finish(cx)
    }
    fn send_id_dyn(&self) -> StreamId {
        self.send_id()
    }
}
struct DynSendRef<'a, B: Buf>(&'a dyn DynSend<B>);
impl<B: Buf> quic::SendStream<B> for DynSendRef<'_, B> {
    fn poll_ready(&mut self, _cx: &mut Context<'_>) -> Poll<Result<(), StreamErrorIncoming>> {
        unreachable!("id queries only")
    }
    fn send_data<T: Into<WriteBuf<B>>>(&mut self, _data: T) -> Result<(), StreamErrorIncoming> {
        unreachable!("id queries only")
    }
    fn poll_finish(&mut self, _cx: &mut Context<'_>) -> Poll<Result<(), StreamErrorIncoming>> {
        unreachable!("id queries only")
    }
    fn reset(&mut self, _reset_code: u64) {}
    fn send_id(&self) -> StreamId {
        self.0.send_id_dyn()
    }
}

// ---------------------------------------------------------------------------------------------
// datagrams

#[derive(Clone, Debug)]
struct DgPlan {
    cfg: RigCfg,
    seg_payload: bool,
    n_out: usize,
    n_in: usize,
    code: u64,
    seed: u64,
}

fn dg_plan(index: u64, seed: u64, tier: Tier) -> DgPlan {
    let mut rng = Rng::new(seed);
    let mut cfg = RigCfg::roomy(index % 2 == 0);
    cfg.adapter.datagrams = true;
    cfg.raw.datagrams = true;
    DgPlan {
        cfg,
        seg_payload: rng.bool(),
        n_out: tier.pick(4, 40, 60) as usize,
        n_in: tier.pick(4, 20, 30) as usize,
        code: pick_code(&mut rng),
        seed: rng.next(),
    }
}

async fn dg_scenario<B: Payload>(plan: &DgPlan, obs: &ObsCell, stage: &Stage) -> Result<(), String> {
    use h3_datagram::datagram::Datagram;
    use h3_datagram::quic_traits::{DatagramConnectionExt, RecvDatagram, SendDatagram, SendDatagramErrorIncoming};
    stage.set("connect");
    let pair = rig::connect(&plan.cfg).await?;
    obs.borrow_mut().count("connections");
    let aconn = AConn::new(pair.adapter.clone());
    let raw = pair.raw.clone();
    let mut rng = Rng::new(plan.seed);
    let mut dg_recv = <AConn as DatagramConnectionExt<B>>::recv_datagram_handler(&aconn);
    let mut dg_send = <AConn as DatagramConnectionExt<B>>::send_datagram_handler(&aconn);
    let max = pair.adapter.max_datagram_size().ok_or("rig: datagrams not negotiated")?;
    let pace = Duration::from_secs(2);

    // adapter -> raw, one at a time; a lost datagram is a don't-care, an altered one is not
    let mut outstanding: Vec<Vec<u8>> = Vec::new();
    for i in 0..plan.n_out {
        stage.set(format!("datagram out #{}", i));
        let bits = rng.range(0, 60);
        let k = if bits == 0 { 0 } else { rng.next() & ((1u64 << bits) - 1) };
        let hdr = rv::encode(k).unwrap();
        let room = max.saturating_sub(hdr.len());
        let len = match rng.below(5) {
            0 => 0,
            1 => room,
            2 => 1 + rng.usize(8),
            _ => rng.usize(room + 1),
        };
        let payload = rng.bytes(len);
        let mut want = hdr.clone();
        want.extend_from_slice(&payload);
        let d = Datagram::new(StreamId::try_from(k * 4).map_err(|_| "rig: stream id".to_string())?, B::make(&payload, &mut rng)).encode();
        let r = panics::catch(|| dg_send.send_datagram(d));
        obs.borrow_mut().evaluations += 1;
        match r {
            Err(p) => {
                obs.borrow_mut().violation("send_datagram-panics", format!("send_datagram of {} B panicked: {} at {}", want.len(), p.msg, p.loc));
                continue;
            }
            Ok(Err(SendDatagramErrorIncoming::TooLarge)) => {
                obs.borrow_mut().count("send_datagram[TooLarge]");
                continue;
            }
            Ok(Err(e)) => return Err(format!("rig: send_datagram failed: {:?}", e)),
            Ok(Ok(())) => {}
        }
        outstanding.push(want);
        match tokio::time::timeout(pace, raw.read_datagram()).await {
            Err(_) => obs.borrow_mut().count("datagrams_lost[adapter->raw]"),
            Ok(Err(e)) => return Err(format!("rig: raw read_datagram: {}", e)),
            Ok(Ok(got)) => {
                let mut o = obs.borrow_mut();
                match outstanding.iter().position(|w| w[..] == got[..]) {
                    Some(p) => {
                        outstanding.drain(..=p);
                        o.count("datagrams_conserved[adapter->raw]");
                        o.add("datagram_bytes_conserved", got.len() as u64);
                    }
                    None => o.violation(
                        "datagram-bytes-differ[adapter->raw]",
                        format!("raw peer received a {} B datagram {} that equals none of the {} outstanding ones (last sent: {} B {})", got.len(), hex_short(&got, 12), outstanding.len(), outstanding.last().map(|w| w.len()).unwrap_or(0), hex_short(outstanding.last().map(|w| &w[..]).unwrap_or(&[]), 12)),
                    ),
                }
            }
        }
    }
    // oversize: recorded, not judged
    {
        let big = vec![0u8; 70_000];
        let d = Datagram::new(StreamId::try_from(0u64).unwrap(), B::make(&big, &mut rng)).encode();
        let r = dg_send.send_datagram(d);
        obs.borrow_mut().count(&format!("send_datagram_oversize[{}]", match r { Ok(()) => "Ok".to_string(), Err(e) => format!("{:?}", e).split('(').next().unwrap_or("").to_string() }));
    }
    // raw -> adapter
    let rmax = raw.max_datagram_size().ok_or("rig: datagrams not negotiated (raw)")?;
    let mut outstanding: Vec<Vec<u8>> = Vec::new();
    for i in 0..plan.n_in {
        stage.set(format!("datagram in #{}", i));
        let len = match rng.below(4) {
            0 => 0,
            1 => rmax,
            _ => rng.usize(rmax + 1),
        };
        let bytes = rng.bytes(len);
        raw.send_datagram(Bytes::from(bytes.clone())).map_err(|e| format!("rig: raw send_datagram: {}", e))?;
        outstanding.push(bytes);
        obs.borrow_mut().evaluations += 1;
        match tokio::time::timeout(pace, std::future::poll_fn(|cx| dg_recv.poll_incoming_datagram(cx))).await {
            Err(_) => obs.borrow_mut().count("datagrams_lost[raw->adapter]"),
            Ok(Err(e)) => return Err(format!("rig: poll_incoming_datagram: {}", rig::conn_err_class(&e))),
            Ok(Ok(buf)) => {
                let mut got = Vec::new();
                rig::drain_buf(buf, &mut got);
                let mut o = obs.borrow_mut();
                match outstanding.iter().position(|w| *w == got) {
                    Some(p) => {
                        outstanding.drain(..=p);
                        o.count("datagrams_conserved[raw->adapter]");
                        o.add("datagram_bytes_conserved", got.len() as u64);
                    }
                    None => o.violation("datagram-bytes-differ[raw->adapter]", format!("poll_incoming_datagram delivered {} B {} that equal none of the {} outstanding datagrams", got.len(), hex_short(&got, 12), outstanding.len())),
                }
            }
        }
    }
    // close: both datagram paths report it
    stage.set("datagram close");
    raw.close(rig::vi(plan.code), b"dg done");
    loop {
        // datagrams still queued are a don't-care; the error must follow
        match std::future::poll_fn(|cx| dg_recv.poll_incoming_datagram(cx)).await {
            Ok(_) => continue,
            r @ Err(_) => {
                check_conn_err(obs, "close", "poll_incoming_datagram", &r, Want::AppClose(plan.code));
                break;
            }
        }
    }
    obs.borrow_mut().note(format!("{} datagrams adapter->raw, {} raw->adapter (max size {}), then peer close({:#x})", plan.n_out, plan.n_in, max, plan.code));
    Ok(())
}

// ---------------------------------------------------------------------------------------------
// regression seeds: the smallest scenarios for defects found earlier

/// index 0: adapter opens a bidi stream, polls `poll_data` once (Pending: the peer has sent
/// nothing), asks for `recv_id()`. index 1: the same on a peer-opened uni stream after one read.
async fn regression_scenario(index: u64, obs: &ObsCell, stage: &Stage) -> Result<(), String> {
    stage.set("connect");
    let pair = rig::connect(&RigCfg::roomy(true)).await?;
    obs.borrow_mut().count("connections");
    let mut aconn = AConn::new(pair.adapter.clone());
    let mut ord = Order::default();
    let fw = FlagWaker::new();
    if index == 0 {
        let mut b = rig::open_bidi::<Bytes>(&mut aconn).await.map_err(|e| format!("poll_open_bidi: {}", rig::stream_err_class(&e)))?;
        let id = pair.stream_id(true, true, 0);
        q_recv(&b, "fresh", "fresh", id, obs);
        if !rig::poll_once(&fw, |cx| quic::RecvStream::poll_data(&mut b, cx)).is_pending() {
            return Err("rig: poll_data on a silent stream was not Pending".into());
        }
        obs.borrow_mut().note("open_bidi; poll_data -> Pending; recv_id()");
        q_recv(&b, "read-pending", "read-pending", id, obs);
        q_send::<Bytes, _>(&b, "read-pending", "read-pending", id, obs);
    } else {
        let (us, mut r, id) = raw_uni_accepted::<Bytes>(&pair, &mut aconn, &mut ord, &[0x01]).await?;
        let mut got = Vec::new();
        read_n(&mut r, 1, &mut got, obs).await?;
        q_recv(&r, "after-read", "after-read", id, obs);
        let mut more = Vec::new();
        match poll_until_pending(&mut r, &fw, &mut more) {
            Drained::Pending => {}
            _ => return Err("rig: stream ended early".into()),
        }
        obs.borrow_mut().note("peer opens uni + 1 byte; accept_recv; poll_data -> 1 byte; poll_data -> Pending; recv_id()");
        q_recv(&r, "read-pending", "read-pending", id, obs);
        drop(us);
    }
    Ok(())
}

// ---------------------------------------------------------------------------------------------
// driver glue

fn discard(rep: &mut Report, gen: &str, why: &str) {
    rep.count("scenarios_discarded");
    let class = if why.contains("too many gaps") {
        "quinn gave up: too many gaps in stream buffer (packet loss + tiny frames)"
    } else if why.contains("handshake") {
        "handshake failed"
    } else if why.contains("rig:") {
        "rig expectation"
    } else {
        "transport failure"
    };
    rep.count(&format!("scenarios_discarded[{}]", class));
    let note = format!("discarded {} #{}: {}", gen, rep.cur_index, why);
    if rep.notes.len() < 12 {
        rep.notes.push(note);
    }
}

fn apply(obs: Obs, out: Outcome, gen: &str, case: serde_json::Value, rep: &mut Report) {
    rep.evaluations += obs.evaluations;
    for (k, v) in &obs.counters {
        rep.add(k, *v);
    }
    for (sig, detail) in &obs.violations {
        let mut c = case.clone();
        if let Some(m) = c.as_object_mut() {
            m.insert("trace".into(), json!(obs.trace));
        }
        rep.violation(format!("C17/{}", sig), detail.clone(), c);
    }
    // Transport-level trouble (packet loss on a loaded loopback making Quinn give up, a handshake
    // that timed out, ...) discards the scenario: what was judged before the trouble stays judged,
    // the rest is lost coverage. `finish` turns too many discards into an inconclusive run.
    for i in &obs.inconclusive {
        discard(rep, gen, i);
    }
    match out {
        Outcome::Done => {}
        Outcome::RigError(e) => discard(rep, gen, &e),
        Outcome::Watchdog(stage) => {
            rep.count("watchdog_fired");
            rep.inconclusive(format!("C17 {} watchdog ({} s) fired in stage '{}' of case #{}", gen, rig::WATCHDOG.as_secs(), stage, rep.cur_index));
        }
        Outcome::Panic(p) => {
            if p.in_repo() {
                rep.violation(format!("C17/panic[{}: {}]", p.file(), p.msg_key()), format!("adapter panicked: {} at {}", p.msg, p.loc), case);
            } else {
                rep.inconclusive(format!("C17 {} harness panic: {} at {}", gen, p.msg, p.loc));
            }
        }
    }
}

fn run_case(gen: &str, index: u64, seed: u64, tier: Tier, rep: &mut Report) {
    let obs: ObsCell = RefCell::new(Obs::default());
    let stage = Stage::default();
    match gen {
        "conservation" => {
            let plan = cons_plan(index, seed, tier);
            rep.sig(hash64(&("cons", format!("{:?}", plan.cfg), plan.seg_payload, plan.concurrent, &plan.streams)));
            for (side, w) in [("raw.stream_rwnd", plan.cfg.raw.stream_rwnd), ("raw.conn_rwnd", plan.cfg.raw.conn_rwnd), ("adapter.send_window", plan.cfg.adapter.send_window), ("adapter.stream_rwnd", plan.cfg.adapter.stream_rwnd)] {
                rep.count(&format!("window[{}={}]", side, w));
            }
            rep.count(&format!("payload_buf[{}]", if plan.seg_payload { SegBuf::NAME } else { <Bytes as Payload>::NAME }));
            rep.count(&format!("adapter_role[{}]", if plan.cfg.adapter_is_client { "client" } else { "server" }));
            let t0 = std::time::Instant::now();
            let out = if plan.seg_payload {
                rig::run_scenario(&stage, cons_scenario::<SegBuf>(&plan, &obs, &stage))
            } else {
                rig::run_scenario(&stage, cons_scenario::<Bytes>(&plan, &obs, &stage))
            };
            let case = cons_plan_json(&plan);
            if std::env::var_os("C17_DEBUG").is_some() {
                eprintln!("[c17] conservation #{} took {:.2}s stage={} plan={}", index, t0.elapsed().as_secs_f64(), stage.get(), case);
            }
            if index % 7 == 3 {
                rep.sample(json!({"gen": gen, "index": index, "plan": case, "verdict_inputs": "raw peer's bytes == ref-encoded accepted frames"}));
            }
            apply(obs.into_inner(), out, gen, case, rep);
        }
        "id_matrix" => {
            let plan = id_plan(index, seed);
            rep.sig(hash64(&("id", format!("{:?}", plan))));
            rep.count(&format!("adapter_role[{}]", if plan.cfg.adapter_is_client { "client" } else { "server" }));
            let out = if plan.seg_payload {
                rig::run_scenario(&stage, id_scenario::<SegBuf>(&plan, &obs, &stage))
            } else {
                rig::run_scenario(&stage, id_scenario::<Bytes>(&plan, &obs, &stage))
            };
            let case = json!({"cfg": plan.cfg.json(), "split": plan.split, "raw_stream_window": plan.small, "codes": plan.codes});
            let obs = obs.into_inner();
            if index == 0 {
                rep.sample(json!({"gen": gen, "index": index, "plan": case, "trace": obs.trace}));
            }
            apply(obs, out, gen, case, rep);
        }
        "errors" => {
            let plan = err_plan(index, seed);
            rep.sig(hash64(&("err", format!("{:?}", plan))));
            rep.count(&format!("error_scenario[{}]", plan.kind));
            rep.count(&format!("adapter_role[{}]", if plan.cfg.adapter_is_client { "client" } else { "server" }));
            let out = match (plan.kind, plan.seg_payload) {
                ("close" | "timeout", true) => rig::run_scenario(&stage, conn_death_scenario::<SegBuf>(&plan, &obs, &stage)),
                ("close" | "timeout", false) => rig::run_scenario(&stage, conn_death_scenario::<Bytes>(&plan, &obs, &stage)),
                ("reset", true) => rig::run_scenario(&stage, reset_scenario::<SegBuf>(&plan, &obs, &stage)),
                ("reset", false) => rig::run_scenario(&stage, reset_scenario::<Bytes>(&plan, &obs, &stage)),
                (_, true) => rig::run_scenario(&stage, stop_scenario::<SegBuf>(&plan, &obs, &stage)),
                (_, false) => rig::run_scenario(&stage, stop_scenario::<Bytes>(&plan, &obs, &stage)),
            };
            let case = json!({"kind": plan.kind, "cfg": plan.cfg.json(), "code": plan.code, "operations_pending_first": plan.ops_pending_first});
            let obs = obs.into_inner();
            if index < 4 {
                rep.sample(json!({"gen": gen, "index": index, "plan": case, "trace": obs.trace}));
            }
            apply(obs, out, gen, case, rep);
        }
        "datagrams" => {
            let plan = dg_plan(index, seed, tier);
            rep.sig(hash64(&("dg", format!("{:?}", plan))));
            let out = if plan.seg_payload {
                rig::run_scenario(&stage, dg_scenario::<SegBuf>(&plan, &obs, &stage))
            } else {
                rig::run_scenario(&stage, dg_scenario::<Bytes>(&plan, &obs, &stage))
            };
            let case = json!({"cfg": plan.cfg.json(), "n_out": plan.n_out, "n_in": plan.n_in, "close_code": plan.code});
            apply(obs.into_inner(), out, gen, case, rep);
        }
        "unframed" => {
            let plan = unf_plan(index, seed);
            rep.sig(hash64(&("unf", format!("{:?}", plan))));
            rep.count(&format!("adapter_role[{}]", if plan.cfg.adapter_is_client { "client" } else { "server" }));
            let out = rig::run_scenario(&stage, unframed_scenario::<Bytes>(&plan, &obs, &stage));
            let case = json!({"cfg": plan.cfg.json(), "total": plan.total, "max_piece": plan.max_piece, "slow_reader": plan.slow_reader, "code": plan.code});
            let obs = obs.into_inner();
            if index == 0 {
                rep.sample(json!({"gen": gen, "index": index, "plan": case, "trace": obs.trace}));
            }
            apply(obs, out, gen, case, rep);
        }
        "buffered" => {
            let plan = buf_plan(index, seed, tier);
            rep.sig(hash64(&("buf", format!("{:?}", plan))));
            rep.count(&format!("adapter_role[{}]", if plan.cfg.adapter_is_client { "client" } else { "server" }));
            let out = rig::run_scenario(&stage, buffered_scenario(&plan, &obs, &stage));
            let case = json!({"cfg": plan.cfg.json(), "bidi": plan.bidi, "total": plan.total, "writes": plan.writes.len(), "ops": format!("{:?}", plan.ops)});
            let obs = obs.into_inner();
            if index == 0 {
                rep.sample(json!({"gen": gen, "index": index, "plan": case, "trace": obs.trace}));
            }
            apply(obs, out, gen, case, rep);
        }
        "regression_seeds" => {
            let out = rig::run_scenario(&stage, regression_scenario(index, &obs, &stage));
            let obs = obs.into_inner();
            let case = json!({"regression": index, "trace": obs.trace});
            apply(obs, out, gen, case, rep);
        }
        _ => {}
    }
}
