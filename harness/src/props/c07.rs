//! C07 — faults confined to one request never harm the connection or other requests.
//! 2..4 concurrent requests, a non-empty proper subset of them faulty (RESET at an offset class,
//! STOP_SENDING, malformed message, oversized section, FIN before HEADERS); the faulty stream must
//! report a stream-level error with the right code, the connection must stay up and every healthy
//! neighbour must pass the C01 equality oracle.

use crate::props::c01;
use crate::refimpl::frames as rf;
use crate::refimpl::qpack as rq;
use crate::refimpl::wire;
use crate::report::Report;
use crate::sim::apps::{self, CliCfg, ClientOpts, EndMode, Err as AErr, Ev, Msg, Out, Probe, ReqPlan, RespPlan, ServerOpts, SrvCfg};
use crate::sim::msggen::{self, GenOpts};
use crate::sim::rawpeer as raw;
use crate::sim::sched::{RunEnd, Sched, ScriptStep};
use crate::sim::wiremsg;
use crate::sim::{self, lock, NetCfg, CLIENT, SERVER};
use crate::util::{hash64, Rng};
use crate::{Gen, PropDef, Tier};
use bytes::Bytes;
use serde_json::json;

pub fn def() -> PropDef {
    PropDef {
        id: "C07",
        rule: "a case = one connection with 2..4 concurrent requests of which a non-empty proper subset \
               suffers one stream-scoped fault each: peer RESET(code) at an offset class (before \
               headers / inside the header frame / between frames / inside DATA / after the last \
               frame), peer STOP_SENDING(code), a validly encoded but malformed message (head or \
               trailers), a field section over the receiver's limit, FIN before HEADERS; codes over \
               {0, H3 codes, 2^62-1}. Three set-ups: real server vs raw client, real client vs raw \
               server, real client vs real server with resets raised through the API; PRNG \
               chunking and task order, whole and split streams. Oracle: on the faulty stream every \
               failing call reports the stream-level error class with the right code (never a \
               connection error), the QUIC connection is never closed with an error and the driver \
               keeps working, and every healthy neighbour delivers exactly its own message (C01 \
               equality oracle on the API side, reference decode on the wire side) and completes \
               normally. Non-trivial distinct = (set-up, fault assignment, interleaving signature).",
        assumptions: || {
            vec![
                "don't-care: a response stream finished before any HEADERS, seen by the client (RFC 9114 §4.1 makes it a connection error for the client; the statement's stream-level rule is read for the request side)".into(),
                "a RESET may overtake data: any prefix of the message may have been delivered before the error".into(),
                "reference codec + simulator contract as in C01".into(),
            ]
        },
        gens,
        run_case,
        finish,
    }
}

fn gens(tier: Tier) -> Vec<Gen> {
    vec![
        Gen::new("server_vs_raw_client", tier.pick(2, 2_500, 250_000)),
        Gen::new("client_vs_raw_server", tier.pick(2, 2_500, 250_000)),
        Gen::new("h3_vs_h3_api_resets", tier.pick(2, 1_000, 100_000)),
    ]
}

fn finish(tier: Tier, rep: &mut Report) {
    if tier == Tier::Lite {
        return;
    }
    for (k, floor) in [
        ("connections", 2_000u64),
        ("healthy_neighbours_checked", 2_000),
        ("fault[Reset]", 300),
        ("fault[Stop]", 300),
        ("fault[Malformed]", 300),
        ("fault[Oversized]", 300),
        ("fault[FinBeforeHeaders]", 300),
        ("faulty_stream_reported[RemoteTerminate]", 300),
        ("faulty_stream_reported[H3_MESSAGE_ERROR]", 100),
        ("faulty_stream_reported[HeaderTooBig]", 100),
        ("faulty_stream_reported[H3_REQUEST_INCOMPLETE]", 50),
        ("reset_class[InsideData]", 20),
        ("wire_signal_checked[FinBeforeHeaders]", 50),
        ("wire_signal_checked[Malformed head]", 50),
        ("wire_signal_checked[Malformed response]", 50),
        ("wire_signal_checked[Malformed trailers]", 20),
        ("reset_class[InsideHeaderFrame]", 20),
    ] {
        if rep.get(k) < floor {
            rep.inconclusive(format!("{} = {} below floor {}", k, rep.get(k), floor));
        }
    }
}

const CODES: [u64; 7] = [0, 0x100, 0x101, 0x10b, 0x10c, 0x10f, (1 << 62) - 1];
const LIMIT: u64 = 3000;

#[derive(Debug, Clone, Copy, PartialEq, Eq, Hash)]
pub enum ResetAt {
    BeforeHeaders,
    InsideHeaderFrame,
    BetweenFrames,
    InsideData,
    AfterLastFrame,
}

#[derive(Debug, Clone, PartialEq, Eq, Hash)]
pub enum Fault {
    Reset { code: u64, at: ResetAt },
    Stop { code: u64 },
    Malformed { in_trailers: bool, which: usize },
    Oversized,
    FinBeforeHeaders,
}

fn fault_name(f: &Fault) -> &'static str {
    match f {
        Fault::Reset { .. } => "Reset",
        Fault::Stop { .. } => "Stop",
        Fault::Malformed { .. } => "Malformed",
        Fault::Oversized => "Oversized",
        Fault::FinBeforeHeaders => "FinBeforeHeaders",
    }
}

fn gen_fault(rng: &mut Rng) -> Fault {
    match rng.below(5) {
        0 => Fault::Reset {
            code: *rng.pick(&CODES),
            at: *rng.pick(&[ResetAt::BeforeHeaders, ResetAt::InsideHeaderFrame, ResetAt::BetweenFrames, ResetAt::InsideData, ResetAt::AfterLastFrame]),
        },
        1 => Fault::Stop { code: *rng.pick(&CODES) },
        2 => Fault::Malformed { in_trailers: rng.chance(1, 4), which: rng.usize(100) },
        3 => Fault::Oversized,
        _ => Fault::FinBeforeHeaders,
    }
}

/// malformed field lists (validly encoded): MUST_REJECT per the C12 reference predicate
fn malformed_fields(is_request: bool, in_trailers: bool, which: usize) -> Vec<rq::Field> {
    let f = |n: &[u8], v: &[u8]| (n.to_vec(), v.to_vec());
    if in_trailers {
        let opts: Vec<Vec<rq::Field>> = vec![vec![f(b"X-Upper", b"v")], vec![f(b"bad name", b"v")], vec![f(b"x", b"a\nb")], vec![f(b"", b"v")], vec![f(b"x", b"a\x00b")]];
        return opts[which % opts.len()].clone();
    }
    if is_request {
        let base = |skip: &[u8]| -> Vec<rq::Field> {
            [(&b":method"[..], &b"GET"[..]), (b":scheme", b"https"), (b":authority", b"example.com"), (b":path", b"/")]
                .iter()
                .filter(|(n, _)| *n != skip)
                .map(|(n, v)| f(n, v))
                .collect()
        };
        let mut opts: Vec<Vec<rq::Field>> = vec![base(b":method"), base(b":authority")];
        for extra in [f(b"X-Upper", b"v"), f(b"bad name", b"v"), f(b"x", b"a\rb"), f(b":unknown", b"v"), f(b"host", b"other.example"), f(b"", b"v")] {
            let mut l = base(b"");
            l.push(extra);
            opts.push(l);
        }
        let mut l = base(b":method");
        l.insert(0, f(b":method", b"G T"));
        opts.push(l);
        opts[which % opts.len()].clone()
    } else {
        let opts: Vec<Vec<rq::Field>> = vec![
            vec![f(b"x", b"no status")],
            vec![f(b":status", b"20")],
            vec![f(b":status", b"abc")],
            vec![f(b":status", b"200"), f(b"X-Upper", b"v")],
            vec![f(b":status", b"200"), f(b"x", b"a\nb")],
            vec![f(b":status", b"200"), f(b":unknown", b"v")],
        ];
        opts[which % opts.len()].clone()
    }
}

/// frames the raw peer sends for a request/response with (or without) a fault, plus how the
/// stream is ended
struct RawPlan {
    frames: Vec<Vec<u8>>,
    /// number of bytes to write before the reset (Reset faults)
    reset_after_bytes: Option<(usize, u64)>,
    fin: bool,
    stop: Option<u64>,
}

fn raw_plan(m: &Msg, is_request: bool, fault: Option<&Fault>, rng: &mut Rng, rep: &mut Report) -> RawPlan {
    let mut frames = wiremsg::message_frames(m, is_request, true, rng);
    let mut plan = RawPlan { frames: vec![], reset_after_bytes: None, fin: true, stop: None };
    match fault {
        None => {}
        Some(Fault::Stop { code }) => plan.stop = Some(*code),
        Some(Fault::FinBeforeHeaders) => {
            frames = if rng.bool() { vec![rf::frame(0x21, b"only unknown")] } else { vec![] };
        }
        Some(Fault::Malformed { in_trailers, which }) => {
            let section = rq::encode_section(&malformed_fields(is_request, *in_trailers, *which), &rq::EncOpts::default());
            if *in_trailers {
                // valid head + body, malformed trailers
                let mut m2 = m.clone();
                m2.trailers = None;
                frames = wiremsg::message_frames(&m2, is_request, false, rng);
                frames.push(rf::frame(rf::T_HEADERS, &section));
            } else {
                frames = vec![rf::frame(rf::T_HEADERS, &section), rf::frame(rf::T_DATA, b"body")];
            }
        }
        Some(Fault::Oversized) => {
            let mut m2 = m.clone();
            m2.headers.push(("x-filler".into(), vec![b'f'; LIMIT as usize + 10]));
            frames = wiremsg::message_frames(&m2, is_request, false, rng);
        }
        Some(Fault::Reset { code, at }) => {
            // find the offset
            let lens: Vec<usize> = frames.iter().map(|f| f.len()).collect();
            let total: usize = lens.iter().sum();
            let first_headers = frames.iter().position(|f| f[0] == 0x01).unwrap_or(0);
            let start_of = |i: usize| -> usize { lens[..i].iter().sum() };
            let data_idx: Vec<usize> = frames.iter().enumerate().filter(|(_, f)| f[0] == 0x00 && f.len() > 3).map(|(i, _)| i).collect();
            let (off, class) = match at {
                ResetAt::BeforeHeaders => (0, ResetAt::BeforeHeaders),
                ResetAt::InsideHeaderFrame => (start_of(first_headers) + 1 + rng.usize(lens[first_headers] - 1), ResetAt::InsideHeaderFrame),
                ResetAt::BetweenFrames => {
                    let i = 1 + rng.usize(frames.len());
                    (start_of(i.min(frames.len())), ResetAt::BetweenFrames)
                }
                ResetAt::InsideData => {
                    if let Some(i) = data_idx.get(rng.usize(data_idx.len().max(1))) {
                        (start_of(*i) + 2 + rng.usize(lens[*i] - 2), ResetAt::InsideData)
                    } else {
                        (start_of(first_headers) + 1, ResetAt::InsideHeaderFrame)
                    }
                }
                ResetAt::AfterLastFrame => (total, ResetAt::AfterLastFrame),
            };
            rep.count(&format!("reset_class[{:?}]", class));
            plan.reset_after_bytes = Some((off, *code));
            plan.fin = false;
        }
    }
    plan.frames = frames;
    plan
}

fn raw_steps(side: usize, id: u64, plan: RawPlan, rng: &mut Rng) -> Vec<ScriptStep> {
    let mut steps = Vec::new();
    let all: Vec<u8> = plan.frames.concat();
    if let Some((off, code)) = plan.reset_after_bytes {
        if off > 0 {
            steps.push(raw::step_write(side, id, all[..off].to_vec()));
        } else {
            // make the stream exist for the peer: a reset alone surfaces it
        }
        // the reset is sent either as soon as possible (it may then overtake data) or only once
        // h3 has pulled a chosen part of the written bytes out of the transport - h3 reads one
        // chunk ahead of the application, so the reset then finds payload still buffered in h3
        if off > 0 && rng.bool() {
            let need = off - rng.usize(off / 2 + 1);
            steps.push(raw::step_custom(
                "reset after h3 read a prefix",
                move |n| n.streams.get(&id).map(|s| s.pipe(side).read >= need || n.closed.is_some()).unwrap_or(false),
                move |n, _| n.raw_reset(side, id, code),
            ));
        } else {
            steps.push(raw::step_reset(side, id, code));
        }
        return steps;
    }
    // write frame by frame so that other streams interleave
    for f in plan.frames {
        steps.push(raw::step_write(side, id, f));
    }
    if plan.fin {
        steps.push(raw::step_fin(side, id));
    }
    if let Some(code) = plan.stop {
        let at = rng.usize(steps.len() + 1);
        steps.insert(at, raw::step_stop(side, id, code));
    }
    steps
}

fn viol(rep: &mut Report, rule: &str, detail: String, _case: &serde_json::Value) {
    rep.staged.push((priority(rule), rule.to_string(), detail));
}

fn priority(rule: &str) -> u32 {
    let order = ["panic", "connection-closed", "faulty-stream-connection-error", "faulty-stream-wrong-error", "faulty-stream-no-error", "driver", "healthy-neighbour", "wire"];
    order.iter().position(|p| rule.starts_with(p)).unwrap_or(order.len()) as u32
}

fn recv_op(op: &str) -> bool {
    matches!(op, "resolve_request" | "recv_response" | "recv_data" | "recv_trailers")
}
fn send_op(op: &str) -> bool {
    matches!(op, "send_request" | "send_response" | "send_data" | "send_trailers" | "finish")
}

/// Judge the events of a faulty stream on the h3 side. Returns true when the connection-error
/// don't-care applied (client, FIN before HEADERS).
fn judge_faulty(fault: &Fault, evs: &[Ev], h3_is_server: bool, limit: u64, what: &str, rep: &mut Report, case: &serde_json::Value) -> bool {
    let errs: Vec<&Ev> = evs.iter().filter(|e| matches!(e.out, Out::Err(_))).collect();
    let conn_err = errs.iter().find(|e| matches!(&e.out, Out::Err(AErr::Conn(_))));
    if let Some(e) = conn_err {
        if !h3_is_server && *fault == Fault::FinBeforeHeaders {
            rep.count("dont_care[client FIN-before-HEADERS => connection error]");
            return true;
        }
        viol(rep, &format!("faulty-stream-connection-error[{}]", fault_name(fault)), format!("{}: {} {} returned a connection error: {:?}", what, e.actor, e.op, e.out), case);
        return false;
    }
    let expect_class = |e: &Ev| -> Option<String> {
        match (&e.out, fault) {
            (Out::Err(AErr::RemoteTerminate { code }), Fault::Reset { code: c, .. }) if recv_op(e.op) => {
                if code == c {
                    None
                } else {
                    Some(format!("RemoteTerminate carries {:#x}, the peer reset with {:#x}", code, c))
                }
            }
            (Out::Err(AErr::RemoteTerminate { code }), Fault::Stop { code: c }) if send_op(e.op) => {
                if code == c {
                    None
                } else {
                    Some(format!("RemoteTerminate carries {:#x}, the peer stopped with {:#x}", code, c))
                }
            }
            (Out::Err(AErr::Stream { code, .. }), Fault::Malformed { .. }) if recv_op(e.op) => {
                if *code == rf::H3_MESSAGE_ERROR {
                    None
                } else {
                    Some(format!("stream error {:#x} instead of H3_MESSAGE_ERROR", code))
                }
            }
            (Out::Err(AErr::HeaderTooBig { max, .. }), Fault::Oversized) if recv_op(e.op) => {
                if *max == limit {
                    None
                } else {
                    Some(format!("HeaderTooBig reports max {}, configured {}", max, limit))
                }
            }
            (Out::Err(AErr::Stream { code, .. }), Fault::FinBeforeHeaders) if recv_op(e.op) => {
                if *code == rf::H3_REQUEST_INCOMPLETE || !h3_is_server {
                    None
                } else {
                    Some(format!("stream error {:#x} instead of H3_REQUEST_INCOMPLETE", code))
                }
            }
            // after the server app reset/dropped the stream because of the fault, the raw peer does nothing more
            (other, f) => Some(format!("{:?} for fault {:?}", other, f)),
        }
    };
    for e in &errs {
        if let Some(why) = expect_class(e) {
            viol(rep, &format!("faulty-stream-wrong-error[{}:{}]", fault_name(fault), e.op), format!("{}: {} {}: {}", what, e.actor, e.op, why), case);
            return false;
        }
    }
    // a stream the peer reset instead of finishing can never be reported as a complete message:
    // whatever the offset, the receiving calls cannot all end well (the end of the message is only
    // known from a FIN, which never comes)
    if let Fault::Reset { code, at } = fault {
        let clean_end = evs.iter().rev().find(|e| recv_op(e.op)).map(|e| e.op == "recv_trailers" && matches!(e.out, Out::Trailers(_) | Out::None)).unwrap_or(false);
        if clean_end && errs.is_empty() {
            viol(rep, &format!("reset-not-reported[{:?}]", at), format!("{}: the peer reset the stream with {:#x} instead of finishing it, yet every receiving call ended well and recv_trailers reported the end of the message", what, code), case);
            return false;
        }
    }
    // faults that must surface
    let must_surface = matches!(fault, Fault::Malformed { .. } | Fault::Oversized | Fault::FinBeforeHeaders);
    if must_surface && errs.is_empty() {
        viol(rep, &format!("faulty-stream-no-error[{}]", fault_name(fault)), format!("{}: no call reported the fault; events: {:?}", what, evs.iter().map(|e| format!("{}->{}", e.op, short(&e.out))).collect::<Vec<_>>()), case);
        return false;
    }
    if let Some(e) = errs.first() {
        let cls = match &e.out {
            Out::Err(AErr::RemoteTerminate { .. }) => "RemoteTerminate",
            Out::Err(AErr::HeaderTooBig { .. }) => "HeaderTooBig",
            Out::Err(AErr::Stream { code, .. }) if *code == rf::H3_MESSAGE_ERROR => "H3_MESSAGE_ERROR",
            Out::Err(AErr::Stream { code, .. }) if *code == rf::H3_REQUEST_INCOMPLETE => "H3_REQUEST_INCOMPLETE",
            _ => "other",
        };
        rep.count(&format!("faulty_stream_reported[{}]", cls));
    } else {
        rep.count("faulty_stream_fault_not_observed(overtaken or too late)");
    }
    false
}

/// What the peer is told about a fault h3 detected on a stream (sim pipes): a stream error is an
/// abort of the stream carrying the code (RFC 9114 8: RESET_STREAM and/or STOP_SENDING), never a
/// clean end. `h3_side`'s sending pipe and the STOP_SENDING it issued on the other one are looked at.
fn judge_wire_signal(fault: &Fault, reported: bool, nn: &sim::NetInner, sid: u64, h3_side: usize, what: &str, rep: &mut Report, case: &serde_json::Value) {
    if !reported {
        return;
    }
    let st = &nn.streams[&sid];
    let out = st.pipe(h3_side); // h3 -> peer
    let inn = st.pipe(1 - h3_side); // peer -> h3 (h3 may have asked to stop it)
    let explicit_stop = if inn.stop_implicit { None } else { inn.stop_sent };
    let h3_is_server = h3_side == SERVER;
    match fault {
        Fault::FinBeforeHeaders if h3_is_server => {
            rep.count("wire_signal_checked[FinBeforeHeaders]");
            // RFC 9114 4.1: the server aborts its response stream with H3_REQUEST_INCOMPLETE
            match out.reset_sent {
                Some(c) if c == rf::H3_REQUEST_INCOMPLETE => {}
                Some(c) => viol(rep, "faulty-stream-wire-code[FinBeforeHeaders]", format!("{}: response side reset with {:#x} instead of H3_REQUEST_INCOMPLETE", what, c), case),
                None => viol(rep, "faulty-stream-not-aborted-on-the-wire[FinBeforeHeaders]", format!("{}: the application was told H3_REQUEST_INCOMPLETE but the response side was not reset (fin_sent={} bytes={}): the peer sees a clean, empty response", what, out.fin_sent, out.sent.len()), case),
            }
        }
        Fault::Malformed { in_trailers: false, .. } if h3_is_server => {
            rep.count("wire_signal_checked[Malformed head]");
            match (out.reset_sent, explicit_stop) {
                (Some(c), _) if c == rf::H3_MESSAGE_ERROR => {}
                (Some(c), _) => viol(rep, "faulty-stream-wire-code[Malformed]", format!("{}: response side reset with {:#x} instead of H3_MESSAGE_ERROR", what, c), case),
                (None, _) => viol(rep, "faulty-stream-not-aborted-on-the-wire[Malformed]", format!("{}: the application was told H3_MESSAGE_ERROR but the response side was not reset (fin_sent={} bytes={} stop_sending={:?}): the peer sees a clean end without a response", what, out.fin_sent, out.sent.len(), explicit_stop), case),
            }
        }
        Fault::Malformed { in_trailers, .. } => {
            // client (head or trailers) / server trailers: the receiving side of the message is
            // abandoned with an explicit STOP_SENDING (the request side stays the application's)
            rep.count(if *in_trailers { "wire_signal_checked[Malformed trailers]" } else { "wire_signal_checked[Malformed response]" });
            match explicit_stop {
                Some(c) if c == rf::H3_MESSAGE_ERROR || c == rf::H3_REQUEST_CANCELLED => {}
                Some(c) => viol(rep, "faulty-stream-wire-code[Malformed]", format!("{}: STOP_SENDING carries {:#x}, neither H3_MESSAGE_ERROR nor H3_REQUEST_CANCELLED", what, c), case),
                None if inn.fin_read || inn.reset_delivered => {
                    // everything had been read already: nothing left to stop
                    rep.count("wire_signal_nothing_left_to_stop");
                }
                None => viol(rep, "faulty-stream-not-aborted-on-the-wire[Malformed]", format!("{}: the application was told H3_MESSAGE_ERROR but h3 sent no STOP_SENDING for the rest of the message", what), case),
            }
        }
        _ => {}
    }
}

fn short(o: &Out) -> String {
    match o {
        Out::Data(d) => format!("Data({})", d.len()),
        Out::Request { .. } => "Request".into(),
        Out::Response { status, .. } => format!("Response({})", status),
        other => format!("{:?}", other).chars().take(100).collect(),
    }
}

/// what h3 wrote for a healthy message must decode to the plan
fn check_wire_message(bytes: &[u8], explicit_fin: bool, m: &Msg, is_request: bool, what: &str, rep: &mut Report, case: &serde_json::Value) {
    let d = wiremsg::decode_stream(bytes);
    for p in &d.problems {
        viol(rep, "healthy-neighbour-wire", format!("{}: {}", what, p), case);
    }
    let Some(head) = &d.head else {
        viol(rep, "healthy-neighbour-wire-no-head", format!("{}: no HEADERS frame on the wire", what), case);
        return;
    };
    let want_head = if is_request { wiremsg::request_fields(m) } else { wiremsg::response_fields(m) };
    let pseudo_of = |f: &[rq::Field]| -> Vec<rq::Field> { f.iter().filter(|(n, _)| n.first() == Some(&b':')).cloned().collect() };
    let mut a = pseudo_of(head);
    let mut b = pseudo_of(&want_head);
    a.sort();
    b.sort();
    if a != b {
        viol(rep, "healthy-neighbour-wire-pseudo-fields", format!("{}: wire pseudo-fields differ from the message", what), case);
    }
    if msggen::per_name(&wiremsg::regular_fields(head)) != msggen::per_name(&m.headers) {
        viol(rep, "healthy-neighbour-wire-fields", format!("{}: regular fields on the wire differ", what), case);
    }
    if d.body != m.body_concat() {
        viol(rep, "healthy-neighbour-wire-body", format!("{}: body on the wire has {} bytes, message {} bytes", what, d.body.len(), m.body_concat().len()), case);
    }
    let tr = d.trailers.as_ref().map(|t| msggen::per_name(&wiremsg::regular_fields(t)));
    let want_tr = m.trailers.as_ref().map(msggen::per_name);
    if tr != want_tr && !(tr.as_ref().map(|t| t.is_empty()).unwrap_or(true) && want_tr.as_ref().map(|t| t.is_empty()).unwrap_or(true)) {
        viol(rep, "healthy-neighbour-wire-trailers", format!("{}: trailers on the wire differ", what), case);
    }
    if !explicit_fin || d.partial_tail {
        viol(rep, "healthy-neighbour-wire-not-finished", format!("{}: stream not finished cleanly (fin {}, partial tail {})", what, explicit_fin, d.partial_tail), case);
    }
}

struct Assign {
    faults: Vec<Option<Fault>>,
}

fn gen_assign(n: usize, rng: &mut Rng) -> Assign {
    loop {
        let faults: Vec<Option<Fault>> = (0..n).map(|_| if rng.bool() { Some(gen_fault(rng)) } else { None }).collect();
        let k = faults.iter().filter(|f| f.is_some()).count();
        if k >= 1 && k < n {
            return Assign { faults };
        }
    }
}

fn small_opts() -> GenOpts {
    GenOpts { max_body: 1500, max_fields: 5, allow_connect: false, ..Default::default() }
}

fn check_server_role(seed: u64, rep: &mut Report) {
    let mut rng = Rng::new(seed);
    let n = 2 + rng.usize(3);
    let asg = gen_assign(n, &mut rng);
    let o = small_opts();
    let reqs: Vec<Msg> = (0..n).map(|_| msggen::gen_request(&mut rng, &o)).collect();
    let resps: Vec<RespPlan> = (0..n).map(|_| RespPlan { resp: msggen::gen_response(&mut rng, &o), split: rng.chance(1, 3), ..Default::default() }).collect();
    let case = json!({"setup": "server vs raw client", "requests": n, "faults": asg.faults.iter().map(|f| format!("{:?}", f)).collect::<Vec<_>>(), "split": resps.iter().map(|r| r.split).collect::<Vec<_>>()});
    rep.evaluations += 1;
    rep.count("connections");
    let mut cfg = NetCfg::random(&mut rng);
    cfg.backpressure = rng.bool();
    cfg.ordered_accept = rng.bool();
    let net = sim::new_net(cfg);
    let mut ids = Vec::new();
    {
        let mut nn = lock(&net);
        raw::mark_raw(&mut nn, CLIENT);
        raw::open_control(&mut nn, CLIENT, &[]);
        for _ in 0..n {
            ids.push(nn.raw_open(CLIENT, true));
        }
    }
    let probe = Probe::new(&net);
    let mut sched = Sched::new(net.clone(), rng.next());
    for i in 0..n {
        if let Some(f) = &asg.faults[i] {
            rep.count(&format!("fault[{}]", fault_name(f)));
        }
        let plan = raw_plan(&reqs[i], true, asg.faults[i].as_ref(), &mut rng, rep);
        let steps = raw_steps(CLIENT, ids[i], plan, &mut rng);
        sched.add_script(steps);
    }
    let sopts = ServerOpts { cfg: SrvCfg { max_field_section_size: Some(LIMIT), ..Default::default() }, plans: resps.clone(), ..Default::default() };
    let sp = sched.spawner.clone();
    sched.spawn("s:conn", apps::server_main::<Bytes>(net.clone(), sopts, probe.clone(), sp));
    let end = sched.run(5_000_000);
    rep.sig(hash64(&("srv", format!("{}", case), sched.sig)));
    rep.sig_in("interleaving_signatures", sched.sig);
    if end == RunEnd::StepCap {
        rep.inconclusive("step cap");
        return;
    }
    if let Some((t, p)) = sched.first_panic() {
        viol(rep, &format!("panic[{} {}]", p.file(), p.msg_key()), format!("task {}: {} at {}", t, p.msg, p.loc), &case);
        c01::flush_staged(rep, "C07", &case);
        return;
    }
    let evs = probe.events();
    let nn = lock(&net);
    if let Some(c) = nn.closed.as_ref() {
        if c.by == SERVER {
            viol(rep, &format!("connection-closed[{:#x}]", c.code), format!("the server closed the connection with {:#x} ({})", c.code, String::from_utf8_lossy(&c.reason)), &case);
        }
    }
    if evs.iter().any(|e| e.actor == "s:conn" && e.op == "accept" && matches!(e.out, Out::ConnErr(_))) {
        viol(rep, "driver-stopped", "accept() returned a connection error".into(), &case);
    }
    if !probe.open().contains_key("s:conn") {
        viol(rep, "driver-not-accepting", "the accept loop ended although the connection is healthy".into(), &case);
    }
    let accept_order: Vec<u64> = evs.iter().filter_map(|e| if let Out::Accepted(s) = e.out { Some(s) } else { None }).collect();
    for i in 0..n {
        let sid = ids[i];
        let act = format!("s:req@{}", sid);
        let sevs: Vec<Ev> = evs.iter().filter(|e| e.actor == act || e.actor.starts_with(&format!("{}:", act))).cloned().collect();
        let what = format!("request stream {}", sid);
        match &asg.faults[i] {
            Some(f) => {
                judge_faulty(f, &sevs, true, LIMIT, &what, rep, &case);
                let reported = sevs.iter().any(|e| matches!(e.out, Out::Err(AErr::Stream { .. })));
                judge_wire_signal(f, reported, &nn, sid, SERVER, &what, rep, &case);
                if *f == Fault::Oversized {
                    // 431 answer expected (the raw client advertised no limit)
                    let d = wiremsg::decode_stream(&nn.streams[&sid].pipe(SERVER).sent);
                    let is431 = d.head.as_ref().and_then(|h| wiremsg::pseudo(h, ":status")) == Some(b"431".to_vec());
                    if !is431 {
                        viol(rep, "faulty-stream-no-431", format!("{}: oversized request not answered with 431", what), &case);
                    }
                }
                // a Stop fault leaves the request itself healthy: it must be delivered intact
                if matches!(f, Fault::Stop { .. }) {
                    c01_check_request(&reqs[i], &sevs, &what, rep, &case);
                }
            }
            None => {
                rep.count("healthy_neighbours_checked");
                if let Some(e) = sevs.iter().find(|e| matches!(e.out, Out::Err(_))) {
                    viol(rep, &format!("healthy-neighbour-call-failed[{}]", e.op), format!("{}: {} {} -> {:?}", what, e.actor, e.op, e.out), &case);
                    continue;
                }
                c01_check_request(&reqs[i], &sevs, &what, rep, &case);
                let Some(pos) = accept_order.iter().position(|s| *s == sid) else {
                    viol(rep, "healthy-neighbour-never-accepted", format!("{} was never returned by accept()", what), &case);
                    continue;
                };
                let p = nn.streams[&sid].pipe(SERVER);
                check_wire_message(&p.sent, p.fin_sent && !p.fin_implicit, &resps[pos.min(n - 1)].resp, false, &format!("response on stream {}", sid), rep, &case);
                if !sevs.iter().any(|e| e.op == "finish" && e.out == Out::Ok) {
                    viol(rep, "healthy-neighbour-not-completed", format!("{}: finish() did not return Ok", what), &case);
                }
            }
        }
    }
    let (finds, _) = wire::check_output(&nn, SERVER, wire::WireOpts::default());
    for f in finds {
        viol(rep, &format!("wire[{}]", f.rule), format!("server stream {}: {}", f.stream, f.detail), &case);
    }
    drop(nn);
    if rep.want_sample() {
        rep.sample(json!({"case": case, "steps": sched.steps}));
    }
    c01::flush_staged(rep, "C07", &case);
}

/// request equality through C01's oracle (stages violations under C01's rule names, re-prefixed)
fn c01_check_request(m: &Msg, sevs: &[Ev], what: &str, rep: &mut Report, case: &serde_json::Value) {
    let before = rep.staged.len();
    c01_direction(what, m, sevs.iter().find(|e| e.op == "resolve_request"), sevs, rep, case);
    for s in rep.staged.iter_mut().skip(before) {
        s.1 = format!("healthy-neighbour-{}", s.1);
        s.0 = priority("healthy-neighbour");
    }
}
fn c01_check_response(m: &Msg, cevs: &[Ev], what: &str, rep: &mut Report, case: &serde_json::Value) {
    let before = rep.staged.len();
    c01_direction(what, m, cevs.iter().find(|e| e.op == "recv_response"), cevs, rep, case);
    for s in rep.staged.iter_mut().skip(before) {
        s.1 = format!("healthy-neighbour-{}", s.1);
        s.0 = priority("healthy-neighbour");
    }
}
fn c01_direction(what: &str, m: &Msg, head: Option<&Ev>, evs: &[Ev], rep: &mut Report, case: &serde_json::Value) {
    c01::check_direction_pub(what, m, head, evs, rep, case);
}

fn check_client_role(seed: u64, rep: &mut Report) {
    let mut rng = Rng::new(seed);
    let n = 2 + rng.usize(3);
    let asg = gen_assign(n, &mut rng); // indexed by stream index k (stream id 4k)
    let o = small_opts();
    let reqs: Vec<ReqPlan> = (0..n)
        .map(|_| {
            let mut m = msggen::gen_request(&mut rng, &o);
            if m.body.is_empty() {
                m.body = vec![vec![7u8; 300], vec![9u8; 200]];
            }
            ReqPlan { req: m, split: rng.chance(1, 3), ..Default::default() }
        })
        .collect();
    let resps: Vec<Msg> = (0..n).map(|_| msggen::gen_response(&mut rng, &o)).collect();
    let case = json!({"setup": "client vs raw server", "requests": n, "faults_by_stream": asg.faults.iter().map(|f| format!("{:?}", f)).collect::<Vec<_>>(), "split": reqs.iter().map(|r| r.split).collect::<Vec<_>>()});
    rep.evaluations += 1;
    rep.count("connections");
    let mut cfg = NetCfg::random(&mut rng);
    cfg.backpressure = rng.bool();
    let net = sim::new_net(cfg);
    {
        let mut nn = lock(&net);
        raw::mark_raw(&mut nn, SERVER);
        raw::open_control(&mut nn, SERVER, &[]);
    }
    let probe = Probe::new(&net);
    let mut sched = Sched::new(net.clone(), rng.next());
    for k in 0..n {
        let sid = 4 * k as u64;
        if let Some(f) = &asg.faults[k] {
            rep.count(&format!("fault[{}]", fault_name(f)));
        }
        let plan = raw_plan(&resps[k], false, asg.faults[k].as_ref(), &mut rng, rep);
        let mut steps = raw_steps(SERVER, sid, plan, &mut rng);
        if steps.is_empty() {
            steps.push(raw::step_fin(SERVER, sid));
        }
        sched.add_script(steps);
    }
    let copts = ClientOpts { cfg: CliCfg { max_field_section_size: Some(LIMIT), ..Default::default() }, reqs: reqs.clone(), sequential: false, ..Default::default() };
    let sp = sched.spawner.clone();
    sched.spawn("c:conn", apps::client_main::<Bytes>(net.clone(), copts, probe.clone(), sp));
    let end = sched.run(5_000_000);
    rep.sig(hash64(&("cli", format!("{}", case), sched.sig)));
    rep.sig_in("interleaving_signatures", sched.sig);
    if end == RunEnd::StepCap {
        rep.inconclusive("step cap");
        return;
    }
    if let Some((t, p)) = sched.first_panic() {
        viol(rep, &format!("panic[{} {}]", p.file(), p.msg_key()), format!("task {}: {} at {}", t, p.msg, p.loc), &case);
        c01::flush_staged(rep, "C07", &case);
        return;
    }
    let evs = probe.events();
    if rep.verbose {
        for e in &evs {
            eprintln!("  t={} {} {} -> {}", e.t, e.actor, e.op, short(&e.out));
        }
    }
    let nn = lock(&net);
    let mut dont_care_conn_error = false;
    // first pass: faulty streams
    let sid_of = |i: usize| -> Option<u64> { evs.iter().find_map(|e| if e.actor == format!("c:req#{}", i) { if let Out::Opened(s) = e.out { Some(s) } else { None } } else { None }) };
    for i in 0..n {
        let Some(sid) = sid_of(i) else { continue };
        let k = (sid / 4) as usize;
        if let Some(f) = asg.faults.get(k).and_then(|f| f.as_ref()) {
            let act = format!("c:req#{}", i);
            let cevs: Vec<Ev> = evs.iter().filter(|e| e.actor == act || e.actor.starts_with(&format!("{}:", act))).cloned().collect();
            dont_care_conn_error |= judge_faulty(f, &cevs, false, LIMIT, &format!("response on stream {}", sid), rep, &case);
            let reported = cevs.iter().any(|e| matches!(e.out, Out::Err(AErr::Stream { .. })));
            judge_wire_signal(f, reported, &nn, sid, CLIENT, &format!("response on stream {}", sid), rep, &case);
        }
    }
    if dont_care_conn_error {
        // the whole connection went down for the RFC-defensible reason: nothing else is judged
        rep.staged.clear();
        return;
    }
    if let Some(c) = nn.closed.as_ref() {
        if c.by == CLIENT && c.code != rf::H3_NO_ERROR {
            viol(rep, &format!("connection-closed[{:#x}]", c.code), format!("the client closed the connection with {:#x} ({})", c.code, String::from_utf8_lossy(&c.reason)), &case);
        }
    }
    match evs.iter().find(|e| e.actor == "c:driver" && e.op == "wait_idle").map(|e| &e.out) {
        Some(Out::ConnErr(apps::ConnErr::Local { code, .. })) if *code == rf::H3_NO_ERROR => {}
        other => viol(rep, "driver-result", format!("the driver ended with {:?} instead of the H3_NO_ERROR that follows the last handle drop", other), &case),
    }
    for i in 0..n {
        let Some(sid) = sid_of(i) else {
            // the stream may have been stopped by the peer before the request head was written:
            // then send_request itself reports the stream-level error of a Stop fault
            let sr = evs.iter().find(|e| e.actor == format!("c:req#{}", i) && e.op == "send_request").map(|e| e.out.clone());
            let ok = match &sr {
                Some(Out::Err(AErr::RemoteTerminate { code })) => asg.faults.iter().any(|f| matches!(f, Some(Fault::Stop { code: c }) if c == code)),
                _ => false,
            };
            if ok {
                rep.count("faulty_stream_reported[RemoteTerminate]");
            } else {
                viol(rep, "healthy-neighbour-request-not-opened", format!("request #{} never got a stream: send_request -> {:?}", i, sr), &case);
            }
            continue;
        };
        let k = (sid / 4) as usize;
        if k >= n {
            continue;
        }
        let act = format!("c:req#{}", i);
        let cevs: Vec<Ev> = evs.iter().filter(|e| e.actor == act || e.actor.starts_with(&format!("{}:", act))).cloned().collect();
        let what = format!("stream {}", sid);
        match &asg.faults[k] {
            None => {
                rep.count("healthy_neighbours_checked");
                if let Some(e) = cevs.iter().find(|e| matches!(e.out, Out::Err(_))) {
                    viol(rep, &format!("healthy-neighbour-call-failed[{}]", e.op), format!("{}: {} {} -> {:?}", what, e.actor, e.op, e.out), &case);
                    continue;
                }
                c01_check_response(&resps[k], &cevs, &format!("response on {}", what), rep, &case);
                let p = nn.streams[&sid].pipe(CLIENT);
                check_wire_message(&p.sent, p.fin_sent && !p.fin_implicit, &reqs[i].req, true, &format!("request on {}", what), rep, &case);
            }
            Some(Fault::Reset { .. }) | Some(Fault::Malformed { .. }) | Some(Fault::Oversized) => {
                // the request the client sent is healthy: it must be on the wire in full
                let p = nn.streams[&sid].pipe(CLIENT);
                if !reqs[i].split || true {
                    // in whole-stream mode the request is sent before the response is read
                    if cevs.iter().any(|e| e.op == "finish" && e.out == Out::Ok) {
                        check_wire_message(&p.sent, p.fin_sent && !p.fin_implicit, &reqs[i].req, true, &format!("request on {}", what), rep, &case);
                    }
                }
            }
            _ => {}
        }
    }
    let (finds, _) = wire::check_output(&nn, CLIENT, wire::WireOpts::default());
    for f in finds {
        viol(rep, &format!("wire[{}]", f.rule), format!("client stream {}: {}", f.stream, f.detail), &case);
    }
    drop(nn);
    if rep.want_sample() {
        rep.sample(json!({"case": case, "steps": sched.steps}));
    }
    c01::flush_staged(rep, "C07", &case);
}

fn check_h3_vs_h3(seed: u64, rep: &mut Report) {
    let mut rng = Rng::new(seed);
    let o = small_opts();
    let n = 2 + rng.usize(3);
    let mut c = c01::gen_case(&mut rng, &o, 1);
    c.reqs.clear();
    c.resps.clear();
    c.sequential = false;
    // which exchanges are faulty and how: client resets its request after k pieces (and does not
    // read the response), or the server resets its response after k pieces
    let kinds: Vec<u8>;
    loop {
        let k: Vec<u8> = (0..n).map(|_| rng.below(4) as u8).collect(); // 0,1 healthy; 2 client reset; 3 server reset
        let bad = k.iter().filter(|k| **k >= 2).count();
        if bad >= 1 && bad < n {
            kinds = k;
            break;
        }
    }
    for k in &kinds {
        let mut req = msggen::gen_request(&mut rng, &o);
        let mut resp = msggen::gen_response(&mut rng, &o);
        if req.body.len() < 2 {
            req.body = vec![vec![1u8; 100], vec![2u8; 100], vec![3u8; 50]];
        }
        if resp.body.len() < 2 {
            resp.body = vec![vec![4u8; 100], vec![5u8; 100]];
        }
        let code = *rng.pick(&CODES);
        let mut rp = ReqPlan { req, split: rng.chance(1, 3), ..Default::default() };
        let mut sp = RespPlan { resp, split: rng.chance(1, 3), ..Default::default() };
        match k {
            2 => {
                rp.end = EndMode::Reset(code);
                rp.stop_after_pieces = Some(rng.usize(rp.req.body.len()));
                rp.read_response = false;
                rep.count("fault[Reset]");
                rep.count("reset_class[via stop_stream() on the client]");
            }
            3 => {
                sp.end = EndMode::Reset(code);
                sp.stop_after_pieces = Some(rng.usize(sp.resp.body.len()));
                rep.count("fault[Reset]");
                rep.count("reset_class[via stop_stream() on the server]");
            }
            _ => {}
        }
        c.reqs.push(rp);
        c.resps.push(sp);
    }
    // responses are assigned in accept order: make every response plan faulty-or-not independent of
    // which request it meets by pairing through the stream: not possible with concurrent accepts, so
    // the server fault kind is attached to *accept position*; the monitor maps it back through events.
    rep.evaluations += 1;
    rep.count("connections");
    let case = json!({"setup": "client vs server, resets through the API", "kinds": kinds, "exchanges": c01::describe(&c)});
    let r = c01::run_exchange::<Bytes>(&c, 5_000_000);
    rep.sig(hash64(&("h3h3", format!("{}", case), r.sched_sig)));
    rep.sig_in("interleaving_signatures", r.sched_sig);
    if r.end == RunEnd::StepCap {
        rep.inconclusive("step cap");
        return;
    }
    if let Some((t, p)) = &r.panic {
        viol(rep, &format!("panic[{} {}]", p.file(), p.msg_key()), format!("task {}: {} at {}", t, p.msg, p.loc), &case);
        c01::flush_staged(rep, "C07", &case);
        return;
    }
    let evs = r.probe.events();
    let nn = lock(&r.net);
    for cl in &nn.close_calls {
        if cl.code != rf::H3_NO_ERROR {
            viol(rep, &format!("connection-closed[{:#x}]", cl.code), format!("{} closed with {:#x} ({})", sim::side_name(cl.by), cl.code, String::from_utf8_lossy(&cl.reason)), &case);
        }
    }
    let accept_order: Vec<u64> = evs.iter().filter_map(|e| if let Out::Accepted(s) = e.out { Some(s) } else { None }).collect();
    for (i, q) in c.reqs.iter().enumerate() {
        let cact = format!("c:req#{}", i);
        let cevs: Vec<Ev> = evs.iter().filter(|e| e.actor == cact || e.actor.starts_with(&format!("{}:", cact))).cloned().collect();
        let Some(sid) = cevs.iter().find_map(|e| if let Out::Opened(s) = e.out { Some(s) } else { None }) else { continue };
        let sact = format!("s:req@{}", sid);
        let sevs: Vec<Ev> = evs.iter().filter(|e| e.actor == sact || e.actor.starts_with(&format!("{}:", sact))).cloned().collect();
        let Some(pos) = accept_order.iter().position(|s| *s == sid) else { continue };
        let resp = &c.resps[pos.min(c.resps.len() - 1)];
        let client_reset = matches!(q.end, EndMode::Reset(_));
        let server_reset = matches!(resp.end, EndMode::Reset(_));
        // no call anywhere may report a connection error
        for e in cevs.iter().chain(sevs.iter()) {
            if matches!(&e.out, Out::Err(AErr::Conn(_))) {
                viol(rep, "faulty-stream-connection-error[Reset]", format!("{} {} -> {:?}", e.actor, e.op, e.out), &case);
            }
        }
        if client_reset {
            let EndMode::Reset(code) = q.end else { unreachable!() };
            // the server's receive calls may fail only with RemoteTerminate{code}
            for e in sevs.iter().filter(|e| recv_op(e.op)) {
                match &e.out {
                    Out::Err(AErr::RemoteTerminate { code: c2 }) if *c2 == code => rep.count("faulty_stream_reported[RemoteTerminate]"),
                    Out::Err(other) => viol(rep, &format!("faulty-stream-wrong-error[Reset:{}]", e.op), format!("client reset stream {} with {:#x}; server {} -> {:?}", sid, code, e.op, other), &case),
                    _ => {}
                }
            }
        } else if server_reset {
            let EndMode::Reset(code) = resp.end else { unreachable!() };
            for e in cevs.iter().filter(|e| recv_op(e.op)) {
                match &e.out {
                    Out::Err(AErr::RemoteTerminate { code: c2 }) if *c2 == code => rep.count("faulty_stream_reported[RemoteTerminate]"),
                    Out::Err(other) => viol(rep, &format!("faulty-stream-wrong-error[Reset:{}]", e.op), format!("server reset stream {} with {:#x}; client {} -> {:?}", sid, code, e.op, other), &case),
                    _ => {}
                }
            }
            // the request direction is healthy
            if !sevs.iter().any(|e| matches!(e.out, Out::Err(_)) && recv_op(e.op)) {
                c01_check_request(&q.req, &sevs, &format!("request on stream {}", sid), rep, &case);
            }
        } else {
            rep.count("healthy_neighbours_checked");
            if let Some(e) = cevs.iter().chain(sevs.iter()).find(|e| matches!(e.out, Out::Err(_))) {
                viol(rep, &format!("healthy-neighbour-call-failed[{}]", e.op), format!("stream {}: {} {} -> {:?}", sid, e.actor, e.op, e.out), &case);
                continue;
            }
            c01_check_request(&q.req, &sevs, &format!("request on stream {}", sid), rep, &case);
            c01_check_response(&resp.resp, &cevs, &format!("response on stream {}", sid), rep, &case);
        }
    }
    drop(nn);
    c01::flush_staged(rep, "C07", &case);
}

fn run_case(gen: &str, _index: u64, seed: u64, _tier: Tier, rep: &mut Report) {
    match gen {
        "server_vs_raw_client" => check_server_role(seed, rep),
        "client_vs_raw_server" => check_client_role(seed, rep),
        "h3_vs_h3_api_resets" => check_h3_vs_h3(seed, rep),
        _ => {}
    }
}
