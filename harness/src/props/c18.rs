//! C18 — HTTP Datagrams (RFC 9297 §2.1): quarter stream id + payload, all consumption patterns.

use crate::refimpl::frames::H3_DATAGRAM_ERROR;
use crate::refimpl::varint as rv;
use crate::report::Report;
use crate::util::{hash64, hex, hex_short, Rng};
use crate::{Gen, PropDef, Tier};
use bytes::{Buf, Bytes};
use h3::quic::StreamId;
use h3_datagram::datagram::Datagram;
use serde_json::json;
use std::convert::TryFrom;
use std::io::IoSlice;

pub fn def() -> PropDef {
    PropDef {
        id: "C18",
        rule: "encode: stream ids 4k for every k < 2^16 (complete) + every varint form boundary \
               (63/64, 16383/16384, 2^30-1/2^30, 2^60-1) + random k, payloads 0..1500 B, each \
               encoded buffer drained by a PRNG-chosen pattern of chunk/advance/copy_to_bytes/\
               copy_to_slice/chunks_vectored and compared with ref_varint(k) || payload, then \
               decoded back; segmented (multi-chunk) payload Bufs included. decode: every byte \
               string of length 0..2 (quick) / 0..3 (thorough) complete, every first-byte tag x \
               truncation x boundary value up to 9 bytes, random strings; expected = reference \
               varint decode, x4, range check. Non-trivial = distinct (k, payload hash, drain \
               pattern) or distinct decode input; enumerations counted by construction.",
        assumptions: || {
            vec![
                "reference varint codec (refimpl/varint.rs) is correct".into(),
                "Datagram::new is only called with client-initiated bidirectional ids (4k), as the property states".into(),
            ]
        },
        gens,
        run_case,
        finish,
    }
}

fn gens(tier: Tier) -> Vec<Gen> {
    vec![
        Gen::exhaustive("encode_k_lt_64k", 256),
        Gen::exhaustive("encode_boundaries", 1),
        Gen::new("encode_random", tier.pick(2, 200, 20_000)),
        Gen::exhaustive("decode_len_0_2", 257),
        if tier == Tier::Thorough {
            Gen::exhaustive("decode_len_3", 65536)
        } else {
            Gen::new("decode_len_3_sample", tier.pick(2, 200, 0))
        },
        Gen::exhaustive("decode_tags_truncations", 1),
        Gen::new("decode_random", tier.pick(2, 200, 20_000)),
    ]
}

fn finish(_tier: Tier, rep: &mut Report) {
    if rep.get("encode_checked") < 60_000 {
        rep.inconclusive("fewer than 60000 encodes were checked");
    }
    if rep.get("decode_checked") < 60_000 {
        rep.inconclusive("fewer than 60000 decodes were checked");
    }
    if rep.get("drain[vectored]") == 0 || rep.get("drain[advance_across_seam]") == 0 || rep.get("drain[copy_to_bytes_partial]") == 0 {
        rep.inconclusive("a consumption pattern was never exercised");
    }
    if rep.get("skip_crosses_seam") < 10_000 {
        rep.inconclusive("fewer than 10000 single advances across the header/payload seam");
    }
}

/// Payload Buf made of several non-contiguous segments (possibly empty ones in front).
#[derive(Clone, Debug)]
pub struct SegBuf {
    segs: std::collections::VecDeque<Bytes>,
}
impl SegBuf {
    pub fn new(data: &[u8], rng: &mut Rng) -> Self {
        let mut segs = std::collections::VecDeque::new();
        let mut i = 0;
        while i < data.len() {
            let n = 1 + rng.usize((data.len() - i).min(400));
            segs.push_back(Bytes::copy_from_slice(&data[i..i + n]));
            i += n;
        }
        SegBuf { segs }
    }
}
impl Buf for SegBuf {
    fn remaining(&self) -> usize {
        self.segs.iter().map(|s| s.len()).sum()
    }
    fn chunk(&self) -> &[u8] {
        self.segs.front().map(|s| &s[..]).unwrap_or(&[])
    }
    fn advance(&mut self, mut cnt: usize) {
        while cnt > 0 {
            let f = self.segs.front_mut().expect("advance past end");
            if cnt < f.len() {
                f.advance(cnt);
                return;
            }
            cnt -= f.len();
            self.segs.pop_front();
        }
        while matches!(self.segs.front(), Some(f) if f.is_empty()) {
            self.segs.pop_front();
        }
    }
}

fn viol(rep: &mut Report, rule: &str, detail: String, case: serde_json::Value) {
    rep.violation(format!("C18/{}", rule), detail, case);
}

/// Drain `buf` with a PRNG-chosen pattern, returning the bytes observed.
fn drain<B: Buf>(mut buf: B, pattern: u64, rng: &mut Rng, rep: &mut Report) -> Result<Vec<u8>, String> {
    let mut out = Vec::new();
    let total = buf.remaining();
    let mut guard = 0;
    while buf.has_remaining() {
        guard += 1;
        if guard > 100_000 {
            return Err("drain does not terminate".into());
        }
        let rem = buf.remaining();
        // pattern 7: a consumer that mixes the reading methods on one buffer
        let pattern = if pattern == 7 { *rng.pick(&[1u64, 2, 4, 6, 6]) } else { pattern };
        match pattern {
            6 => {
                // copy_to_bytes of small sizes: ends inside the header, on the seam, inside the payload
                let n = 1 + rng.usize(rem.min(11));
                let b = buf.copy_to_bytes(n);
                if b.len() != n {
                    return Err(format!("copy_to_bytes({}) returned {} bytes", n, b.len()));
                }
                out.extend_from_slice(&b);
                rep.count("drain[copy_to_bytes_partial]");
            }
            0 => {
                // chunk + advance whole chunk
                let c = buf.chunk().to_vec();
                if c.is_empty() {
                    return Err(format!("empty chunk with {} remaining", rem));
                }
                if c.len() > rem {
                    return Err("chunk longer than remaining".into());
                }
                out.extend_from_slice(&c);
                buf.advance(c.len());
                rep.count("drain[chunk_advance]");
            }
            1 => {
                // advance by random amounts inside the chunk (1..=chunk.len())
                let c = buf.chunk();
                if c.is_empty() {
                    return Err(format!("empty chunk with {} remaining", rem));
                }
                let n = 1 + rng.usize(c.len());
                out.extend_from_slice(&c[..n]);
                buf.advance(n);
                rep.count("drain[partial_advance]");
            }
            2 => {
                // copy_to_slice of random sizes (crosses the header/payload seam)
                let n = 1 + rng.usize(rem.min(11));
                let mut tmp = vec![0u8; n];
                buf.copy_to_slice(&mut tmp);
                out.extend_from_slice(&tmp);
                rep.count("drain[copy_to_slice]");
            }
            3 => {
                // copy_to_bytes everything (what h3-quinn does)
                let b = buf.copy_to_bytes(rem);
                out.extend_from_slice(&b);
                rep.count("drain[copy_to_bytes_all]");
            }
            4 => {
                // peek first byte via chunk, then advance across the seam by arbitrary counts
                let first = buf.chunk()[0];
                let n = 1 + rng.usize(rem.min(9));
                // read n bytes one by one through a clone-free path: collect via get_u8
                out.push(first);
                buf.advance(1);
                for _ in 1..n {
                    out.push(buf.get_u8());
                }
                rep.count("drain[advance_across_seam]");
            }
            _ => {
                // chunks_vectored must describe a prefix of the remaining bytes
                let mut slices = [IoSlice::new(&[]); 4];
                let k = buf.chunks_vectored(&mut slices);
                let mut n = 0;
                for s in slices.iter().take(k) {
                    out.extend_from_slice(s);
                    n += s.len();
                }
                if n == 0 {
                    // fall back to chunk
                    let c = buf.chunk().to_vec();
                    if c.is_empty() {
                        return Err("no progress possible".into());
                    }
                    out.extend_from_slice(&c);
                    n = c.len();
                }
                if n > rem {
                    return Err("vectored slices longer than remaining".into());
                }
                buf.advance(n);
                rep.count("drain[vectored]");
            }
        }
    }
    if out.len() != total {
        return Err(format!("remaining() said {} but {} bytes were produced", total, out.len()));
    }
    Ok(out)
}

fn check_encode(k: u64, payload: &[u8], segmented: bool, rng: &mut Rng, rep: &mut Report) {
    rep.evaluations += 1;
    rep.count("encode_checked");
    let sid_raw = k * 4;
    let sid = StreamId::try_from(sid_raw).expect("valid stream id");
    let mut expect = rv::encode(k).unwrap();
    expect.extend_from_slice(payload);
    let pattern = rng.below(8);
    let case = json!({"stream_id": sid_raw, "payload": hex_short(payload, 24), "payload_len": payload.len(), "drain_pattern": pattern, "segmented_payload": segmented});
    let got = crate::panics::catch(|| {
        if segmented {
            let d = Datagram::new(sid, SegBuf::new(payload, &mut rng.fork()));
            drain(d.encode(), pattern, rng, rep)
        } else {
            let d = Datagram::new(sid, Bytes::copy_from_slice(payload));
            drain(d.encode(), pattern, rng, rep)
        }
    });
    let got = match got {
        Err(p) => {
            viol(rep, "encode-panics", format!("encode/drain panicked: {} at {}", p.msg, p.loc), case);
            return;
        }
        Ok(Err(e)) => {
            viol(rep, "encoded-buf-contract", format!("Buf contract broken: {}", e), case);
            return;
        }
        Ok(Ok(g)) => g,
    };
    if got != expect {
        let rule = if got.len() == expect.len() && got[expect.len() - payload.len()..] == *payload {
            "encode-wrong-quarter-stream-id"
        } else {
            "encode-wrong-bytes"
        };
        viol(
            rep,
            rule,
            format!(
                "Datagram::new({}, {} B).encode() = {} expected {}",
                sid_raw,
                payload.len(),
                hex_short(&got, 16),
                hex_short(&expect, 16)
            ),
            case.clone(),
        );
    }
    // decode(reference bytes) gives back S and P
    match Datagram::decode(Bytes::from(expect.clone())) {
        Ok(d) => {
            if d.stream_id().into_inner() != sid_raw || d.payload()[..] != *payload {
                viol(
                    rep,
                    "decode-roundtrip",
                    format!("decode({}) -> stream {} payload {}", hex_short(&expect, 16), d.stream_id().into_inner(), hex_short(d.payload(), 16)),
                    case,
                );
            } else if d.into_payload()[..] != *payload {
                viol(rep, "decode-into_payload", "into_payload differs".into(), json!({"stream_id": sid_raw}));
            }
        }
        Err(e) => viol(rep, "decode-rejects-valid", format!("decode({}) failed: {:?}", hex_short(&expect, 16), e), case),
    }
    // skipping: one advance(n) for every n around the header/payload seam (and a few beyond) must
    // leave exactly the suffix expect[n..], with remaining() agreeing
    let total = expect.len();
    let mut skips: Vec<usize> = (0..=total.min(12)).collect();
    if total > 12 {
        skips.push(total);
        skips.push(13 + rng.usize(total - 12));
    }
    for n in skips {
        rep.count("skip_checked");
        let hdr = total - payload.len();
        if n > hdr && !payload.is_empty() {
            rep.count("skip_crosses_seam");
        }
        let r = crate::panics::catch(|| -> Result<(usize, Vec<u8>), String> {
            if segmented {
                let mut b = Datagram::new(sid, SegBuf::new(payload, &mut Rng::new(n as u64 ^ sid_raw))).encode();
                b.advance(n);
                let rem = b.remaining();
                Ok((rem, drain(b, 0, &mut Rng::new(1), &mut Report::new())?))
            } else {
                let mut b = Datagram::new(sid, Bytes::copy_from_slice(payload)).encode();
                b.advance(n);
                let rem = b.remaining();
                Ok((rem, drain(b, 0, &mut Rng::new(1), &mut Report::new())?))
            }
        });
        let c2 = json!({"stream_id": sid_raw, "payload_len": payload.len(), "advance": n, "header_len": hdr, "segmented_payload": segmented});
        match r {
            Err(p) => {
                viol(rep, "encode-panics", format!("advance({}) on the encoded datagram panicked: {} at {}", n, p.msg, p.loc), c2);
                return;
            }
            Ok(Err(e)) => {
                viol(rep, "encoded-buf-contract", format!("after advance({}): {}", n, e), c2);
                return;
            }
            Ok(Ok((rem, rest))) => {
                if rem != total - n || rest != expect[n..] {
                    viol(
                        rep,
                        "encoded-buf-advance",
                        format!("after one advance({}) over a {}-byte header: remaining() = {} (expected {}), rest = {} (expected {})", n, hdr, rem, total - n, hex_short(&rest, 12), hex_short(&expect[n..], 12)),
                        c2,
                    );
                    return;
                }
            }
        }
    }
    if rep.want_sample() && payload.len() < 8 && k > 63 {
        rep.sample(json!({"encode": {"stream_id": sid_raw, "payload": hex(payload)}, "expect_wire": hex(&expect), "drain_pattern": pattern}));
    }
}

fn check_decode(bytes: &[u8], rep: &mut Report) {
    rep.evaluations += 1;
    rep.count("decode_checked");
    let res = crate::panics::catch(|| Datagram::decode(Bytes::copy_from_slice(bytes)));
    let res = match res {
        Err(p) => {
            viol(rep, "decode-panics", format!("decode({}) panicked: {} at {}", hex(bytes), p.msg, p.loc), json!({"bytes": hex(bytes)}));
            return;
        }
        Ok(r) => r,
    };
    let expect: Result<(u64, &[u8]), &str> = match rv::decode(bytes) {
        Err(_) => Err("truncated varint"),
        Ok((q, n)) => {
            if q > (1u64 << 60) - 1 {
                Err("quarter stream id above 2^60-1")
            } else {
                Ok((q * 4, &bytes[n..]))
            }
        }
    };
    match (expect, res) {
        (Ok((sid, pl)), Ok(d)) => {
            rep.count("decode_accept");
            if d.stream_id().into_inner() != sid || d.payload()[..] != *pl {
                viol(
                    rep,
                    "decode-wrong",
                    format!("decode({}) -> ({}, {}) expected ({}, {})", hex(bytes), d.stream_id().into_inner(), hex(d.payload()), sid, hex(pl)),
                    json!({"bytes": hex(bytes)}),
                );
            }
        }
        (Err(_), Err(e)) => {
            rep.count("decode_reject");
            // the error must carry H3_DATAGRAM_ERROR; InternalConnectionError's fields are private,
            // its Debug output names the code
            let dbg = format!("{:?}", e);
            if !dbg.contains("H3_DATAGRAM_ERROR") {
                viol(
                    rep,
                    "decode-wrong-error-code",
                    format!("decode({}) failed with {} (expected code {:#x} H3_DATAGRAM_ERROR)", hex(bytes), dbg, H3_DATAGRAM_ERROR),
                    json!({"bytes": hex(bytes)}),
                );
            }
        }
        (Ok((sid, _)), Err(e)) => viol(
            rep,
            "decode-rejects-valid",
            format!("decode({}) (stream {}) failed: {:?}", hex(bytes), sid, e),
            json!({"bytes": hex(bytes)}),
        ),
        (Err(why), Ok(d)) => viol(
            rep,
            "decode-accepts-invalid",
            format!("decode({}) accepted as stream {} although: {}", hex(bytes), d.stream_id().into_inner(), why),
            json!({"bytes": hex(bytes)}),
        ),
    }
}

fn rand_payload(rng: &mut Rng) -> Vec<u8> {
    let n = match rng.below(6) {
        0 => 0,
        1 => 1 + rng.usize(8),
        2 => 1200 + rng.usize(301),
        _ => rng.usize(1501),
    };
    rng.bytes(n)
}

fn run_case(gen: &str, index: u64, seed: u64, _tier: Tier, rep: &mut Report) {
    let mut rng = Rng::new(seed);
    match gen {
        "encode_k_lt_64k" => {
            for k in index * 256..(index + 1) * 256 {
                let p = if k % 16 == 0 { rand_payload(&mut rng) } else { rng.bytes((k % 7) as usize) };
                let seg = k % 5 == 0;
                check_encode(k, &p, seg, &mut rng, rep);
                rep.distinct_direct += 1;
            }
        }
        "encode_boundaries" => {
            for k in [0u64, 1, 62, 63, 64, 65, 16382, 16383, 16384, 16385, (1 << 30) - 2, (1 << 30) - 1, 1 << 30, (1 << 30) + 1, (1 << 60) - 2, (1 << 60) - 1] {
                for len in [0usize, 1, 2, 7, 8, 9, 1500] {
                    for seg in [false, true] {
                        for _ in 0..6 {
                            let p = rng.bytes(len);
                            check_encode(k, &p, seg, &mut rng, rep);
                            rep.sig(hash64(&("enc", k, &p, seg)));
                        }
                    }
                }
            }
        }
        "encode_random" => {
            for _ in 0..50 {
                let bits = rng.range(1, 60);
                let k = rng.next() & ((1u64 << bits) - 1);
                let p = rand_payload(&mut rng);
                let seg = rng.chance(1, 3);
                check_encode(k, &p, seg, &mut rng, rep);
                rep.sig(hash64(&("enc", k, &p, seg)));
            }
        }
        "decode_len_0_2" => {
            if index == 256 {
                check_decode(&[], rep);
                rep.distinct_direct += 1;
                rep.sample(json!({"decode": "", "expect": "H3_DATAGRAM_ERROR (truncated)"}));
            } else {
                let a = index as u8;
                check_decode(&[a], rep);
                rep.distinct_direct += 1;
                for b in 0..=255u8 {
                    check_decode(&[a, b], rep);
                    rep.distinct_direct += 1;
                }
            }
        }
        "decode_len_3" => {
            let a = (index >> 8) as u8;
            let b = index as u8;
            for c in 0..=255u8 {
                check_decode(&[a, b, c], rep);
                rep.distinct_direct += 1;
            }
        }
        "decode_len_3_sample" => {
            for _ in 0..64 {
                let s = rng.bytes(3);
                check_decode(&s, rep);
                rep.sig(hash64(&("dec", &s)));
            }
        }
        "decode_tags_truncations" => {
            // every first-byte tag x boundary value x every truncation, up to 9 bytes
            let vals = [0u64, 1, 63, 64, 16383, 16384, (1 << 30) - 1, 1 << 30, (1 << 60) - 1, 1 << 60, (1 << 60) + 1, (1 << 62) - 1];
            for v in vals {
                for form in [1usize, 2, 4, 8] {
                    if let Some(e) = rv::encode_form(v, form) {
                        for cut in 0..=e.len() {
                            check_decode(&e[..cut], rep);
                            rep.distinct_direct += 1;
                        }
                        let mut e2 = e.clone();
                        e2.push(0x5a);
                        check_decode(&e2, rep);
                        rep.distinct_direct += 1;
                    }
                }
            }
            rep.sample(json!({"decode": hex(&rv::encode(1 << 60).unwrap()), "expect": "H3_DATAGRAM_ERROR (quarter id 2^60)"}));
        }
        "decode_random" => {
            for _ in 0..50 {
                let n = rng.usize(10);
                let mut s = rng.bytes(n);
                if n > 0 && rng.chance(1, 2) {
                    // bias: 8-byte form near the 2^60 limit
                    s[0] = 0xc0 | (rng.below(0x20) as u8);
                }
                check_decode(&s, rep);
                rep.sig(hash64(&("dec", &s)));
            }
        }
        _ => {}
    }
}
