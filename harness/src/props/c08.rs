//! C08 — GOAWAY identifiers never grow and draw the accept/reject line exactly.
//! Server: a raw client opens request streams (in and out of id order) while the server
//! application calls shutdown(n) at moments chosen by the schedule; the history checker reads the
//! GOAWAY frames off the server's control stream and compares, per pulled stream, shown /
//! rejected with the line. Client: a raw server sends GOAWAY id sequences.

use crate::refimpl::frames as rf;
use crate::refimpl::wire;
use crate::report::Report;
use crate::sim::apps::{self, ConnErr, Err as AErr, Msg, Out, Probe, RespPlan};
use crate::sim::rawpeer as raw;
use crate::sim::sched::{RunEnd, Sched, ScriptStep};
use crate::sim::{self, lock, NetCfg, SimConn, CLIENT, SERVER};
use crate::util::{hash64, Rng};
use crate::{Gen, PropDef, Tier};
use bytes::Bytes;
use serde_json::json;
use std::sync::{Arc, Mutex};
use std::task::{Poll, Waker};

pub fn def() -> PropDef {
    PropDef {
        id: "C08",
        rule: "server histories: a raw client opens 1..8 request streams with ids in order, out of order \
               or with gaps, each a complete request written at a schedule-chosen moment; the real \
               server's application runs the accept loop and is told by the schedule (signals \
               interleaved with the arrivals) to call shutdown(n), n in 0..4, up to 4 times, also \
               repeatedly; requests complete concurrently. The checker reads every GOAWAY frame with \
               its write time off the server's control stream, and for each request stream the time \
               it was pulled from the transport, whether it was shown to the application or \
               reset+stop_sending'd with H3_REQUEST_REJECTED: ids must be client-initiated \
               bidirectional and non-increasing; no stream ever shown may be >= any identifier sent; \
               a stream pulled after GOAWAY(g) is rejected (both directions, 0x10b, not shown) iff \
               its id >= g, and shown otherwise. client histories: a raw server sends GOAWAY id \
               sequences over {0, 4, 8, .., 2^62-4, non-request ids, increasing, equal} between the \
               client's requests: after a processed GOAWAY send_request must fail with \
               RemoteClosing without opening a stream or writing; an increasing or non-request id \
               must close with H3_ID_ERROR, equal or smaller ids must not. Non-trivial distinct = \
               distinct (history, interleaving signature).",
        assumptions: || {
            vec![
                "GOAWAY frames are located by parsing the server's control stream with the reference parser; 'pulled after GOAWAY(g)' = the stream left the transport's accept queue after the frame was completely written".into(),
                "streams never pulled because the application stopped accepting carry no obligation".into(),
            ]
        },
        gens,
        run_case,
        finish,
    }
}

fn gens(tier: Tier) -> Vec<Gen> {
    vec![
        Gen::new("server_histories", tier.pick(3, 5_000, 400_000)),
        Gen::exhaustive("server_single_shutdown_grid", 5 * 4 * 2), // n x served-before x order
        Gen::new("client_goaway_sequences", tier.pick(2, 3_000, 150_000)),
        Gen::exhaustive("regressions", 1),
    ]
}

fn finish(tier: Tier, rep: &mut Report) {
    if tier == Tier::Lite {
        return;
    }
    for (k, floor) in [
        ("server_histories", 2_000u64),
        ("goaway_frames_seen", 2_000),
        ("streams_shown", 2_000),
        ("streams_rejected", 500),
        ("streams_pulled_after_goaway", 1_000),
        ("out_of_order_histories", 300),
        ("repeated_shutdown_histories", 300),
        ("client_sequences", 1_000),
        ("client_expected[RemoteClosing]", 300),
        ("client_expected[H3_ID_ERROR]", 300),
    ] {
        if rep.get(k) < floor {
            rep.inconclusive(format!("{} = {} below floor {}", k, rep.get(k), floor));
        }
    }
}

/// script -> task signal (each fire releases one waiter)
#[derive(Clone, Default)]
struct Signal {
    inner: Arc<Mutex<(usize, Option<Waker>)>>,
}
impl Signal {
    fn fire(&self) {
        let mut g = self.inner.lock().unwrap();
        g.0 += 1;
        if let Some(w) = g.1.take() {
            w.wake();
        }
    }
    async fn wait(&self) {
        std::future::poll_fn(|cx| {
            let mut g = self.inner.lock().unwrap();
            if g.0 > 0 {
                g.0 -= 1;
                Poll::Ready(())
            } else {
                g.1 = Some(cx.waker().clone());
                Poll::Pending
            }
        })
        .await
    }
}

fn viol(rep: &mut Report, rule: &str, detail: String, case: &serde_json::Value) {
    rep.violation(format!("C08/{}", rule), detail, case.clone());
}

#[derive(Debug, Clone)]
struct ServerHistory {
    /// stream ids the raw client uses, in the order it opens them
    ids: Vec<u64>,
    /// shutdown(n) values, in the order the application issues them
    shutdowns: Vec<usize>,
    /// the order in which script actions (open stream i / signal shutdown j) are *released*; the
    /// scheduler still interleaves deliveries freely
    order: Vec<Act>,
    ordered_accept: bool,
}

#[derive(Debug, Clone, Copy, PartialEq, Eq)]
enum Act {
    Request(usize),
    Shutdown(usize),
}

fn gen_server_history(rng: &mut Rng) -> ServerHistory {
    let k = 1 + rng.usize(8);
    let mut ids: Vec<u64> = match rng.below(4) {
        0 => (0..k as u64).map(|i| 4 * i).collect(),
        1 => {
            let mut v: Vec<u64> = (0..k as u64).map(|i| 4 * i).collect();
            rng.shuffle(&mut v);
            v
        }
        2 => {
            // gaps and large ids
            let mut v: Vec<u64> = Vec::new();
            let mut cur = 0u64;
            for _ in 0..k {
                cur += 4 * rng.range(1, 5);
                v.push(cur - 4);
            }
            if rng.bool() {
                rng.shuffle(&mut v);
            }
            v
        }
        _ => {
            let base = *rng.pick(&[0u64, 60, 16380, (1 << 30) - 8]);
            let mut v: Vec<u64> = (0..k as u64).map(|i| base + 4 * i).collect();
            if rng.chance(1, 3) {
                rng.shuffle(&mut v);
            }
            v
        }
    };
    ids.dedup();
    let ns = rng.usize(5);
    // grace intervals: small ones, and now and then one that saturates the identifier (the largest
    // client-initiated bidirectional id must come out, never another kind of id)
    let shutdowns: Vec<usize> = (0..ns).map(|_| if rng.chance(1, 12) { *rng.pick(&[usize::MAX, usize::MAX - 1, 1usize << 60, (1usize << 60) - 1, 1usize << 62]) } else { rng.usize(5) }).collect();
    let mut order: Vec<Act> = (0..ids.len()).map(Act::Request).chain((0..shutdowns.len()).map(Act::Shutdown)).collect();
    // shutdowns must be issued in their own order; requests in theirs: a random merge
    let mut merged = Vec::new();
    let (mut a, mut b) = (0, 0);
    while a < ids.len() || b < shutdowns.len() {
        let take_req = if a == ids.len() {
            false
        } else if b == shutdowns.len() {
            true
        } else {
            rng.bool()
        };
        if take_req {
            merged.push(Act::Request(a));
            a += 1;
        } else {
            merged.push(Act::Shutdown(b));
            b += 1;
        }
    }
    order.clear();
    order.extend(merged);
    let sorted = {
        let mut s = ids.clone();
        s.sort_unstable();
        s == ids
    };
    ServerHistory { ordered_accept: sorted && rng.bool(), ids, shutdowns, order }
}

fn request_bytes() -> Vec<u8> {
    let mut w = raw::headers_frame(&raw::simple_request_headers());
    w.extend(raw::data_frame(b"hello"));
    w
}

fn check_server_history(h: &ServerHistory, seed: u64, rep: &mut Report) {
    let mut rng = Rng::new(seed);
    rep.evaluations += 1;
    rep.count("server_histories");
    let sorted = {
        let mut s = h.ids.clone();
        s.sort_unstable();
        s == h.ids
    };
    if !sorted {
        rep.count("out_of_order_histories");
    }
    if h.shutdowns.len() > 1 {
        rep.count("repeated_shutdown_histories");
    }
    let case = json!({"role": "server", "stream_ids_in_open_order": h.ids, "shutdown_n_values": h.shutdowns, "release_order": h.order.iter().map(|a| format!("{:?}", a)).collect::<Vec<_>>(), "ordered_accept": h.ordered_accept});
    let mut cfg = NetCfg::random(&mut rng);
    cfg.backpressure = rng.chance(1, 3);
    cfg.ordered_accept = h.ordered_accept;
    let net = sim::new_net(cfg);
    {
        let mut n = lock(&net);
        raw::mark_raw(&mut n, CLIENT);
        raw::open_control(&mut n, CLIENT, &[]);
    }
    let probe = Probe::new(&net);
    let mut sched = Sched::new(net.clone(), rng.next());
    let signal = Signal::default();
    // one script releases the actions in `order`; each request then runs as its own script so that
    // its bytes interleave with everything else
    let gates: Vec<Arc<Mutex<bool>>> = h.ids.iter().map(|_| Arc::new(Mutex::new(false))).collect();
    let mut main_steps: Vec<ScriptStep> = Vec::new();
    for a in &h.order {
        match *a {
            Act::Request(i) => {
                let g = gates[i].clone();
                let id = h.ids[i];
                main_steps.push(raw::step_custom("release request", |_| true, move |n, _| {
                    n.open_with_id(id);
                    *g.lock().unwrap() = true;
                }));
            }
            Act::Shutdown(_) => {
                let s = signal.clone();
                main_steps.push(raw::step_custom("signal shutdown", |_| true, move |_, _| s.fire()));
            }
        }
    }
    sched.add_script(main_steps);
    for (i, id) in h.ids.iter().enumerate() {
        let g1 = gates[i].clone();
        let id = *id;
        let bytes = request_bytes();
        sched.add_script(vec![
            raw::step_custom("write request", move |_| *g1.lock().unwrap(), move |n, _| n.raw_write(CLIENT, id, &bytes)),
            raw::step_fin(CLIENT, id),
        ]);
    }
    // the server application
    let p = probe.clone();
    let net2 = net.clone();
    let sp = sched.spawner.clone();
    let shutdowns = h.shutdowns.clone();
    let sig = signal.clone();
    sched.spawn("s:conn", async move {
        let r = p
            .call("s:conn", "build", h3::server::builder().build::<_, Bytes>(SimConn::<Bytes>::new(&net2, SERVER)), |r| match r {
                Ok(_) => Out::Ok,
                Err(e) => Out::ConnErr(ConnErr::from_h3(e)),
            })
            .await;
        let Ok(mut conn) = r else { return };
        let mut next_shutdown = 0usize;
        loop {
            // accept, cancellable by the shutdown signal (what `select!` does in an application)
            enum Got<T> {
                Accept(T),
                Signal,
            }
            let got = {
                let t = p.now();
                p.open_ops.lock().unwrap().insert("s:conn".into(), ("accept", t));
                let acc = Box::pin(conn.accept());
                let sigw = Box::pin(sig.wait());
                let r = match futures_util::future::select(acc, sigw).await {
                    futures_util::future::Either::Left((r, _)) => Got::Accept(r),
                    futures_util::future::Either::Right(((), _)) => Got::Signal,
                };
                p.open_ops.lock().unwrap().remove("s:conn");
                r
            };
            match got {
                Got::Signal => {
                    // the pending accept() was just dropped. If it was in the middle of writing
                    // (only its closing GOAWAY is written from accept()) note it: see known findings
                    {
                        let nn = lock(&net2);
                        let blocked = nn.streams.iter().any(|(id, s)| {
                            let (init, bidi) = sim::id_kind(*id);
                            !bidi && init == SERVER && s.pipe(SERVER).sent.first() == Some(&0x00) && s.pipe(SERVER).sender_blocked
                        });
                        drop(nn);
                        if blocked {
                            p.record("s:conn", "accept_cancelled_while_control_write_blocked", Out::Ok);
                        }
                    }
                    if let Some(n) = shutdowns.get(next_shutdown).copied() {
                        next_shutdown += 1;
                        let r = p.call("s:conn", "shutdown", conn.shutdown(n), |r| match r {
                            Ok(()) => Out::Ok,
                            Err(e) => Out::ConnErr(ConnErr::from_h3(e)),
                        })
                        .await;
                        if r.is_err() {
                            break;
                        }
                    }
                }
                Got::Accept(Ok(Some(resolver))) => {
                    let sid = resolver.frame_stream.id().into_inner();
                    p.record("s:conn", "accept", Out::Accepted(sid));
                    let plan = RespPlan { resp: Msg { status: 200, body: vec![b"ok".to_vec()], ..Default::default() }, ..Default::default() };
                    sp.spawn(format!("s:req@{}", sid), apps::server_request::<Bytes>(resolver, plan, p.clone(), sp.clone(), sid, false));
                }
                Got::Accept(Ok(None)) => {
                    p.record("s:conn", "accept", Out::None);
                    break;
                }
                Got::Accept(Err(e)) => {
                    p.record("s:conn", "accept", Out::ConnErr(ConnErr::from_h3(&e)));
                    break;
                }
            }
        }
        p.park(conn);
    });
    let end = sched.run(2_000_000);
    rep.sig(hash64(&(format!("{}", case), sched.sig)));
    rep.sig_in("interleaving_signatures", sched.sig);
    if end == RunEnd::StepCap {
        rep.inconclusive("step cap");
        return;
    }
    if let Some((t, pi)) = sched.first_panic() {
        viol(rep, &format!("panic[{} {}]", pi.file(), pi.msg_key()), format!("task {}: {} at {}", t, pi.msg, pi.loc), &case);
        return;
    }
    let evs = probe.events();
    let n = lock(&net);
    if let Some(c) = n.closed.as_ref() {
        viol(rep, "connection-closed", format!("{} closed the connection with {:#x}", sim::side_name(c.by), c.code), &case);
        return;
    }
    let goaways = wire::control_goaways(&n, SERVER);
    rep.add("goaway_frames_seen", goaways.len() as u64);
    if rep.verbose {
        eprintln!("--- {}", case);
        eprintln!("  goaways (id, time written): {:?}", goaways);
        for e in &evs {
            eprintln!("  t={} {} {} -> {:?}", e.t, e.actor, e.op, e.out);
        }
        for id in &h.ids {
            if let Some(s) = n.streams.get(id) {
                eprintln!("  stream {} pulled at {:?} reset {:?} stop {:?}", id, s.accepted_at, s.pipe(SERVER).reset_sent, s.pipe(CLIENT).stop_sent);
            }
        }
    }
    // (a) ids are request ids and never increase
    for (i, (g, _)) in goaways.iter().enumerate() {
        if g % 4 != 0 {
            viol(rep, "goaway-id-not-a-request-id", format!("GOAWAY #{} carries {} which is not a client-initiated bidirectional stream id", i, g), &case);
            return;
        }
        if i > 0 && *g > goaways[i - 1].0 {
            viol(rep, "goaway-id-increased", format!("GOAWAY ids {:?}", goaways.iter().map(|(g, _)| *g).collect::<Vec<_>>()), &case);
            return;
        }
    }
    let shown: Vec<u64> = evs.iter().filter_map(|e| if let Out::Accepted(s) = e.out { Some(s) } else { None }).collect();
    rep.add("streams_shown", shown.len() as u64);
    // (b) no stream ever shown may be >= an identifier sent
    for s in &shown {
        for (g, _) in &goaways {
            if s >= g {
                let rule = if s == g { "served-declared-rejected[served_id==goaway_id]" } else { "served-declared-rejected[served_id>goaway_id]" };
                viol(rep, rule, format!("stream {} was shown to the application but the server sent GOAWAY({}) (all GOAWAYs: {:?}, shown: {:?})", s, g, goaways.iter().map(|(g, _)| *g).collect::<Vec<_>>(), shown), &case);
                return;
            }
        }
    }
    // (c) the line for streams pulled after a GOAWAY
    for id in &h.ids {
        let Some(s) = n.streams.get(id) else { continue };
        let Some(t) = s.accepted_at else { continue };
        let g_before: Option<u64> = goaways.iter().filter(|(_, tw)| *tw < t).map(|(g, _)| *g).min();
        let is_shown = shown.contains(id);
        let rst = s.pipe(SERVER).reset_sent;
        let stop = s.pipe(CLIENT).stop_sent;
        let rejected = rst == Some(rf::H3_REQUEST_REJECTED) && stop == Some(rf::H3_REQUEST_REJECTED);
        if rejected {
            rep.count("streams_rejected");
        }
        match g_before {
            None => {
                if !is_shown {
                    viol(rep, "request-before-shutdown-not-served", format!("stream {} was pulled before any GOAWAY was sent but never shown (reset {:?}, stop_sending {:?})", id, rst, stop), &case);
                    return;
                }
            }
            Some(g) => {
                rep.count("streams_pulled_after_goaway");
                if *id >= g {
                    if is_shown {
                        let rule = if *id == g { "shown-although-not-below-goaway-id[id==goaway_id]" } else { "shown-although-not-below-goaway-id[id>goaway_id]" };
                        viol(rep, rule, format!("stream {} was pulled after GOAWAY({}) and still shown to the application", id, g), &case);
                        return;
                    }
                    if !rejected {
                        viol(rep, "rejected-stream-not-reset-and-stopped-with-0x10b", format!("stream {} >= GOAWAY id {}: reset {:?}, stop_sending {:?} (both must be H3_REQUEST_REJECTED)", id, g, rst.map(|c| format!("{:#x}", c)), stop.map(|c| format!("{:#x}", c))), &case);
                        return;
                    }
                } else if !is_shown {
                    // narrow signature for the one history that is a listed finding (accept()
                    // dropped by the application while its closing GOAWAY was blocked by the
                    // transport: the reject line moved, the frame never reached the wire)
                    let cancelled = evs.iter().any(|e| e.op == "accept_cancelled_while_control_write_blocked");
                    let rule = if cancelled { "request-below-goaway-id-not-served[accept()-cancelled-while-its-closing-GOAWAY-was-blocked]" } else { "request-below-goaway-id-not-served" };
                    viol(rep, rule, format!("stream {} was pulled after GOAWAY({}) and is below it, but was not shown (reset {:?}, stop_sending {:?})", id, g, rst, stop), &case);
                    return;
                } else if rst == Some(rf::H3_REQUEST_REJECTED) || stop == Some(rf::H3_REQUEST_REJECTED) {
                    viol(rep, "served-stream-also-rejected", format!("stream {} was shown and also reset/stopped with H3_REQUEST_REJECTED", id), &case);
                    return;
                }
            }
        }
    }
    if rep.want_sample() && !goaways.is_empty() && h.ids.len() >= 3 {
        rep.sample(json!({"history": case, "goaways_sent(id, time)": goaways, "shown": shown,
            "pulled(id, time)": h.ids.iter().filter_map(|id| n.streams.get(id).and_then(|s| s.accepted_at.map(|t| (*id, t)))).collect::<Vec<_>>()}));
    }
}

// ---------------------------------------------------------------------------------------------
// client

fn check_client_sequence(ids: &[u64], seed: u64, rep: &mut Report) {
    let mut rng = Rng::new(seed);
    rep.evaluations += 1;
    rep.count("client_sequences");
    let case = json!({"role": "client", "goaway_ids": ids});
    // reference: first offending GOAWAY
    let mut prev: Option<u64> = None;
    let mut offending: Option<usize> = None;
    for (i, g) in ids.iter().enumerate() {
        if g % 4 != 0 || prev.map(|p| *g > p).unwrap_or(false) {
            offending = Some(i);
            break;
        }
        prev = Some(*g);
    }
    rep.count(if offending.is_some() { "client_expected[H3_ID_ERROR]" } else if ids.is_empty() { "client_expected[no GOAWAY]" } else { "client_expected[RemoteClosing]" });
    let mut cfg = NetCfg::random(&mut rng);
    cfg.backpressure = false;
    let net = sim::new_net(cfg);
    let ctrl = {
        let mut n = lock(&net);
        raw::mark_raw(&mut n, SERVER);
        raw::open_control(&mut n, SERVER, &[])
    };
    let probe = Probe::new(&net);
    let mut sched = Sched::new(net.clone(), rng.next());
    let p = probe.clone();
    let net2 = net.clone();
    let sp = sched.spawner.clone();
    let n_phases = ids.len() + 1;
    // gates: one per phase
    let gates: Vec<Signal> = (0..n_phases).map(|_| Signal::default()).collect();
    let gates2 = gates.clone();
    sched.spawn("c:conn", async move {
        let r = p
            .call("c:conn", "build", h3::client::builder().build::<_, _, Bytes>(SimConn::<Bytes>::new(&net2, CLIENT)), |r| match r {
                Ok(_) => Out::Ok,
                Err(e) => Out::ConnErr(ConnErr::from_h3(e)),
            })
            .await;
        let Ok((mut conn, send)) = r else { return };
        let p2 = p.clone();
        sp.spawn("c:driver", async move {
            let _ = p2
                .call("c:driver", "wait_idle", std::future::poll_fn(|cx| conn.poll_close(cx)), |e| Out::ConnErr(ConnErr::from_h3(e)))
                .await;
            p2.park(conn);
        });
        let mut send = send;
        let mut streams = Vec::new();
        for g in gates2.iter() {
            g.wait().await;
            let m = Msg { method: "GET".into(), uri: "https://example.com/".into(), ..Default::default() };
            let r = p
                .call("c:req", "send_request", send.send_request(m.to_request()), |r| match r {
                    Ok(s) => Out::Opened(s.id().into_inner()),
                    Err(e) => Out::Err(AErr::from_h3(e)),
                })
                .await;
            if let Ok(s) = r {
                streams.push(s);
            }
        }
        p.park(streams);
        p.park(send);
    });
    // phase 0: no GOAWAY yet; phase i: after GOAWAY i-1 was delivered and processed
    let mut per_phase: Vec<(usize, Option<Out>, usize)> = Vec::new(); // (phase, send_request outcome, bidi streams existing after)
    let mut ok = true;
    for phase in 0..n_phases {
        if phase > 0 {
            let g = ids[phase - 1];
            let mut n = lock(&net);
            let f = rf::varint_frame(rf::T_GOAWAY, g);
            n.raw_write(SERVER, ctrl, &f);
        }
        if sched.run(300_000) == RunEnd::StepCap {
            ok = false;
            break;
        }
        let before = lock(&net).streams.keys().filter(|id| sim::id_kind(**id) == (CLIENT, true)).count();
        gates[phase].fire();
        if sched.run(300_000) == RunEnd::StepCap {
            ok = false;
            break;
        }
        let after = lock(&net).streams.keys().filter(|id| sim::id_kind(**id) == (CLIENT, true)).count();
        let out = probe.events().iter().filter(|e| e.op == "send_request").nth(phase).map(|e| e.out.clone());
        per_phase.push((phase, out, after - before));
    }
    rep.sig(hash64(&(ids, sched.sig)));
    if !ok {
        rep.inconclusive("step cap");
        return;
    }
    if let Some((t, pi)) = sched.first_panic() {
        viol(rep, &format!("panic[{} {}]", pi.file(), pi.msg_key()), format!("task {}: {} at {}", t, pi.msg, pi.loc), &case);
        return;
    }
    let n = lock(&net);
    let close = n.closed.as_ref().filter(|c| c.by == CLIENT).map(|c| c.code);
    for (phase, out, opened) in &per_phase {
        let goaways_so_far = *phase;
        let errored = offending.map(|o| goaways_so_far > o).unwrap_or(false);
        if errored {
            // connection is in error: send_request must not succeed silently? it reports the connection error
            continue;
        }
        if goaways_so_far == 0 {
            if !matches!(out, Some(Out::Opened(_))) {
                viol(rep, "request-refused-before-any-goaway", format!("phase 0: send_request -> {:?}", out), &case);
                return;
            }
        } else {
            match out {
                Some(Out::Err(AErr::RemoteClosing)) => {}
                other => {
                    viol(rep, "request-started-after-goaway", format!("after GOAWAY({}) was processed send_request returned {:?} instead of RemoteClosing", ids[goaways_so_far - 1], other), &case);
                    return;
                }
            }
            if *opened != 0 {
                viol(rep, "stream-opened-after-goaway", format!("after GOAWAY({}) send_request opened {} stream(s)", ids[goaways_so_far - 1], opened), &case);
                return;
            }
        }
    }
    match (offending, close) {
        (Some(_), Some(c)) if c == rf::H3_ID_ERROR => {}
        (Some(i), other) => viol(rep, "no-H3_ID_ERROR", format!("GOAWAY #{} ({}) after {:?} must be H3_ID_ERROR but the client closed with {:?}", i, ids[i], &ids[..i], other.map(|c| format!("{:#x}", c))), &case),
        (None, Some(c)) if c != rf::H3_NO_ERROR => viol(rep, &format!("unexpected-connection-error[{:#x}]", c), format!("GOAWAY ids {:?} are valid (non-increasing request ids) but the client closed with {:#x}", ids, c), &case),
        _ => {}
    }
    if rep.want_sample() && ids.len() == 3 {
        rep.sample(json!({"case": case, "per_phase(send_request outcome, streams opened)": per_phase.iter().map(|(p, o, s)| format!("{}: {:?} / {}", p, o, s)).collect::<Vec<_>>(), "close": close.map(|c| format!("{:#x}", c))}));
    }
}

fn run_case(gen: &str, index: u64, seed: u64, _tier: Tier, rep: &mut Report) {
    let mut rng = Rng::new(seed);
    match gen {
        "server_histories" => {
            let h = gen_server_history(&mut rng);
            check_server_history(&h, rng.next(), rep);
        }
        "regressions" => {
            // the history of the listed finding (accept() dropped while its closing GOAWAY was
            // blocked): case seeds found by the sampled generator, replayed on every run
            for cs in [9007122992846103872u64] {
                let mut r = Rng::new(cs);
                let h = gen_server_history(&mut r);
                check_server_history(&h, r.next(), rep);
            }
        }
        "server_single_shutdown_grid" => {
            // shutdown(n) after `served` requests were accepted, then two more arrive
            let n = (index % 5) as usize;
            let served = ((index / 5) % 4) as usize;
            let out_of_order = index / 20 == 1;
            let mut ids: Vec<u64> = (0..(served + 3) as u64).map(|i| 4 * i).collect();
            if out_of_order && served >= 2 {
                ids.swap(0, served - 1);
            }
            let mut order: Vec<Act> = (0..served).map(Act::Request).collect();
            order.push(Act::Shutdown(0));
            for i in served..ids.len() {
                order.push(Act::Request(i));
            }
            let h = ServerHistory { ids, shutdowns: vec![n], order, ordered_accept: !out_of_order };
            for _ in 0..25 {
                check_server_history(&h, rng.next(), rep);
            }
            rep.distinct_direct += 1;
        }
        "client_goaway_sequences" => {
            let k = rng.usize(5);
            let pool = [0u64, 4, 8, 12, 400, 1 << 30, (1 << 62) - 4, 1, 2, 3, 5, 7, (1 << 62) - 1];
            let ids: Vec<u64> = (0..k)
                .map(|_| if rng.chance(3, 4) { *rng.pick(&pool[..7]) } else { *rng.pick(&pool) })
                .collect();
            // bias: make non-increasing sequences common
            let ids = if rng.chance(1, 2) {
                let mut v = ids;
                v.sort_unstable_by(|a, b| b.cmp(a));
                v
            } else {
                ids
            };
            check_client_sequence(&ids, rng.next(), rep);
        }
        _ => {}
    }
}
