//! C13 — SETTINGS are sent, parsed and applied exactly, for every configuration.
//! (send) every builder configuration is built against a raw peer and the control stream bytes are
//! parsed by the reference; (receive) a raw peer sends SETTINGS payloads and the applied values
//! are observed through the public getters and through `HeaderTooBig{max_size}`.

use crate::refimpl::frames::{self as rf, SettingsVerdict};
use crate::refimpl::varint as rv;
use crate::report::Report;
use crate::sim::apps::{CliCfg, ConnErr, Err as AErr, Msg, Out, Probe, SrvCfg};
use crate::sim::rawpeer as raw;
use crate::sim::sched::{RunEnd, Sched};
use crate::sim::{self, lock, NetCfg, SimConn, CLIENT, SERVER};
use crate::util::{hash64, hex_short, Rng};
use crate::{Gen, PropDef, Tier};
use bytes::Bytes;
use h3::ConnectionState;
use serde_json::json;
use std::sync::{Arc, Mutex};

pub fn def() -> PropDef {
    PropDef {
        id: "C13",
        rule: "(send) EVERY builder configuration - client: 2^3 booleans x 11 sizes = 88, server: 2^4 \
               booleans x 11 x 11 sizes = 1936, sizes over {0, 1, 63, 64, 16383, 16384, 2^30-1, 2^30, \
               2^62-1, 2^62, u64::MAX} - is built against a raw peer under a PRNG write-acceptance \
               pattern; setup must not panic and the control stream must be type 0x00 + exactly one \
               well-formed SETTINGS frame with no id twice, no HTTP/2-reserved id, effective values \
               equal to the configured ones (values beyond the varint range may be clamped to 2^62-1 \
               or, for the field-section limit, omitted = unlimited), a grease id iff grease is on. \
               (receive) generated SETTINGS payloads (permutations of known ids, duplicates, \
               reserved ids, unknown/grease ids, all four varint forms, every truncation point) are \
               sent by a raw peer to the real client and server; the reference parser decides \
               applied values / H3_SETTINGS_ERROR / some connection error; applied values are read \
               back through settings() getters and HeaderTooBig{max_size}; defaults must be in force \
               before SETTINGS arrive. Non-trivial distinct = distinct configuration or payload.",
        assumptions: || {
            vec![
                "reference SETTINGS model refimpl/frames.rs::judge_settings".into(),
                "don't-care: a repeated unknown id (RFC: MAY be an error); boolean settings with a value other than 0/1; max_webtransport_sessions is not observable through the public API on the receive side".into(),
                "a truncated entry must be some connection error (H3_FRAME_ERROR or H3_SETTINGS_ERROR accepted)".into(),
            ]
        },
        gens,
        run_case,
        finish,
    }
}

const SIZES: [u64; 11] = [0, 1, 63, 64, 16383, 16384, (1 << 30) - 1, 1 << 30, (1 << 62) - 1, 1 << 62, u64::MAX];
const VARINT_MAX: u64 = (1 << 62) - 1;

fn gens(tier: Tier) -> Vec<Gen> {
    vec![
        Gen::exhaustive("send_client_configs", 88),
        Gen::exhaustive("send_server_configs", 1936),
        Gen::new("recv_payloads", tier.pick(4, 6_000, 300_000)),
        Gen::exhaustive("recv_truncations", 64),
        Gen::new("defaults_before_settings", tier.pick(1, 40, 2_000)),
    ]
}

fn finish(tier: Tier, rep: &mut Report) {
    if tier == Tier::Lite {
        return;
    }
    for (k, floor) in [
        ("send_configs_checked", 2_024u64),
        ("recv_checked", 3_000),
        ("recv_expected[applied]", 500),
        ("recv_expected[settings_error]", 500),
        ("recv_expected[some_error]", 50),
        ("recv_limit_observed_via_HeaderTooBig", 100),
        ("defaults_checked", 20),
    ] {
        if rep.get(k) < floor {
            rep.inconclusive(format!("{} = {} below floor {}", k, rep.get(k), floor));
        }
    }
}

fn viol(rep: &mut Report, rule: &str, detail: String, case: &serde_json::Value) {
    rep.violation(format!("C13/{}", rule), detail, case.clone());
}

// ---------------------------------------------------------------------------------------------
// send side

struct SendObs {
    control: Option<Vec<u8>>,
    build: Option<Out>,
    panic: Option<crate::panics::PanicInfo>,
    end: RunEnd,
}

fn run_build(server: bool, scfg: SrvCfg, ccfg: CliCfg, seed: u64) -> SendObs {
    let mut rng = Rng::new(seed);
    let mut cfg = NetCfg::random(&mut rng);
    cfg.backpressure = rng.bool();
    cfg.max_budget_grant = *rng.pick(&[1usize, 2, 5, 64]);
    let net = sim::new_net(cfg);
    let h3_side = if server { SERVER } else { CLIENT };
    {
        let mut n = lock(&net);
        raw::mark_raw(&mut n, raw::other(h3_side));
        raw::open_control(&mut n, raw::other(h3_side), &[]);
    }
    let probe = Probe::new(&net);
    let mut sched = Sched::new(net.clone(), rng.next());
    let p = probe.clone();
    let net2 = net.clone();
    if server {
        sched.spawn("s:conn", async move {
            let r = p
                .call("s:conn", "build", scfg.builder().build::<_, Bytes>(SimConn::<Bytes>::new(&net2, SERVER)), |r| match r {
                    Ok(_) => Out::Ok,
                    Err(e) => Out::ConnErr(ConnErr::from_h3(e)),
                })
                .await;
            if let Ok(c) = r {
                p.park(c);
            }
        });
    } else {
        sched.spawn("c:conn", async move {
            let r = p
                .call("c:conn", "build", ccfg.builder().build::<_, _, Bytes>(SimConn::<Bytes>::new(&net2, CLIENT)), |r| match r {
                    Ok(_) => Out::Ok,
                    Err(e) => Out::ConnErr(ConnErr::from_h3(e)),
                })
                .await;
            if let Ok(c) = r {
                p.park(c);
            }
        });
    }
    let end = sched.run(200_000);
    let panic = sched.first_panic().map(|(_, p)| p.clone());
    let n = lock(&net);
    let mut control = None;
    for (id, s) in n.streams.iter() {
        let (init, bidi) = sim::id_kind(*id);
        if !bidi && init == h3_side {
            let b = &s.pipe(h3_side).sent;
            if b.first() == Some(&0x00) {
                control = Some(b.clone());
            }
        }
    }
    let build = probe.events().iter().find(|e| e.op == "build").map(|e| e.out.clone());
    SendObs { control, build, panic, end }
}

fn expected_entries(server: bool, scfg: &SrvCfg, ccfg: &CliCfg) -> Vec<(u64, u64, bool)> {
    // (id, configured value, absent_ok)
    let b = |x: Option<bool>| x.unwrap_or(false) as u64;
    if server {
        vec![
            (rf::S_MAX_FIELD_SECTION_SIZE, scfg.max_field_section_size.unwrap_or(VARINT_MAX), false),
            (rf::S_ENABLE_CONNECT_PROTOCOL, b(scfg.extended_connect), true),
            (rf::S_ENABLE_WEBTRANSPORT, b(scfg.webtransport), true),
            (rf::S_H3_DATAGRAM, b(scfg.datagram), true),
            (rf::S_WEBTRANSPORT_MAX_SESSIONS, scfg.max_wt_sessions.unwrap_or(0), true),
        ]
    } else {
        vec![
            (rf::S_MAX_FIELD_SECTION_SIZE, ccfg.max_field_section_size.unwrap_or(VARINT_MAX), false),
            (rf::S_ENABLE_CONNECT_PROTOCOL, b(ccfg.extended_connect), true),
            (rf::S_ENABLE_WEBTRANSPORT, 0, true),
            (rf::S_H3_DATAGRAM, b(ccfg.datagram), true),
            (rf::S_WEBTRANSPORT_MAX_SESSIONS, 0, true),
        ]
    }
}

fn check_send(server: bool, scfg: SrvCfg, ccfg: CliCfg, grease: bool, seed: u64, rep: &mut Report) {
    rep.evaluations += 1;
    rep.count("send_configs_checked");
    rep.distinct_direct += 1;
    let case = json!({"role": if server { "server" } else { "client" }, "config": if server { format!("{:?}", scfg) } else { format!("{:?}", ccfg) }});
    let o = run_build(server, scfg, ccfg, seed);
    if let Some(p) = &o.panic {
        viol(rep, &format!("setup-panics[{} {}]", p.file(), p.msg_key()), format!("build() panicked: {} at {}", p.msg, p.loc), &case);
        return;
    }
    if o.end == RunEnd::StepCap {
        rep.inconclusive("step cap in build");
        return;
    }
    match &o.build {
        Some(Out::Ok) => {}
        other => {
            viol(rep, "setup-fails", format!("build() returned {:?}", other), &case);
            return;
        }
    }
    let Some(control) = o.control else {
        viol(rep, "no-control-stream", "no unidirectional stream starting with 0x00 was written".into(), &case);
        return;
    };
    let (frames, tail) = rf::segment(&control[1..]);
    if tail != rf::Tail::Clean || frames.is_empty() {
        viol(rep, "control-stream-incomplete-after-setup", format!("control stream bytes {} (tail {:?})", hex_short(&control, 40), tail), &case);
        return;
    }
    let entries = match rf::parse(&frames[0]) {
        Ok(rf::Parsed::Settings(e)) => e,
        other => {
            viol(rep, "first-frame-not-SETTINGS", format!("{:?}", other), &case);
            return;
        }
    };
    if frames.iter().filter(|f| f.ty == rf::T_SETTINGS).count() != 1 {
        viol(rep, "not-exactly-one-SETTINGS", format!("{} SETTINGS frames", frames.iter().filter(|f| f.ty == rf::T_SETTINGS).count()), &case);
    }
    let mut seen: Vec<u64> = Vec::new();
    for (id, _) in &entries {
        if seen.contains(id) {
            viol(rep, "setting-id-twice", format!("id {:#x} listed twice: {:?}", id, entries), &case);
        }
        seen.push(*id);
        if rf::S_H2_RESERVED.contains(id) {
            viol(rep, "h2-reserved-setting-id", format!("id {:#x}", id), &case);
        }
    }
    for (id, want, absent_ok_if_default) in expected_entries(server, &scfg, &ccfg) {
        let got = entries.iter().find(|(i, _)| *i == id).map(|(_, v)| *v);
        let clamped = want.min(VARINT_MAX);
        let default = if id == rf::S_MAX_FIELD_SECTION_SIZE { VARINT_MAX } else { 0 };
        let ok = match got {
            Some(v) => v == clamped,
            None => clamped == default || (absent_ok_if_default && clamped == default),
        };
        if !ok {
            viol(
                rep,
                &format!("advertised-value-differs[{:#x}]", id),
                format!("setting {:#x}: configured {} but the peer sees {:?} (entries {:?})", id, want, got, entries),
                &case,
            );
        }
    }
    let grease_ids: Vec<u64> = entries.iter().map(|(i, _)| *i).filter(|i| rf::is_grease(*i)).collect();
    if grease && grease_ids.is_empty() {
        viol(rep, "grease-setting-missing", format!("grease on but no id of the form 0x1f*N+0x21 in {:?}", entries), &case);
    }
    if !grease && !grease_ids.is_empty() {
        viol(rep, "grease-setting-present", format!("grease off but ids {:?} present", grease_ids), &case);
    }
    // anything else that is neither known nor grease?
    for (id, _) in &entries {
        if !rf::KNOWN_SETTINGS.contains(id) && !rf::is_grease(*id) {
            viol(rep, "unknown-non-grease-setting-sent", format!("id {:#x}", id), &case);
        }
    }
    if rep.want_sample() && want_sample_cfg(&scfg, &ccfg, server) {
        rep.sample(json!({"send": case, "settings_on_wire": entries.iter().map(|(i, v)| format!("{:#x}={}", i, v)).collect::<Vec<_>>()}));
    }
}

fn want_sample_cfg(scfg: &SrvCfg, ccfg: &CliCfg, server: bool) -> bool {
    if server {
        scfg.max_field_section_size == Some(16384) && scfg.max_wt_sessions == Some(63) && scfg.webtransport == Some(true) && scfg.grease == Some(true) && scfg.datagram == Some(false) && scfg.extended_connect == Some(true)
    } else {
        ccfg.max_field_section_size == Some(64) && ccfg.grease == Some(false) && ccfg.datagram == Some(true) && ccfg.extended_connect == Some(false)
    }
}

// ---------------------------------------------------------------------------------------------
// receive side

#[derive(Debug, Clone, Default)]
struct Applied {
    webtransport: Option<bool>,
    datagram: Option<bool>,
    extended_connect: Option<bool>,
    /// Some(limit) if a send was refused with HeaderTooBig{max_size: limit}; None if it went through
    header_limit: Option<Option<u64>>,
    probe_size: u64,
}

struct RecvObs {
    close_by_h3: Option<u64>,
    applied: Applied,
    panic: Option<String>,
    end: RunEnd,
    driver_err: Option<ConnErr>,
}

/// size of the probe message's field section is ~ `filler + small`; we use a filler just above the
/// limit under test when that is practical
fn filler_for(limit: Option<u64>) -> usize {
    match limit {
        Some(l) if l < 60_000 => l as usize + 1,
        _ => 70_000,
    }
}

/// Run the receive scenario. `payload_before` = whether the SETTINGS are delivered before the probe.
fn run_recv(server: bool, control_bytes: Vec<u8>, fin_control: bool, expected_limit: Option<u64>, deliver_settings: bool, seed: u64) -> RecvObs {
    let mut rng = Rng::new(seed);
    let mut cfg = NetCfg::random(&mut rng);
    cfg.backpressure = false;
    let net = sim::new_net(cfg);
    let h3_side = if server { SERVER } else { CLIENT };
    let raw_side = raw::other(h3_side);
    let ctrl_id;
    {
        let mut n = lock(&net);
        raw::mark_raw(&mut n, raw_side);
        ctrl_id = n.raw_open(raw_side, false);
        if deliver_settings {
            n.raw_write(raw_side, ctrl_id, &control_bytes);
            if fin_control {
                n.raw_fin(raw_side, ctrl_id);
            }
        }
    }
    let probe = Probe::new(&net);
    let mut sched = Sched::new(net.clone(), rng.next());
    let applied: Arc<Mutex<Applied>> = Arc::new(Mutex::new(Applied::default()));
    let filler = filler_for(expected_limit);
    if server {
        // phase 1: server drives accept(); phase 2: raw client sends a request, the server answers with a big header
        let p = probe.clone();
        let net2 = net.clone();
        let ap = applied.clone();
        sched.spawn("s:conn", async move {
            let r = p
                .call("s:conn", "build", h3::server::builder().send_grease(false).build::<_, Bytes>(SimConn::<Bytes>::new(&net2, SERVER)), |r| match r {
                    Ok(_) => Out::Ok,
                    Err(e) => Out::ConnErr(ConnErr::from_h3(e)),
                })
                .await;
            let Ok(mut conn) = r else { return };
            loop {
                let r = p
                    .call("s:conn", "accept", conn.accept(), |r| match r {
                        Ok(Some(_)) => Out::Accepted(0),
                        Ok(None) => Out::None,
                        Err(e) => Out::ConnErr(ConnErr::from_h3(e)),
                    })
                    .await;
                match r {
                    Ok(Some(resolver)) => {
                        let r = p
                            .call("s:req", "resolve_request", resolver.resolve_request(), |r| match r {
                                Ok(_) => Out::Ok,
                                Err(e) => Out::Err(AErr::from_h3(e)),
                            })
                            .await;
                        if let Ok((_req, mut stream)) = r {
                            {
                                let s = stream.settings();
                                let mut a = ap.lock().unwrap();
                                a.webtransport = Some(s.enable_webtransport());
                                a.datagram = Some(s.enable_datagram());
                                a.extended_connect = Some(s.enable_extended_connect());
                            }
                            let m = Msg {
                                status: 200,
                                headers: vec![("x-filler".into(), vec![b'a'; filler])],
                                ..Default::default()
                            };
                            let r = p
                                .call("s:req", "send_response", stream.send_response(m.to_response()), |r| match r {
                                    Ok(()) => Out::Ok,
                                    Err(e) => Out::Err(AErr::from_h3(e)),
                                })
                                .await;
                            let mut a = ap.lock().unwrap();
                            a.probe_size = filler as u64;
                            a.header_limit = Some(match r {
                                Err(h3::error::StreamError::HeaderTooBig { max_size, .. }) => Some(max_size),
                                _ => None,
                            });
                        }
                    }
                    _ => break,
                }
            }
            p.park(conn);
        });
    } else {
        let p = probe.clone();
        let net2 = net.clone();
        let ap = applied.clone();
        let sp = sched.spawner.clone();
        sched.spawn("c:conn", async move {
            let r = p
                .call("c:conn", "build", h3::client::builder().send_grease(false).build::<_, _, Bytes>(SimConn::<Bytes>::new(&net2, CLIENT)), |r| match r {
                    Ok(_) => Out::Ok,
                    Err(e) => Out::ConnErr(ConnErr::from_h3(e)),
                })
                .await;
            let Ok((mut conn, send)) = r else { return };
            let p2 = p.clone();
            sp.spawn("c:driver", async move {
                let _ = p2
                    .call("c:driver", "wait_idle", std::future::poll_fn(|cx| conn.poll_close(cx)), |e| Out::ConnErr(ConnErr::from_h3(e)))
                    .await;
                p2.park(conn);
            });
            // phase 2 trigger: wait until the monitor opens the gate
            p.latch_add(1);
            p.latch_wait().await;
            let mut send = send;
            {
                let s = send.settings();
                let mut a = ap.lock().unwrap();
                a.webtransport = Some(s.enable_webtransport());
                a.datagram = Some(s.enable_datagram());
                a.extended_connect = Some(s.enable_extended_connect());
            }
            let m = Msg {
                method: "GET".into(),
                uri: "https://example.com/".into(),
                headers: vec![("x-filler".into(), vec![b'a'; filler])],
                ..Default::default()
            };
            let r = p
                .call("c:req", "send_request", send.send_request(m.to_request()), |r| match r {
                    Ok(_) => Out::Ok,
                    Err(e) => Out::Err(AErr::from_h3(e)),
                })
                .await;
            {
                let mut a = ap.lock().unwrap();
                a.probe_size = filler as u64;
                a.header_limit = Some(match &r {
                    Err(h3::error::StreamError::HeaderTooBig { max_size, .. }) => Some(*max_size),
                    _ => None,
                });
            }
            p.park(r.ok());
            p.park(send);
        });
    }
    // phase 1
    let mut end = sched.run(400_000);
    // phase 2
    if end == RunEnd::Quiescent {
        if server {
            let id = {
                let mut n = lock(&net);
                n.raw_open(CLIENT, true)
            };
            let mut w = raw::headers_frame(&raw::simple_request_headers());
            w.extend(raw::data_frame(b"x"));
            sched.add_script(vec![raw::step_write(CLIENT, id, w), raw::step_fin(CLIENT, id)]);
        } else {
            probe.latch_done();
        }
        end = sched.run(2_000_000);
    }
    let panic = sched.first_panic().map(|(t, p)| format!("task {}: {} at {}", t, p.msg, p.loc));
    let n = lock(&net);
    let close_by_h3 = n.closed.as_ref().filter(|c| c.by == h3_side).map(|c| c.code);
    let driver_err = probe.events().iter().rev().find_map(|e| {
        if (e.actor == "c:driver" || e.actor == "s:conn") && matches!(e.op, "wait_idle" | "accept") {
            if let Out::ConnErr(c) = &e.out {
                return Some(c.clone());
            }
        }
        None
    });
    let a = applied.lock().unwrap().clone();
    RecvObs {
        close_by_h3,
        applied: a,
        panic,
        end,
        driver_err,
    }
}

fn entry_bytes(id: u64, val: u64, rng: &mut Rng) -> Vec<u8> {
    let forms = |v: u64| -> Vec<usize> { [1usize, 2, 4, 8].into_iter().filter(|f| rv::encode_form(v, *f).is_some()).collect() };
    let f1 = *rng.pick(&forms(id));
    let f2 = *rng.pick(&forms(val));
    let mut b = rv::encode_form(id, f1).unwrap();
    b.extend(rv::encode_form(val, f2).unwrap());
    b
}

fn gen_entries(rng: &mut Rng) -> Vec<(u64, u64)> {
    let mut e: Vec<(u64, u64)> = Vec::new();
    let n = rng.usize(8);
    for _ in 0..n {
        let id = match rng.below(10) {
            0 => rf::S_MAX_FIELD_SECTION_SIZE,
            1 => rf::S_ENABLE_CONNECT_PROTOCOL,
            2 => rf::S_H3_DATAGRAM,
            3 => rf::S_ENABLE_WEBTRANSPORT,
            4 => rf::S_WEBTRANSPORT_MAX_SESSIONS,
            5 => *rng.pick(&[rf::S_QPACK_MAX_TABLE_CAPACITY, rf::S_QPACK_BLOCKED_STREAMS]),
            6 => 0x21 + 0x1f * rng.below(1 << 20),
            7 => *rng.pick(&[0x0au64, 0x40, 0xffd277, 0x1234_5678, (1 << 62) - 1]),
            8 => {
                if rng.chance(1, 3) {
                    *rng.pick(&rf::S_H2_RESERVED)
                } else {
                    rf::S_MAX_FIELD_SECTION_SIZE
                }
            }
            _ => {
                // repeat an earlier id
                if let Some((i, _)) = e.get(rng.usize(e.len().max(1))).cloned() {
                    if rng.chance(1, 2) {
                        i
                    } else {
                        rf::S_H3_DATAGRAM
                    }
                } else {
                    rf::S_ENABLE_CONNECT_PROTOCOL
                }
            }
        };
        let val = match id {
            rf::S_MAX_FIELD_SECTION_SIZE => *rng.pick(&[0u64, 1, 41, 42, 100, 1000, 16384, 59_999, 1 << 30, (1 << 62) - 1]),
            rf::S_ENABLE_CONNECT_PROTOCOL | rf::S_H3_DATAGRAM | rf::S_ENABLE_WEBTRANSPORT => {
                if rng.chance(1, 12) {
                    2 + rng.below(1000)
                } else {
                    rng.below(2)
                }
            }
            _ => {
                let bits = rng.range(1, 62);
                rng.below(1 << bits)
            }
        };
        e.push((id, val));
    }
    if rng.chance(1, 5) {
        // many identifiers this endpoint does not know, in long encodings: a legal frame far
        // longer than any frame made of the settings h3 knows, so that it also arrives in pieces
        let k = 8 + rng.usize(40);
        let base = rng.below(1 << 40);
        for j in 0..k as u64 {
            let id = if rng.bool() { 0x21 + 0x1f * ((1 << 30) + base + j) } else { (1 << 33) + (base + j) * 3 };
            let bits = rng.range(1, 62);
            let at = rng.usize(e.len() + 1);
            e.insert(at, (id, rng.below(1 << bits)));
        }
    }
    // avoid accidental duplicates half of the time to get enough valid payloads
    if rng.chance(2, 3) {
        let mut seen = Vec::new();
        e.retain(|(i, _)| {
            if seen.contains(i) || rf::S_H2_RESERVED.contains(i) {
                false
            } else {
                seen.push(*i);
                true
            }
        });
    }
    e
}

fn check_recv(entries: &[(u64, u64)], raw_payload: Option<Vec<u8>>, server: bool, seed: u64, rep: &mut Report) {
    let mut rng = Rng::new(seed ^ 0xc13);
    rep.evaluations += 1;
    rep.count("recv_checked");
    let payload: Vec<u8> = match &raw_payload {
        Some(p) => p.clone(),
        None => entries.iter().flat_map(|(i, v)| entry_bytes(*i, *v, &mut rng)).collect(),
    };
    let mut control = vec![0x00];
    control.extend(rf::frame(rf::T_SETTINGS, &payload));
    // reference verdict from the bytes
    let raw_frame = rf::RawFrame { ty: rf::T_SETTINGS, start: 0, payload_start: 0, payload: payload.clone() };
    let parsed = rf::parse(&raw_frame);
    let case = json!({"role": if server { "server" } else { "client" }, "settings_payload": hex_short(&payload, 64), "entries": entries.iter().map(|(i, v)| format!("{:#x}={}", i, v)).collect::<Vec<_>>()});
    rep.sig(hash64(&("recv", &payload, server)));
    #[derive(Debug)]
    enum Want {
        Applied(Vec<(u64, u64)>),
        SettingsError,
        SomeError,
        DontCare,
    }
    let want = match &parsed {
        Err(_) => Want::SomeError,
        Ok(rf::Parsed::Settings(e)) => match rf::judge_settings(e) {
            SettingsVerdict::Ok(a) => Want::Applied(a),
            SettingsVerdict::SettingsError(_) => Want::SettingsError,
            SettingsVerdict::DontCare => Want::DontCare,
        },
        Ok(_) => unreachable!(),
    };
    rep.count(match &want {
        Want::Applied(_) => "recv_expected[applied]",
        Want::SettingsError => "recv_expected[settings_error]",
        Want::SomeError => "recv_expected[some_error]",
        Want::DontCare => "recv_expected[dont_care]",
    });
    let expected_limit = match &want {
        Want::Applied(a) => a.iter().find(|(i, _)| *i == rf::S_MAX_FIELD_SECTION_SIZE).map(|(_, v)| *v),
        _ => None,
    };
    let o = run_recv(server, control, false, expected_limit, true, seed);
    if let Some(p) = &o.panic {
        viol(rep, "receive-panics", p.clone(), &case);
        return;
    }
    if o.end == RunEnd::StepCap {
        rep.inconclusive("step cap in receive scenario");
        return;
    }
    match want {
        Want::DontCare => {}
        Want::SettingsError => match o.close_by_h3 {
            Some(c) if c == rf::H3_SETTINGS_ERROR => {}
            other => viol(
                rep,
                "no-H3_SETTINGS_ERROR",
                format!("payload {} (entries {:?}) must be H3_SETTINGS_ERROR but h3 closed with {:?} (driver: {:?})", hex_short(&payload, 32), entries, other.map(|c| format!("{:#x}", c)), o.driver_err),
                &case,
            ),
        },
        Want::SomeError => match o.close_by_h3 {
            Some(c) if c != rf::H3_NO_ERROR => {
                if c != rf::H3_FRAME_ERROR && c != rf::H3_SETTINGS_ERROR {
                    viol(rep, "truncated-entry-wrong-code", format!("payload {} closed with {:#x}", hex_short(&payload, 32), c), &case);
                }
            }
            other => viol(rep, "truncated-entry-accepted", format!("payload {} has a truncated entry but h3 did not close with an error ({:?})", hex_short(&payload, 32), other), &case),
        },
        Want::Applied(a) => {
            if let Some(c) = o.close_by_h3 {
                if c != rf::H3_NO_ERROR {
                    viol(rep, "valid-settings-rejected", format!("payload {} (entries {:?}) is valid but h3 closed with {:#x}", hex_short(&payload, 32), entries, c), &case);
                    return;
                }
            }
            let get = |id: u64| a.iter().find(|(i, _)| *i == id).map(|(_, v)| *v);
            let check_bool = |name: &str, id: u64, got: Option<bool>, rep: &mut Report| {
                let Some(got) = got else {
                    rep.count("recv_getter_not_reached");
                    return;
                };
                match get(id) {
                    Some(v) if v > 1 => {} // don't-care
                    Some(v) => {
                        if got != (v == 1) {
                            viol(rep, &format!("setting-not-applied[{}]", name), format!("{} sent as {} but settings() reports {}", name, v, got), &case);
                        }
                    }
                    None => {
                        if got {
                            viol(rep, &format!("default-not-used[{}]", name), format!("{} absent but settings() reports true", name), &case);
                        }
                    }
                }
            };
            check_bool("enable_webtransport", rf::S_ENABLE_WEBTRANSPORT, o.applied.webtransport, rep);
            check_bool("enable_datagram", rf::S_H3_DATAGRAM, o.applied.datagram, rep);
            check_bool("enable_extended_connect", rf::S_ENABLE_CONNECT_PROTOCOL, o.applied.extended_connect, rep);
            // field section limit through HeaderTooBig{max_size}
            if let Some(obs) = o.applied.header_limit {
                let limit = get(rf::S_MAX_FIELD_SECTION_SIZE);
                let probe_section = o.applied.probe_size; // the filler value alone; the whole section is larger
                match (limit, obs) {
                    (Some(l), Some(max)) => {
                        rep.count("recv_limit_observed_via_HeaderTooBig");
                        if max != l {
                            viol(rep, "setting-not-applied[max_field_section_size]", format!("limit sent as {} but HeaderTooBig reports max_size {}", l, max), &case);
                        }
                    }
                    (Some(l), None) => {
                        if probe_section > l {
                            viol(rep, "setting-not-applied[max_field_section_size]", format!("limit sent as {} but a section of > {} bytes was sent", l, probe_section), &case);
                        }
                    }
                    (None, Some(max)) => viol(rep, "default-not-used[max_field_section_size]", format!("no limit sent but HeaderTooBig reports max_size {}", max), &case),
                    (None, None) => {}
                }
            } else {
                rep.count("recv_probe_not_reached");
            }
        }
    }
    if rep.want_sample() && entries.len() == 3 {
        rep.sample(json!({"receive": case, "close_by_h3": o.close_by_h3.map(|c| format!("{:#x}", c)), "applied": format!("{:?}", o.applied)}));
    }
}

fn run_case(gen: &str, index: u64, seed: u64, _tier: Tier, rep: &mut Report) {
    let mut rng = Rng::new(seed);
    match gen {
        "send_client_configs" => {
            let size = SIZES[(index / 8) as usize];
            let bits = index % 8;
            let ccfg = CliCfg {
                max_field_section_size: Some(size),
                grease: Some(bits & 1 == 1),
                extended_connect: Some(bits & 2 == 2),
                datagram: Some(bits & 4 == 4),
            };
            check_send(false, SrvCfg::default(), ccfg, bits & 1 == 1, rng.next(), rep);
        }
        "send_server_configs" => {
            let bits = index % 16;
            let s1 = SIZES[((index / 16) % 11) as usize];
            let s2 = SIZES[(index / 176) as usize];
            let scfg = SrvCfg {
                max_field_section_size: Some(s1),
                max_wt_sessions: Some(s2),
                grease: Some(bits & 1 == 1),
                webtransport: Some(bits & 2 == 2),
                extended_connect: Some(bits & 4 == 4),
                datagram: Some(bits & 8 == 8),
                // every configuration is built with the builder methods called in several orders
                call_order: 0,
            };
            for order in [0u8, 1 + rng.below(250) as u8, 1 + rng.below(250) as u8] {
                rep.count(if order == 0 { "builder_call_order[as listed]" } else { "builder_call_order[shuffled]" });
                check_send(true, SrvCfg { call_order: order, ..scfg }, CliCfg::default(), bits & 1 == 1, rng.next(), rep);
            }
        }
        "recv_payloads" => {
            let e = gen_entries(&mut rng);
            let server = rng.bool();
            check_recv(&e, None, server, rng.next(), rep);
        }
        "recv_truncations" => {
            // a fixed valid payload with multi-byte forms, cut at every byte
            let entries = [(rf::S_MAX_FIELD_SECTION_SIZE, 16384u64), (rf::S_H3_DATAGRAM, 1), (0x21 + 0x1f * 70_000, 5), (rf::S_ENABLE_CONNECT_PROTOCOL, 1)];
            let mut full = Vec::new();
            for (i, v) in entries {
                full.extend(rv::encode_form(i, 4).unwrap());
                full.extend(rv::encode_form(v, if v < 64 { 2 } else { 4 }).unwrap());
            }
            let cut = (index as usize) % (full.len() + 1);
            let server = index as usize > full.len();
            let payload = full[..cut].to_vec();
            // entries the reference will see (for the case description only)
            let seen: Vec<(u64, u64)> = match rf::parse(&rf::RawFrame { ty: rf::T_SETTINGS, start: 0, payload_start: 0, payload: payload.clone() }) {
                Ok(rf::Parsed::Settings(e)) => e,
                _ => vec![],
            };
            check_recv(&seen, Some(payload), server, rng.next(), rep);
            rep.distinct_direct += 1;
        }
        "defaults_before_settings" => {
            // the peer's control stream is opened but SETTINGS never arrive: defaults must be in force
            rep.evaluations += 1;
            rep.count("defaults_checked");
            let server = rng.bool();
            let o = run_recv(server, vec![], false, None, false, rng.next());
            let case = json!({"role": if server { "server" } else { "client" }, "settings": "never delivered"});
            if let Some(p) = &o.panic {
                viol(rep, "receive-panics", p.clone(), &case);
                return;
            }
            if o.applied.webtransport == Some(true) || o.applied.datagram == Some(true) || o.applied.extended_connect == Some(true) {
                viol(rep, "default-not-used[booleans]", format!("before SETTINGS: {:?}", o.applied), &case);
            }
            match o.applied.header_limit {
                Some(Some(max)) => viol(rep, "default-not-used[max_field_section_size]", format!("before SETTINGS a {} byte section was refused with max_size {}", o.applied.probe_size, max), &case),
                Some(None) => {}
                None => rep.count("recv_probe_not_reached"),
            }
        }
        _ => {}
    }
}
