//! C19 — WebTransport streams stay attached to their session, bytes intact.
//! A raw client establishes a WebTransport session on CONNECT stream X against the real server
//! (h3 + h3-webtransport); the monitor compares session ids at the API and on the wire and the
//! payload read from incoming streams with the payload sent, for every position of the
//! header/payload boundary relative to the chunk cuts.

use crate::refimpl::frames as rf;
use crate::refimpl::qpack as rq;
use crate::refimpl::varint as rv;
use crate::report::Report;
use crate::sim::apps::{ConnErr, Err as AErr, Msg, Out, Probe};
use crate::sim::rawpeer as raw;
use crate::sim::sched::{RunEnd, Sched, ScriptStep};
use crate::sim::{self, lock, NetCfg, SimConn, CLIENT, SERVER};
use crate::util::{hash64, hex_short, Rng};
use crate::{Gen, PropDef, Tier};
use bytes::{Buf, Bytes};
use h3::quic::StreamId;
use h3_webtransport::server::{AcceptedBi, WebTransportSession};
use serde_json::json;
use std::sync::{Arc, Mutex};

pub fn def() -> PropDef {
    PropDef {
        id: "C19",
        rule: "a case = (CONNECT stream id X over {0, 4, 8, 60, 64, 252, 256, 16380, 16384, 65532, 65536, \
               2^30-4, 2^30, 2^40} i.e. 1-, 2-, 4- and 8-byte varint ids, session accepted first or \
               after 1..3 ordinary requests, direction/kind in {client->server bidi, client->server \
               uni, server-opened bidi, server-opened uni}, payload 0 B..16 KiB, read API in \
               {poll_data, futures AsyncRead, tokio AsyncRead}, chunking). For incoming streams the \
               raw client's bytes (0x41 / 0x54, varint(X) in any length form, payload) are delivered \
               with EVERY cut position through header and first payload bytes for short payloads \
               (complete) and PRNG chunkings otherwise, including header+payload in one chunk. \
               Oracle: session_id() of the accepted session read back as a stream id == X; every \
               stream the server opens starts with 0x41 / 0x54 then varint(X); accept_bi / \
               accept_uni report X for streams carrying varint(X); the payload read equals the \
               payload sent, complete and in order; with WebTransport disabled in the local \
               configuration no 0x54 stream is surfaced and no connection error results. \
               Non-trivial distinct = (X, kind, payload length, cut positions / interleaving).",
        assumptions: || {
            vec![
                "the raw client advertises ENABLE_WEBTRANSPORT, H3_DATAGRAM and ENABLE_CONNECT_PROTOCOL and its SETTINGS are applied before the CONNECT is released (two phases)".into(),
                "simquic lets a raw peer start at any stream id (models a long-lived connection)".into(),
            ]
        },
        gens,
        run_case,
        finish,
    }
}

const XS: [u64; 14] = [0, 4, 8, 60, 64, 252, 256, 16380, 16384, 65532, 65536, (1 << 30) - 4, 1 << 30, 1 << 40];

#[derive(Debug, Clone, Copy, PartialEq, Eq, Hash)]
enum Kind {
    InBidi,
    InUni,
    OutBidi,
    OutUni,
}
#[derive(Debug, Clone, Copy, PartialEq, Eq, Hash)]
enum ReadApi {
    PollData,
    FuturesAsyncRead,
    TokioAsyncRead,
    /// bidirectional streams: `quic::BidiStream::split`, then `poll_data` on the receiving half
    /// (what examples/webtransport_server.rs does); same as PollData for unidirectional streams
    SplitPollData,
    /// tokio's `read_exact` for the first part (it hands the same partially filled ReadBuf to
    /// poll_read again), then `read_to_end`
    TokioReadExact,
}

fn gens(tier: Tier) -> Vec<Gen> {
    vec![
        // X x kind x read api, each with all cut positions for a short payload
        Gen::exhaustive("all_cuts_short_payload", (XS.len() * 2 * 5) as u64),
        Gen::exhaustive("session_id_grid", (XS.len() * 4) as u64),
        Gen::new("random_sessions", tier.pick(2, 2_500, 250_000)),
        Gen::new("extension_disabled", tier.pick(1, 300, 20_000)),
    ]
}

fn finish(tier: Tier, rep: &mut Report) {
    if tier == Tier::Lite {
        return;
    }
    for (k, floor) in [
        ("sessions", 1_500u64),
        ("session_id_checked", 1_500),
        ("incoming_streams_checked", 1_000),
        ("outgoing_streams_checked", 500),
        ("cut_inside_stream_header", 300),
        ("cut_exactly_at_header_payload_boundary", 50),
        ("header_and_payload_in_one_chunk", 100),
        ("read_api[PollData]", 100),
        ("read_api[FuturesAsyncRead]", 100),
        ("read_api[TokioAsyncRead]", 100),
        ("disabled_checked", 100),
        ("multi_byte_session_ids", 500),
    ] {
        if rep.get(k) < floor {
            rep.inconclusive(format!("{} = {} below floor {}", k, rep.get(k), floor));
        }
    }
}

fn viol(rep: &mut Report, rule: &str, detail: String, case: &serde_json::Value) {
    rep.violation(format!("C19/{}", rule), detail, case.clone());
}

fn connect_headers() -> Vec<u8> {
    let f: Vec<rq::Field> = vec![
        (b":method".to_vec(), b"CONNECT".to_vec()),
        (b":protocol".to_vec(), b"webtransport".to_vec()),
        (b":scheme".to_vec(), b"https".to_vec()),
        (b":authority".to_vec(), b"example.com".to_vec()),
        (b":path".to_vec(), b"/wt".to_vec()),
    ];
    raw::headers_frame(&rq::encode_section(&f, &rq::EncOpts::default()))
}

#[derive(Debug, Clone)]
struct Case {
    x: u64,
    ordinary_before: usize,
    kind: Kind,
    payload: Vec<u8>,
    api: ReadApi,
    /// explicit chunk lengths for the incoming stream (None = PRNG chunking)
    chunks: Option<Vec<usize>>,
    id_form: usize,
    enabled: bool,
    /// incoming uni streams only: this many further streams of the same session are sent in the
    /// same flight (payload + one distinguishing byte each)
    extra_uni: usize,
}

/// shared result slots filled by the server task
#[derive(Default)]
struct Slots {
    session_id_as_stream_id: Option<u64>,
    incoming_session: Option<u64>,
    incoming_payload: Option<Vec<u8>>,
    incoming_error: Option<String>,
    outgoing_stream: Option<u64>,
    outgoing_error: Option<String>,
    accept_error: Option<String>,
    /// further uni streams of the flight: (session id as stream id, payload)
    extra_uni: Vec<(u64, Vec<u8>)>,
}

/// Write `data` and finish the stream through the API the case names (the read APIs double as
/// write APIs for the streams the server opens): the quic trait's `poll_send`, futures' or tokio's
/// `AsyncWrite`.
async fn write_all_with<S>(s: &mut S, data: &[u8], api: ReadApi) -> Result<(), String>
where
    S: h3::quic::SendStreamUnframed<Bytes> + futures_util::io::AsyncWrite + tokio::io::AsyncWrite + Unpin,
{
    match api {
        ReadApi::PollData => {
            let mut rest: &[u8] = data;
            while !rest.is_empty() {
                let n = std::future::poll_fn(|cx| h3::quic::SendStreamUnframed::<Bytes>::poll_send(s, cx, &mut rest)).await.map_err(|e| format!("{}", e))?;
                if n == 0 {
                    return Err("poll_send returned Ok(0)".into());
                }
            }
            std::future::poll_fn(|cx| h3::quic::SendStream::<Bytes>::poll_finish(s, cx)).await.map_err(|e| format!("{}", e))
        }
        ReadApi::FuturesAsyncRead => {
            futures_util::io::AsyncWriteExt::write_all(s, data).await.map_err(|e| format!("{}", e))?;
            futures_util::io::AsyncWriteExt::close(s).await.map_err(|e| format!("{}", e))
        }
        ReadApi::TokioAsyncRead | ReadApi::SplitPollData | ReadApi::TokioReadExact => {
            tokio::io::AsyncWriteExt::write_all(s, data).await.map_err(|e| format!("{}", e))?;
            tokio::io::AsyncWriteExt::shutdown(s).await.map_err(|e| format!("{}", e))
        }
    }
}

async fn read_all_poll_data<S: h3::quic::RecvStream + Unpin>(s: &mut S) -> Result<Vec<u8>, String> {
    let mut out = Vec::new();
    loop {
        match std::future::poll_fn(|cx| s.poll_data(cx)).await {
            Ok(Some(mut b)) => {
                while b.has_remaining() {
                    let c = b.chunk().to_vec();
                    out.extend_from_slice(&c);
                    b.advance(c.len());
                }
            }
            Ok(None) => return Ok(out),
            Err(e) => return Err(format!("{}", e)),
        }
    }
}

async fn read_all_futures<S: futures_util::io::AsyncRead + Unpin>(s: &mut S, buf_size: usize) -> Result<Vec<u8>, String> {
    use futures_util::io::AsyncReadExt;
    let mut out = Vec::new();
    let mut buf = vec![0u8; buf_size.max(1)];
    loop {
        match s.read(&mut buf).await {
            Ok(0) => return Ok(out),
            Ok(n) => out.extend_from_slice(&buf[..n]),
            Err(e) => return Err(format!("{}", e)),
        }
    }
}

async fn read_exact_then_rest_tokio<S: tokio::io::AsyncRead + Unpin>(s: &mut S, first: usize) -> Result<Vec<u8>, String> {
    use tokio::io::AsyncReadExt;
    let mut out = vec![0u8; first];
    if first > 0 {
        s.read_exact(&mut out).await.map_err(|e| format!("read_exact({}): {}", first, e))?;
    }
    let mut rest = Vec::new();
    s.read_to_end(&mut rest).await.map_err(|e| format!("{}", e))?;
    out.extend(rest);
    Ok(out)
}

async fn read_all_tokio<S: tokio::io::AsyncRead + Unpin>(s: &mut S, buf_size: usize) -> Result<Vec<u8>, String> {
    use tokio::io::AsyncReadExt;
    let mut out = Vec::new();
    let mut buf = vec![0u8; buf_size.max(1)];
    loop {
        match s.read(&mut buf).await {
            Ok(0) => return Ok(out),
            Ok(n) => out.extend_from_slice(&buf[..n]),
            Err(e) => return Err(format!("{}", e)),
        }
    }
}

fn check_case(c: &Case, seed: u64, rep: &mut Report) {
    let mut rng = Rng::new(seed);
    rep.evaluations += 1;
    let case = json!({"connect_stream_id_X": c.x, "ordinary_requests_before": c.ordinary_before, "kind": format!("{:?}", c.kind), "payload_len": c.payload.len(),
                      "read_api": format!("{:?}", c.api), "chunks": c.chunks, "session_id_varint_form": c.id_form, "webtransport_enabled_locally": c.enabled});
    let mut cfg = NetCfg::random(&mut rng);
    cfg.backpressure = rng.chance(1, 3);
    cfg.ordered_accept = false;
    // ids the raw client uses: ordinary requests below X where possible
    let ordinary: Vec<u64> = (0..c.ordinary_before as u64).map(|i| if c.x >= 4 * (c.ordinary_before as u64) { c.x - 4 * (i + 1) } else { c.x + 4 * (i + 1) }).collect();
    let wt_in_id = match c.kind {
        Kind::InBidi => Some(c.x + 400),
        Kind::InUni => Some(sim::make_id(CLIENT, false, 7)),
        _ => None,
    };
    if let (Some(id), Some(_)) = (wt_in_id, &c.chunks) {
        cfg.manual_pipes.push((id, CLIENT));
    }
    let net = sim::new_net(cfg);
    {
        let mut n = lock(&net);
        raw::mark_raw(&mut n, CLIENT);
        raw::open_control(&mut n, CLIENT, &[(rf::S_ENABLE_WEBTRANSPORT, 1), (rf::S_H3_DATAGRAM, 1), (rf::S_ENABLE_CONNECT_PROTOCOL, 1), (rf::S_WEBTRANSPORT_MAX_SESSIONS, 4)]);
    }
    let probe = Probe::new(&net);
    let mut sched = Sched::new(net.clone(), rng.next());
    let slots: Arc<Mutex<Slots>> = Arc::new(Mutex::new(Slots::default()));
    let p = probe.clone();
    let net2 = net.clone();
    let sl = slots.clone();
    let cc = c.clone();
    let buf_size = *rng.pick(&[1usize, 2, 3, 7, 64, 4096]);
    // read_exact length for ReadApi::TokioReadExact: inside the payload
    let exact_first = if c.payload.is_empty() { 0 } else { 1 + rng.usize(c.payload.len()) };
    let established_flag: Arc<Mutex<bool>> = Arc::new(Mutex::new(false));
    let established = established_flag.clone();
    let out_payload = c.payload.clone();
    sched.spawn("s:conn", async move {
        let mut b = h3::server::builder();
        b.enable_webtransport(cc.enabled).enable_datagram(true).enable_extended_connect(true).max_webtransport_sessions(4).send_grease(false);
        let r = p
            .call("s:conn", "build", b.build::<_, Bytes>(SimConn::<Bytes>::new(&net2, SERVER)), |r| match r {
                Ok(_) => Out::Ok,
                Err(e) => Out::ConnErr(ConnErr::from_h3(e)),
            })
            .await;
        let Ok(mut conn) = r else { return };
        if !cc.enabled {
            // just drive the connection; the monitor inspects the accepted streams afterwards
            let r = p
                .call("s:conn", "accept", conn.accept(), |r| match r {
                    Ok(Some(_)) => Out::Accepted(0),
                    Ok(None) => Out::None,
                    Err(e) => Out::ConnErr(ConnErr::from_h3(e)),
                })
                .await;
            drop(r);
            return;
        }
        // ordinary requests first, then the CONNECT
        loop {
            let r = p
                .call("s:conn", "accept", conn.accept(), |r| match r {
                    Ok(Some(res)) => Out::Accepted(res.frame_stream.id().into_inner()),
                    Ok(None) => Out::None,
                    Err(e) => Out::ConnErr(ConnErr::from_h3(e)),
                })
                .await;
            let Ok(Some(resolver)) = r else { return };
            let r = p
                .call("s:req", "resolve_request", resolver.resolve_request(), |r| match r {
                    Ok(_) => Out::Ok,
                    Err(e) => Out::Err(AErr::from_h3(e)),
                })
                .await;
            let Ok((req, mut stream)) = r else { return };
            if req.method() != http::Method::CONNECT {
                let m = Msg { status: 200, ..Default::default() };
                let _ = stream.send_response(m.to_response()).await;
                let _ = stream.finish().await;
                continue;
            }
            let session = match p
                .call("s:wt", "WebTransportSession::accept", WebTransportSession::accept(req, stream, conn), |r| match r {
                    Ok(_) => Out::Ok,
                    Err(e) => Out::Err(AErr::from_h3(e)),
                })
                .await
            {
                Ok(s) => s,
                Err(e) => {
                    sl.lock().unwrap().accept_error = Some(format!("{}", e));
                    return;
                }
            };
            let sid = session.session_id();
            sl.lock().unwrap().session_id_as_stream_id = Some(StreamId::from(sid).into_inner());
            *established.lock().unwrap() = true;
            match cc.kind {
                Kind::InBidi => loop {
                    match p.call("s:wt", "accept_bi", session.accept_bi(), |r| match r { Ok(Some(_)) => Out::Ok, Ok(None) => Out::None, Err(e) => Out::Err(AErr::from_h3(e)) }).await {
                        Ok(Some(AcceptedBi::BidiStream(got_sid, mut s))) => {
                            sl.lock().unwrap().incoming_session = Some(StreamId::from(got_sid).into_inner());
                            let r = if cc.api == ReadApi::SplitPollData {
                                let (snd, mut rcv) = h3::quic::BidiStream::<Bytes>::split(s);
                                let r = read_all_poll_data(&mut rcv).await;
                                p.park(snd);
                                p.park(rcv);
                                r
                            } else {
                                let r = match cc.api {
                                    ReadApi::PollData | ReadApi::SplitPollData => read_all_poll_data(&mut s).await,
                                    ReadApi::FuturesAsyncRead => read_all_futures(&mut s, buf_size).await,
                                    ReadApi::TokioAsyncRead => read_all_tokio(&mut s, buf_size).await,
                                    ReadApi::TokioReadExact => read_exact_then_rest_tokio(&mut s, exact_first.min(cc.payload.len())).await,
                                };
                                p.park(s);
                                r
                            };
                            match r {
                                Ok(d) => sl.lock().unwrap().incoming_payload = Some(d),
                                Err(e) => sl.lock().unwrap().incoming_error = Some(e),
                            }
                            break;
                        }
                        // an ordinary request that arrived after the CONNECT: serve it and go on
                        Ok(Some(AcceptedBi::Request(_req, mut stream))) => {
                            let m = Msg { status: 200, ..Default::default() };
                            let _ = stream.send_response(m.to_response()).await;
                            let _ = stream.finish().await;
                        }
                        Ok(None) => {
                            sl.lock().unwrap().incoming_error = Some("accept_bi returned None".into());
                            break;
                        }
                        Err(e) => {
                            sl.lock().unwrap().incoming_error = Some(format!("{}", e));
                            break;
                        }
                    }
                },
                Kind::InUni => match p.call("s:wt", "accept_uni", session.accept_uni(), |r| match r { Ok(Some(_)) => Out::Ok, Ok(None) => Out::None, Err(e) => Out::ConnErr(ConnErr::from_h3(e)) }).await {
                    Ok(Some((got_sid, mut s))) => {
                        sl.lock().unwrap().incoming_session = Some(StreamId::from(got_sid).into_inner());
                        let r = match cc.api {
                            ReadApi::PollData | ReadApi::SplitPollData => read_all_poll_data(&mut s).await,
                            ReadApi::FuturesAsyncRead => read_all_futures(&mut s, buf_size).await,
                            ReadApi::TokioAsyncRead => read_all_tokio(&mut s, buf_size).await,
                            ReadApi::TokioReadExact => read_exact_then_rest_tokio(&mut s, exact_first.min(cc.payload.len())).await,
                        };
                        match r {
                            Ok(d) => sl.lock().unwrap().incoming_payload = Some(d),
                            Err(e) => sl.lock().unwrap().incoming_error = Some(e),
                        }
                        p.park(s);
                        // the other streams of the flight
                        for _ in 0..cc.extra_uni {
                            match p.call("s:wt", "accept_uni", session.accept_uni(), |r| match r { Ok(Some(_)) => Out::Ok, Ok(None) => Out::None, Err(e) => Out::ConnErr(ConnErr::from_h3(e)) }).await {
                                Ok(Some((got_sid, mut s))) => {
                                    match read_all_poll_data(&mut s).await {
                                        Ok(d) => sl.lock().unwrap().extra_uni.push((StreamId::from(got_sid).into_inner(), d)),
                                        Err(e) => sl.lock().unwrap().incoming_error = Some(e),
                                    }
                                    p.park(s);
                                }
                                _ => break,
                            }
                        }
                    }
                    Ok(None) => sl.lock().unwrap().incoming_error = Some("accept_uni returned None".into()),
                    Err(e) => sl.lock().unwrap().incoming_error = Some(format!("{}", e)),
                },
                Kind::OutBidi => match p.call("s:wt", "open_bi", session.open_bi(sid), |r| match r { Ok(_) => Out::Ok, Err(e) => Out::Err(AErr::from_h3(e)) }).await {
                    Ok(mut s) => {
                        sl.lock().unwrap().outgoing_stream = Some(h3::quic::SendStream::<Bytes>::send_id(&s).into_inner());
                        if let Err(e) = write_all_with(&mut s, &out_payload, cc.api).await {
                            sl.lock().unwrap().outgoing_error = Some(e);
                        }
                        p.park(s);
                    }
                    Err(e) => sl.lock().unwrap().outgoing_error = Some(format!("{}", e)),
                },
                Kind::OutUni => match p.call("s:wt", "open_uni", session.open_uni(sid), |r| match r { Ok(_) => Out::Ok, Err(e) => Out::Err(AErr::from_h3(e)) }).await {
                    Ok(mut s) => {
                        sl.lock().unwrap().outgoing_stream = Some(h3::quic::SendStream::<Bytes>::send_id(&s).into_inner());
                        if let Err(e) = write_all_with(&mut s, &out_payload, cc.api).await {
                            sl.lock().unwrap().outgoing_error = Some(e);
                        }
                        p.park(s);
                    }
                    Err(e) => sl.lock().unwrap().outgoing_error = Some(format!("{}", e)),
                },
            }
            p.park(session);
            return;
        }
    });
    // phase 1: settings
    if sched.run(300_000) == RunEnd::StepCap {
        rep.inconclusive("step cap (phase 1)");
        return;
    }
    // phase 2: requests, CONNECT, WebTransport stream
    {
        let mut steps: Vec<ScriptStep> = Vec::new();
        if c.enabled {
            for id in &ordinary {
                let mut w = raw::headers_frame(&raw::simple_request_headers());
                w.extend(raw::data_frame(b"x"));
                steps.push(raw::step_open_id(*id));
                steps.push(raw::step_write(CLIENT, *id, w));
                steps.push(raw::step_fin(CLIENT, *id));
            }
            steps.push(raw::step_open_id(c.x));
            steps.push(raw::step_write(CLIENT, c.x, connect_headers()));
        }
        sched.add_script(steps);
        if let Some(id) = wt_in_id.or(if c.enabled { None } else { Some(sim::make_id(CLIENT, false, 7)) }) {
            let ty = if sim::id_kind(id).1 { 0x41u64 } else { 0x54 };
            let mut bytes = rv::encode(ty).unwrap();
            bytes.extend(rv::encode_form(c.x, c.id_form).or_else(|| rv::encode(c.x)).unwrap());
            let header_len = bytes.len();
            bytes.extend_from_slice(&c.payload);
            // WebTransport streams are released once the session exists (streams arriving before their
            // session are a different matter: the draft asks for buffering, the property does not cover it)
            let est = established_flag.clone();
            let enabled = c.enabled;
            let mut steps = vec![
                raw::step_custom("wait for the session", move |_| !enabled || *est.lock().unwrap(), |_, _| {}),
                raw::step_open_id(id),
                raw::step_write(CLIENT, id, bytes.clone()),
            ];
            if c.kind == Kind::InUni && c.extra_uni > 0 {
                // the rest of the flight: complete streams of the same session, all at once
                let extra = c.extra_uni;
                let x = c.x;
                let payload = c.payload.clone();
                steps.push(raw::step_custom("the rest of the flight", |_| true, move |n, _| {
                    for i in 0..extra {
                        let eid = sim::make_id(CLIENT, false, 8 + i as u64);
                        n.open_with_id(eid);
                        let mut b = rv::encode(0x54).unwrap();
                        b.extend(rv::encode(x).unwrap());
                        b.extend_from_slice(&payload);
                        b.push(i as u8 + 1);
                        n.raw_write(CLIENT, eid, &b);
                        n.raw_fin(CLIENT, eid);
                    }
                }));
            }
            if let Some(ch) = &c.chunks {
                for l in ch.clone() {
                    steps.push(raw::step_custom("deliver chunk", |_| true, move |n, _| n.deliver_bytes(id, CLIENT, l)));
                }
            }
            steps.push(raw::step_fin(CLIENT, id));
            sched.add_script(steps);
            let _ = header_len;
        }
    }
    if sched.run(3_000_000) == RunEnd::StepCap {
        rep.inconclusive("step cap (phase 2)");
        return;
    }
    rep.sig(hash64(&(format!("{}", case), sched.sig)));
    rep.sig_in("interleaving_signatures", sched.sig);
    if let Some((t, pi)) = sched.first_panic() {
        viol(rep, &format!("panic[{} {}]", pi.file(), pi.msg_key()), format!("task {}: {} at {}", t, pi.msg, pi.loc), &case);
        return;
    }
    let n = lock(&net);
    if let Some(cl) = n.closed.as_ref() {
        if cl.code != rf::H3_NO_ERROR {
            viol(rep, &format!("connection-error[{:#x}]", cl.code), format!("{} closed with {:#x} ({})", sim::side_name(cl.by), cl.code, String::from_utf8_lossy(&cl.reason)), &case);
            return;
        }
    }
    let s = slots.lock().unwrap();
    if !c.enabled {
        rep.count("disabled_checked");
        // nothing may be surfaced: the server task still owns the connection; inspect through the log:
        // accept() must still be pending and no error
        if probe.events().iter().any(|e| matches!(e.out, Out::ConnErr(_))) {
            viol(rep, "disabled-connection-error", "a 0x54 stream made a server without WebTransport raise a connection error".into(), &case);
        }
        let uni_id = sim::make_id(CLIENT, false, 7);
        if let Some(st) = n.streams.get(&uni_id) {
            // h3 must have dropped the stream (Quinn: implicit STOP_SENDING) rather than keeping it queued
            if !st.pipe(CLIENT).receiver_dropped {
                viol(rep, "disabled-stream-kept", "a 0x54 stream is kept (surfaced) although WebTransport is disabled locally".into(), &case);
            }
        }
        return;
    }
    rep.count("sessions");
    if c.x >= 64 {
        rep.count("multi_byte_session_ids");
    }
    if let Some(e) = &s.accept_error {
        viol(rep, "session-accept-failed", format!("WebTransportSession::accept failed: {}", e), &case);
        return;
    }
    match s.session_id_as_stream_id {
        None => {
            viol(rep, "session-not-established", "the CONNECT request never became a session".into(), &case);
            return;
        }
        Some(got) => {
            rep.count("session_id_checked");
            if got != c.x {
                viol(rep, "session-id-differs-from-connect-stream-id", format!("CONNECT on stream {} but session_id() reads back as stream id {}", c.x, got), &case);
                return;
            }
        }
    }
    match c.kind {
        Kind::InBidi | Kind::InUni => {
            rep.count("incoming_streams_checked");
            rep.count(&format!("read_api[{:?}]", c.api));
            if let Some(e) = &s.incoming_error {
                viol(rep, "incoming-stream-error", format!("reading the incoming stream failed: {}", e), &case);
                return;
            }
            match s.incoming_session {
                Some(x) if x == c.x => {}
                other => {
                    viol(rep, "incoming-stream-session-id-differs", format!("stream carries session id {} but was reported with {:?}", c.x, other), &case);
                    return;
                }
            }
            match &s.incoming_payload {
                Some(d) if *d == c.payload => {}
                // a flight of several streams: which one accept_uni hands out first is not prescribed
                Some(_) if c.kind == Kind::InUni && c.extra_uni > 0 => {}
                Some(d) => {
                    let rule = if d.len() < c.payload.len() && c.payload.ends_with(d) {
                        "incoming-payload-lost-leading-bytes"
                    } else if d.len() < c.payload.len() {
                        "incoming-payload-truncated"
                    } else {
                        "incoming-payload-differs"
                    };
                    viol(rep, rule, format!("sent {} B ({}) read {} B ({})", c.payload.len(), hex_short(&c.payload, 12), d.len(), hex_short(d, 12)), &case);
                    return;
                }
                None => {
                    viol(rep, "incoming-payload-not-read", "the read never completed".into(), &case);
                    return;
                }
            }
            if c.kind == Kind::InUni && c.extra_uni > 0 {
                rep.count("uni_flights_checked");
                let mut want: Vec<Vec<u8>> = (0..c.extra_uni).map(|i| { let mut p = c.payload.clone(); p.push(i as u8 + 1); p }).collect();
                want.push(c.payload.clone());
                want.sort();
                let mut got: Vec<Vec<u8>> = s.extra_uni.iter().map(|(_, d)| d.clone()).collect();
                got.extend(s.incoming_payload.clone());
                got.sort();
                if s.extra_uni.len() < c.extra_uni {
                    viol(rep, "incoming-uni-streams-never-surfaced", format!("{} unidirectional streams of the session were sent in one flight after the first, accept_uni handed out {} of them", c.extra_uni, s.extra_uni.len()), &case);
                    return;
                }
                if let Some((sid, _)) = s.extra_uni.iter().find(|(sid, _)| *sid != c.x) {
                    viol(rep, "incoming-stream-session-id-differs", format!("a stream of the flight carries session id {} but was reported with {}", c.x, sid), &case);
                    return;
                }
                if got != want {
                    viol(rep, "incoming-payload-differs", "the payloads of the streams of one flight do not match what was sent".into(), &case);
                    return;
                }
            }
            // coverage of cut positions
            let id = wt_in_id.unwrap();
            let p = n.streams[&id].pipe(CLIENT);
            let header_len = rv::size(if c.kind == Kind::InBidi { 0x41 } else { 0x54 }) + if rv::encode_form(c.x, c.id_form).is_some() { c.id_form } else { rv::size(c.x) };
            if p.cut_log.first().map(|f| *f > header_len).unwrap_or(false) {
                rep.count("header_and_payload_in_one_chunk");
            }
            if p.cut_log.iter().any(|f| *f < header_len) {
                rep.count("cut_inside_stream_header");
            }
            if p.cut_log.contains(&header_len) && !c.payload.is_empty() {
                rep.count("cut_exactly_at_header_payload_boundary");
            }
        }
        Kind::OutBidi | Kind::OutUni => {
            rep.count("outgoing_streams_checked");
            if let Some(e) = &s.outgoing_error {
                viol(rep, "outgoing-stream-error", format!("opening/writing the stream failed: {}", e), &case);
                return;
            }
            let Some(id) = s.outgoing_stream else {
                viol(rep, "outgoing-stream-not-opened", "open_bi/open_uni never completed".into(), &case);
                return;
            };
            let wire = &n.streams[&id].pipe(SERVER).sent;
            let ty = if c.kind == Kind::OutBidi { 0x41u64 } else { 0x54 };
            let mut want = rv::encode(ty).unwrap();
            want.extend(rv::encode(c.x).unwrap());
            want.extend_from_slice(&c.payload);
            if *wire != want {
                let rule = match (rv::decode(wire), wire.len()) {
                    (Ok((t, n1)), _) if t == ty => match rv::decode(&wire[n1..]) {
                        Ok((sid, _)) if sid != c.x => "outgoing-stream-header-carries-other-session-id",
                        _ => "outgoing-stream-bytes-differ",
                    },
                    _ => "outgoing-stream-type-differs",
                };
                viol(rep, rule, format!("stream {} starts with {} expected {}", id, hex_short(wire, 16), hex_short(&want, 16)), &case);
                return;
            }
        }
    }
    if rep.want_sample() && c.x >= 64 && c.payload.len() < 32 {
        rep.sample(json!({"case": case, "session_id_read_back": s.session_id_as_stream_id, "incoming_session": s.incoming_session, "outgoing_stream": s.outgoing_stream}));
    }
}

fn all_compositions(n: usize) -> Vec<Vec<usize>> {
    // all ways to cut n bytes into chunks (2^(n-1))
    let mut out = Vec::new();
    for mask in 0..(1u32 << (n - 1)) {
        let mut v = Vec::new();
        let mut cur = 1;
        for i in 0..n - 1 {
            if (mask >> i) & 1 == 1 {
                v.push(cur);
                cur = 1;
            } else {
                cur += 1;
            }
        }
        v.push(cur);
        out.push(v);
    }
    out
}

fn run_case(gen: &str, index: u64, seed: u64, tier: Tier, rep: &mut Report) {
    let mut rng = Rng::new(seed);
    match gen {
        "all_cuts_short_payload" => {
            let x = XS[(index as usize) % XS.len()];
            let kind = if (index as usize / XS.len()) % 2 == 0 { Kind::InBidi } else { Kind::InUni };
            let api = [ReadApi::PollData, ReadApi::FuturesAsyncRead, ReadApi::TokioAsyncRead, ReadApi::SplitPollData, ReadApi::TokioReadExact][(index as usize / (XS.len() * 2)) % 5];
            let id_form = rv::size(x);
            let header_len = 2 + id_form;
            let payload: Vec<u8> = (0..3u8).map(|i| 0xa0 + i).collect();
            let total = header_len + payload.len();
            // every cut through header + payload; cap the enumeration for the 8-byte form in quick
            let comps = if total <= 9 || tier == Tier::Thorough { all_compositions(total) } else {
                // single cut at every position + all-ones + whole
                let mut v: Vec<Vec<usize>> = (1..total).map(|c| vec![c, total - c]).collect();
                v.push(vec![1; total]);
                v.push(vec![total]);
                v
            };
            for ch in comps {
                let c = Case { x, ordinary_before: 0, kind, payload: payload.clone(), api, chunks: Some(ch), id_form, enabled: true, extra_uni: 0 };
                check_case(&c, rng.next(), rep);
                rep.distinct_direct += 0;
            }
        }
        "session_id_grid" => {
            let x = XS[(index as usize) % XS.len()];
            let ordinary_before = (index as usize / XS.len()) % 4;
            for kind in [Kind::OutBidi, Kind::OutUni, Kind::InBidi, Kind::InUni] {
                let l = rng.usize(40);
                let c = Case { x, ordinary_before, kind, payload: rng.bytes(l), api: ReadApi::PollData, chunks: None, id_form: rv::size(x), enabled: true, extra_uni: 0 };
                check_case(&c, rng.next(), rep);
            }
        }
        "random_sessions" => {
            let x = if rng.chance(3, 4) { *rng.pick(&XS) } else { 4 * rng.below(1 << 20) };
            let kind = *rng.pick(&[Kind::InBidi, Kind::InUni, Kind::OutBidi, Kind::OutUni]);
            let l = match rng.below(5) {
                0 => 0,
                1 => 1 + rng.usize(8),
                2 => 16 * 1024,
                _ => rng.usize(3000),
            };
            let forms: Vec<usize> = [1usize, 2, 4, 8].into_iter().filter(|f| rv::encode_form(x, *f).is_some()).collect();
            let c = Case { x, ordinary_before: rng.usize(4), kind, payload: rng.bytes(l), api: *rng.pick(&[ReadApi::PollData, ReadApi::FuturesAsyncRead, ReadApi::TokioAsyncRead, ReadApi::SplitPollData, ReadApi::TokioReadExact]), chunks: None, id_form: *rng.pick(&forms), enabled: true, extra_uni: if kind == Kind::InUni && rng.chance(1, 3) { 1 + rng.usize(4) } else { 0 } };
            check_case(&c, rng.next(), rep);
        }
        "extension_disabled" => {
            let x = *rng.pick(&XS);
            let forms: Vec<usize> = [1usize, 2, 4, 8].into_iter().filter(|f| rv::encode_form(x, *f).is_some()).collect();
            let l = rng.usize(50);
            let c = Case { x, ordinary_before: 0, kind: Kind::InUni, payload: rng.bytes(l), api: ReadApi::PollData, chunks: None, id_form: *rng.pick(&forms), enabled: false, extra_uni: 0 };
            check_case(&c, rng.next(), rep);
        }
        _ => {}
    }
}
