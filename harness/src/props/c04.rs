//! C04 — control and unidirectional stream rules are enforced with the right error; every control
//! frame is acted upon exactly once whatever happens to h3's own outgoing streams.
//! A raw peer opens up to 4 unidirectional streams (types, type-varint forms, control frame
//! sequences, FIN/RESET positions) against the real client / server; the reference automaton
//! yields the set of acceptable first connection errors (or none) and the expected effects.

use crate::refimpl::frames as rf;
use crate::refimpl::varint as rv;
use crate::report::Report;
use crate::sim::apps::{ConnErr, Err as AErr, Msg, Out, Probe};
use crate::sim::rawpeer as raw;
use crate::sim::sched::{RunEnd, Sched, ScriptStep};
use crate::sim::{self, lock, NetCfg, SimConn, CLIENT, SERVER};
use crate::util::{hash64, hex_short, Rng};
use crate::{Gen, PropDef, Tier};
use bytes::Bytes;
use serde_json::json;

pub fn def() -> PropDef {
    PropDef {
        id: "C04",
        rule: "a case = a raw peer behaviour made of up to 4 unidirectional streams with types from \
               {control, push, QPACK encoder, QPACK decoder, WebTransport-uni, grease, unknown, closed \
               before the type is complete}, type varints in every length form, control frame \
               sequences up to length 4 over {SETTINGS, DATA, HEADERS, PUSH_PROMISE, MAX_PUSH_ID, \
               CANCEL_PUSH, GOAWAY(id), H2-reserved, unknown, grease}, FIN/RESET at any position, \
               PRNG arrival order and chunking, against the real h3 client or server whose own \
               outgoing streams get exactly 3 / more / late stream credit and whole / partial / \
               stalled (grease stream) write acceptance. The reference control/uni automaton gives \
               the set of connection errors some processing order can raise first (or none); the \
               observed QUIC close code and driver result must be in that set, no error where none \
               is expected, and the effects of the control frames (GOAWAY => a client refuses new \
               requests / a server's accept() ends; increasing GOAWAY ids => H3_ID_ERROR exactly at \
               the offending frame) must match, which is how a dropped or duplicated frame shows. \
               Non-trivial distinct = distinct (script, role, credit/acceptance mode, interleaving).",
        assumptions: || {
            vec![
                "reference automaton in this module; when several rules apply (malformed or reserved frame before SETTINGS, RESET overtaking frames, several offending streams) any applicable code is accepted".into(),
                "don't-care: push streams, CANCEL_PUSH sent to a client, closing of QPACK streams, 0x54 streams while WebTransport is disabled only need 'no connection error'".into(),
            ]
        },
        gens,
        run_case,
        finish,
    }
}

fn gens(tier: Tier) -> Vec<Gen> {
    vec![
        Gen::exhaustive("single_control_sequences", n_ctl_sequences(3) * 2),
        Gen::new("multi_stream_scripts", tier.pick(4, 8_000, 500_000)),
        Gen::new("goaway_effect_traces", tier.pick(2, 2_000, 100_000)),
        Gen::new("credit_and_backpressure", tier.pick(2, 3_000, 150_000)),
    ]
}

fn finish(tier: Tier, rep: &mut Report) {
    if tier == Tier::Lite {
        return;
    }
    for (k, floor) in [
        ("scripts", 5_000u64),
        ("expect[none]", 500),
        ("expect[0x10a]", 100),
        ("expect[0x105]", 100),
        ("expect[0x104]", 100),
        ("expect[0x103]", 100),
        ("expect[0x108]", 20),
        ("goaway_effect_checked", 200),
        ("credit_mode[exactly3]", 100),
        ("credit_mode[late]", 100),
        ("grease_stream_stalled", 50),
        ("type_form[8]", 100),
    ] {
        if rep.get(k) < floor {
            rep.inconclusive(format!("{} = {} below floor {}", k, rep.get(k), floor));
        }
    }
}

#[derive(Debug, Clone, Copy, PartialEq, Eq, Hash)]
pub enum CTok {
    Settings,
    Data,
    Headers,
    PushPromise,
    MaxPushId,
    CancelPush,
    Goaway(u64),
    H2Reserved,
    Unknown,
    Grease,
}

const CTL_ALPHABET: [CTok; 10] = [
    CTok::Settings,
    CTok::Data,
    CTok::Headers,
    CTok::PushPromise,
    CTok::MaxPushId,
    CTok::CancelPush,
    CTok::Goaway(0),
    CTok::H2Reserved,
    CTok::Unknown,
    CTok::Grease,
];

fn n_ctl_sequences(max_len: u32) -> u64 {
    (0..=max_len).map(|l| 10u64.pow(l)).sum()
}

fn ctl_seq_from_index(mut i: u64) -> Vec<CTok> {
    let mut len = 0u32;
    loop {
        let n = 10u64.pow(len);
        if i < n {
            break;
        }
        i -= n;
        len += 1;
    }
    let mut v = Vec::new();
    for _ in 0..len {
        v.push(CTL_ALPHABET[(i % 10) as usize]);
        i /= 10;
    }
    v
}

fn ctok_bytes(t: CTok) -> Vec<u8> {
    match t {
        CTok::Settings => rf::settings_frame(&[(rf::S_MAX_FIELD_SECTION_SIZE, 1 << 20)]),
        CTok::Data => raw::data_frame(b"d"),
        CTok::Headers => raw::headers_frame(&raw::simple_request_headers()),
        CTok::PushPromise => {
            let mut p = vec![0x01];
            p.extend(raw::simple_request_headers());
            rf::frame(rf::T_PUSH_PROMISE, &p)
        }
        CTok::MaxPushId => rf::varint_frame(rf::T_MAX_PUSH_ID, 7),
        CTok::CancelPush => rf::varint_frame(rf::T_CANCEL_PUSH, 1),
        CTok::Goaway(id) => rf::varint_frame(rf::T_GOAWAY, id),
        CTok::H2Reserved => rf::frame(0x8, &[0, 0, 0, 1]),
        CTok::Unknown => rf::frame(rf::unknown_type(2), b"unknown"),
        CTok::Grease => rf::frame(0x21 + 0x1f * 5, b"grease"),
    }
}

#[derive(Debug, Clone, Copy, PartialEq, Eq, Hash)]
pub enum UKind {
    Control,
    Push,
    Encoder,
    Decoder,
    WtUni,
    Grease,
    Unknown,
    /// closed or reset before the type varint is complete
    NoType,
}

#[derive(Debug, Clone, Copy, PartialEq, Eq, Hash)]
pub enum UEnd {
    Open,
    Fin,
    Reset(u64),
    /// control streams only: a proper prefix of one more frame, then FIN (RFC 9114 7.1: a frame
    /// terminated by the end of the stream is H3_FRAME_ERROR)
    FinInsideFrame(u8),
}

fn frame_prefix(k: u8) -> &'static [u8] {
    match k % 5 {
        0 => &[0x07],                   // a type alone
        1 => &[0x07, 0x01],             // GOAWAY announcing one octet that never comes
        2 => &[0x0d, 0x02, 0x40],       // MAX_PUSH_ID with half of its integer
        3 => &[0x40],                   // half of a two-octet type
        _ => &[0x21, 0x04, 0x00, 0x00], // a reserved-type frame with half of its payload
    }
}

#[derive(Debug, Clone, PartialEq, Eq, Hash)]
pub struct UStream {
    pub kind: UKind,
    pub type_form: usize,
    /// varint form of the push id / session id that follows the type (push and WebTransport streams)
    pub id_form: usize,
    pub frames: Vec<CTok>,
    pub end: UEnd,
}

fn type_value(k: UKind) -> u64 {
    match k {
        UKind::Control => 0x00,
        UKind::Push => 0x01,
        UKind::Encoder => 0x02,
        UKind::Decoder => 0x03,
        UKind::WtUni => 0x54,
        UKind::Grease => 0x21 + 0x1f * 9,
        UKind::Unknown => 0x1234,
        UKind::NoType => 0x3fff_ffff_ffff,
    }
}

fn ustream_bytes(u: &UStream) -> Vec<u8> {
    let tv = type_value(u.kind);
    let form = if rv::encode_form(tv, u.type_form).is_some() { u.type_form } else { 8 };
    let mut b = rv::encode_form(tv, form).unwrap();
    match u.kind {
        UKind::NoType => {
            // only part of the 8-byte type varint
            b = rv::encode_form(tv, 8).unwrap()[..u.type_form.clamp(1, 7)].to_vec();
            if u.type_form == 0 {
                b.clear();
            }
        }
        UKind::Control => {
            for t in &u.frames {
                b.extend(ctok_bytes(*t));
            }
            if let UEnd::FinInsideFrame(k) = u.end {
                b.extend_from_slice(frame_prefix(k));
            }
        }
        // the id that follows the type comes in every varint form (cut anywhere by the network)
        UKind::Push => {
            b.extend(rv::encode_form(1, u.id_form).unwrap());
            b.extend([0x01, 0x02, 0x00, 0x00]); // a HEADERS frame
        }
        UKind::WtUni => {
            b.extend(rv::encode_form(0, u.id_form).unwrap());
            b.extend([b'w', b't']);
        }
        UKind::Encoder | UKind::Decoder => {}
        UKind::Grease | UKind::Unknown => b.extend(b"whatever bytes \x00\x04\x00"),
    }
    b
}

#[derive(Debug, Clone, PartialEq, Eq)]
pub struct Expect {
    /// acceptable first connection errors; empty = no connection error may occur
    pub errors: Vec<u64>,
    /// "no connection error" is acceptable although `errors` is not empty (frames the application
    /// legitimately never gets to process, e.g. after a server's accept() has returned None)
    pub none_ok: bool,
    /// the peer validly announced shutdown (GOAWAY processed without error)
    pub goaway_effect: Option<bool>,
    pub dont_care: bool,
}

/// Outcome of interpreting one control stream.
struct CtlOutcome {
    errors: Vec<u64>,
    none_ok: bool,
    goaway_seen: bool,
    dont_care: bool,
}

/// Walk `frames` in order. Returns the first error (as a set of acceptable codes) or none, and
/// whether processing legitimately stops early (server: after a GOAWAY accept() may return None
/// and the application stops driving the connection).
fn walk_control(frames: &[CTok], h3_is_client: bool) -> (Vec<u64>, bool /*stopped early*/, bool /*goaway*/, bool /*dont care*/) {
    let mut got_settings = false;
    let mut last_goaway: Option<u64> = None;
    let mut goaway_seen = false;
    for t in frames {
        if matches!(t, CTok::Unknown | CTok::Grease) {
            continue;
        }
        if !got_settings {
            if *t == CTok::Settings {
                got_settings = true;
                continue;
            }
            let mut v = vec![rf::H3_MISSING_SETTINGS];
            if *t == CTok::H2Reserved {
                v.push(rf::H3_FRAME_UNEXPECTED);
            }
            return (v, false, goaway_seen, false);
        }
        match t {
            CTok::Settings | CTok::Data | CTok::Headers | CTok::PushPromise | CTok::H2Reserved => return (vec![rf::H3_FRAME_UNEXPECTED], false, goaway_seen, false),
            CTok::MaxPushId => {
                if h3_is_client {
                    return (vec![rf::H3_FRAME_UNEXPECTED], false, goaway_seen, false);
                }
            }
            CTok::CancelPush => {
                if h3_is_client {
                    return (vec![], false, goaway_seen, true);
                }
            }
            CTok::Goaway(id) => {
                if h3_is_client && id % 4 != 0 {
                    return (vec![rf::H3_ID_ERROR], false, goaway_seen, false);
                }
                if let Some(prev) = last_goaway {
                    if *id > prev {
                        return (vec![rf::H3_ID_ERROR], false, goaway_seen, false);
                    }
                }
                last_goaway = Some(*id);
                goaway_seen = true;
                if !h3_is_client {
                    // no request is in progress in these scenarios: accept() may return Ok(None) now
                    return (vec![], true, true, false);
                }
            }
            CTok::Unknown | CTok::Grease => {}
        }
    }
    (vec![], false, goaway_seen, false)
}

fn control_stream_outcome(u: &UStream, h3_is_client: bool, reset_after_frames: usize) -> CtlOutcome {
    let (full_err, stopped, goaway, dc) = walk_control(&u.frames, h3_is_client);
    let mut out = CtlOutcome { errors: vec![], none_ok: false, goaway_seen: goaway, dont_care: dc };
    if stopped {
        // the rest of the stream (later frames, the ending) may or may not be looked at
        let (rest_err, _, _, _) = walk_control_after_goaway(&u.frames, h3_is_client);
        out.errors = rest_err;
        if u.end != UEnd::Open && !out.errors.contains(&rf::H3_CLOSED_CRITICAL_STREAM) {
            out.errors.push(rf::H3_CLOSED_CRITICAL_STREAM);
        }
        if matches!(u.end, UEnd::FinInsideFrame(_)) && !out.errors.contains(&rf::H3_FRAME_ERROR) {
            out.errors.push(rf::H3_FRAME_ERROR);
        }
        out.none_ok = true;
        return out;
    }
    match u.end {
        UEnd::Open => out.errors = full_err,
        UEnd::Fin => {
            out.errors = if full_err.is_empty() { vec![rf::H3_CLOSED_CRITICAL_STREAM] } else { full_err };
        }
        UEnd::FinInsideFrame(_) => {
            out.errors = if !full_err.is_empty() {
                full_err
            } else if u.frames.iter().any(|t| *t == CTok::Settings) {
                vec![rf::H3_FRAME_ERROR]
            } else {
                // nothing but (parts of) a frame that is not SETTINGS: either complaint is right
                vec![rf::H3_FRAME_ERROR, rf::H3_MISSING_SETTINGS]
            };
        }
        UEnd::Reset(_) => {
            // the frames h3 had read before the reset was sent are processed first
            let (pre_err, pre_stopped, _, _) = walk_control(&u.frames[..reset_after_frames.min(u.frames.len())], h3_is_client);
            if !pre_err.is_empty() {
                out.errors = pre_err;
            } else {
                out.errors = full_err;
                if !out.errors.contains(&rf::H3_CLOSED_CRITICAL_STREAM) {
                    out.errors.push(rf::H3_CLOSED_CRITICAL_STREAM);
                }
                out.none_ok = pre_stopped;
            }
        }
    }
    out
}

/// errors that frames after the first GOAWAY could raise if they are still processed
fn walk_control_after_goaway(frames: &[CTok], h3_is_client: bool) -> (Vec<u64>, bool, bool, bool) {
    // process as a client would (never stops), but with the server's frame rules
    let mut got_settings = false;
    let mut last_goaway: Option<u64> = None;
    for t in frames {
        if matches!(t, CTok::Unknown | CTok::Grease) {
            continue;
        }
        if !got_settings {
            got_settings = *t == CTok::Settings;
            continue;
        }
        match t {
            CTok::Settings | CTok::Data | CTok::Headers | CTok::PushPromise | CTok::H2Reserved => return (vec![rf::H3_FRAME_UNEXPECTED], false, true, false),
            CTok::MaxPushId if h3_is_client => return (vec![rf::H3_FRAME_UNEXPECTED], false, true, false),
            CTok::Goaway(id) => {
                if let Some(prev) = last_goaway {
                    if *id > prev {
                        return (vec![rf::H3_ID_ERROR], false, true, false);
                    }
                }
                last_goaway = Some(*id);
            }
            _ => {}
        }
    }
    (vec![], false, true, false)
}

pub fn expected(script: &[UStream], h3_is_client: bool, reset_after: &[usize], held_request: bool) -> Expect {
    let mut errors: Vec<u64> = Vec::new();
    let mut dont_care = false;
    let mut goaway = false;
    let mut none_ok = false;
    let count = |k: UKind| script.iter().filter(|u| u.kind == k).count();
    for k in [UKind::Control, UKind::Encoder, UKind::Decoder] {
        if count(k) > 1 {
            errors.push(rf::H3_STREAM_CREATION_ERROR);
        }
    }
    if count(UKind::Push) > 0 {
        dont_care = true;
    }
    for (i, u) in script.iter().enumerate() {
        if u.kind != UKind::Control {
            continue;
        }
        let mut o = control_stream_outcome(u, h3_is_client, reset_after[i]);
        if held_request && !h3_is_client {
            // accept() cannot have ended: nothing on the control stream may be left unprocessed
            o.none_ok = false;
        }
        dont_care |= o.dont_care;
        goaway |= o.goaway_seen;
        none_ok |= o.none_ok;
        for c in o.errors {
            if !errors.contains(&c) {
                errors.push(c);
            }
        }
    }
    if none_ok && count(UKind::Control) > 1 {
        // a server that stopped accepting does not look at further streams either
    }
    // a server whose accept() has ended does not process anything else: every other error becomes optional
    if none_ok {
        // keep `errors` as the acceptable set, but none is fine too
    }
    // closing a QPACK stream: not judged
    if script.iter().any(|u| matches!(u.kind, UKind::Encoder | UKind::Decoder) && u.end != UEnd::Open) {
        dont_care = true;
    }
    let n_ctl = count(UKind::Control);
    Expect {
        goaway_effect: if errors.is_empty() && !dont_care && n_ctl == 1 && !(held_request && !h3_is_client) { Some(goaway) } else { None },
        errors,
        none_ok,
        dont_care,
    }
}

#[derive(Debug, Clone, Copy, PartialEq, Eq, Hash)]
pub enum CreditMode {
    Unlimited,
    /// exactly the three mandatory streams, never more
    Exactly3,
    /// three at once, more granted by the network later
    Late,
}

#[derive(Debug, Clone)]
pub struct Mode {
    pub credit: CreditMode,
    pub backpressure: bool,
    pub stall_grease_stream: bool,
    pub grease: bool,
    /// server role: a request was accepted before the script starts and is never answered, so
    /// accept() cannot end and the control stream has to be processed to its last frame
    pub held_request: bool,
    /// the peer sends STOP_SENDING(code) on the k-th unidirectional stream h3 itself opened
    /// (0 control, 1/2 QPACK, 3 grease) as soon as it exists - for the grease stream this is what
    /// RFC 9114 6.2.3 tells a peer to do with a stream type it does not know
    pub stop_own: Option<(u8, u64)>,
}

pub struct Obs {
    pub close_by_h3: Option<u64>,
    pub driver: Option<ConnErr>,
    pub accept_none: bool,
    pub send_request: Option<Out>,
    pub panic: Option<String>,
    pub end: RunEnd,
    pub sig: u64,
    pub stop_sending_unknown: Vec<(u64, Option<u64>)>,
}

/// For every stream: how many control frames are certainly read by h3 before a RESET is sent
/// (chosen from the seed), and the byte offset that corresponds to.
pub fn reset_points(script: &[UStream], seed: u64) -> (Vec<usize>, Vec<usize>) {
    let mut rng = Rng::new(seed ^ 0x7e5e7);
    let mut frames = Vec::new();
    let mut bytes = Vec::new();
    for u in script {
        let tv = type_value(u.kind);
        let form = if rv::encode_form(tv, u.type_form).is_some() { u.type_form } else { 8 };
        let mut off = if u.kind == UKind::NoType { 0 } else { form };
        let k = if u.kind == UKind::Control { rng.usize(u.frames.len() + 1) } else { 0 };
        if u.kind == UKind::Control {
            for t in &u.frames[..k] {
                off += ctok_bytes(*t).len();
            }
        }
        frames.push(k);
        bytes.push(off);
    }
    (frames, bytes)
}

pub fn run_script(script: &[UStream], h3_is_client: bool, mode: &Mode, seed: u64) -> Obs {
    let mut rng = Rng::new(seed);
    let (_, reset_bytes) = reset_points(script, seed);
    let mut cfg = NetCfg::random(&mut rng);
    cfg.backpressure = mode.backpressure;
    cfg.ordered_accept = rng.bool();
    let h3_side = if h3_is_client { CLIENT } else { SERVER };
    let raw_side = raw::other(h3_side);
    // h3's own uni streams are control, encoder, decoder, then the grease stream
    let grease_stream_id = sim::make_id(h3_side, false, 3);
    if mode.stall_grease_stream {
        cfg.backpressure = true;
        cfg.stall_budget.push((grease_stream_id, h3_side));
    }
    let net = sim::new_net(cfg);
    let mut ids = Vec::new();
    {
        let mut n = lock(&net);
        raw::mark_raw(&mut n, raw_side);
        match mode.credit {
            CreditMode::Unlimited => {}
            CreditMode::Exactly3 => {
                n.sides[h3_side].uni_credit = 3;
                n.sides[h3_side].credit_grants_left = 0;
            }
            CreditMode::Late => {
                n.sides[h3_side].uni_credit = 3;
            }
        }
        for _ in script {
            ids.push(n.raw_open(raw_side, false));
        }
    }
    let probe = Probe::new(&net);
    let mut sched = Sched::new(net.clone(), rng.next());
    // one script per stream so that streams interleave freely
    let mut uni_scripts: Vec<Vec<ScriptStep>> = Vec::new();
    for (si, (u, id)) in script.iter().zip(ids.iter()).enumerate() {
        let b = ustream_bytes(u);
        let mut steps = Vec::new();
        if !b.is_empty() {
            // write in one or two pieces so that the ending can fall between frames too
            if b.len() > 1 && rng.bool() {
                let cut = 1 + rng.usize(b.len() - 1);
                steps.push(raw::step_write(raw_side, *id, b[..cut].to_vec()));
                steps.push(raw::step_write(raw_side, *id, b[cut..].to_vec()));
            } else {
                steps.push(raw::step_write(raw_side, *id, b));
            }
        }
        match u.end {
            UEnd::Open => {}
            UEnd::Fin | UEnd::FinInsideFrame(_) => steps.push(raw::step_fin(raw_side, *id)),
            UEnd::Reset(c) => {
                // the reset is sent once h3 has read the chosen prefix (type + some frames), so that
                // what must have been processed before it is known
                let need = reset_bytes[si];
                let sid = *id;
                steps.push(raw::step_custom(
                    "reset after prefix was read",
                    move |n| n.streams.get(&sid).map(|s| s.pipe(raw_side).read >= need || n.closed.is_some()).unwrap_or(false),
                    move |n, _| n.raw_reset(raw_side, sid, c),
                ));
            }
        }
        uni_scripts.push(steps);
    }
    if let Some((k, code)) = mode.stop_own {
        let id = sim::make_id(h3_side, false, k as u64);
        sched.add_script(vec![raw::step_custom(
            "stop_sending on a stream h3 opened",
            move |n| n.streams.get(&id).map(|s| s.pipes[h3_side].is_some()).unwrap_or(false),
            move |n, _| n.raw_stop(raw_side, id, code),
        )]);
    }
    let held = mode.held_request && !h3_is_client;
    if held {
        // phase 0: one complete request, accepted and parked by the application
        let rid = lock(&net).raw_open(raw_side, true);
        let mut w = raw::headers_frame(&raw::simple_request_headers());
        w.extend(raw::data_frame(b"held"));
        sched.add_script(vec![raw::step_write(raw_side, rid, w), raw::step_fin(raw_side, rid)]);
    } else {
        for st in uni_scripts.drain(..) {
            sched.add_script(st);
        }
    }
    let p = probe.clone();
    let net2 = net.clone();
    let grease = mode.grease;
    if h3_is_client {
        let sp = sched.spawner.clone();
        sched.spawn("c:conn", async move {
            let r = p
                .call("c:conn", "build", h3::client::builder().send_grease(grease).build::<_, _, Bytes>(SimConn::<Bytes>::new(&net2, CLIENT)), |r| match r {
                    Ok(_) => Out::Ok,
                    Err(e) => Out::ConnErr(ConnErr::from_h3(e)),
                })
                .await;
            let Ok((mut conn, send)) = r else { return };
            let p2 = p.clone();
            sp.spawn("c:driver", async move {
                let _ = p2
                    .call("c:driver", "wait_idle", std::future::poll_fn(|cx| conn.poll_close(cx)), |e| Out::ConnErr(ConnErr::from_h3(e)))
                    .await;
                p2.park(conn);
            });
            p.gate_wait().await;
            let mut send = send;
            let m = Msg { method: "GET".into(), uri: "https://example.com/".into(), ..Default::default() };
            let r = p
                .call("c:req", "send_request", send.send_request(m.to_request()), |r| match r {
                    Ok(_) => Out::Ok,
                    Err(e) => Out::Err(AErr::from_h3(e)),
                })
                .await;
            p.park(r.ok());
            p.park(send);
        });
    } else {
        sched.spawn("s:conn", async move {
            let r = p
                .call("s:conn", "build", h3::server::builder().send_grease(grease).build::<_, Bytes>(SimConn::<Bytes>::new(&net2, SERVER)), |r| match r {
                    Ok(_) => Out::Ok,
                    Err(e) => Out::ConnErr(ConnErr::from_h3(e)),
                })
                .await;
            let Ok(mut conn) = r else { return };
            loop {
                let r = p
                    .call("s:conn", "accept", conn.accept(), |r| match r {
                        Ok(Some(_)) => Out::Accepted(0),
                        Ok(None) => Out::None,
                        Err(e) => Out::ConnErr(ConnErr::from_h3(e)),
                    })
                    .await;
                match r {
                    Ok(Some(res)) => p.park(res),
                    _ => break,
                }
            }
            p.park(conn);
        });
    }
    let mut end = sched.run(300_000);
    if held && end == RunEnd::Quiescent {
        for st in uni_scripts.drain(..) {
            sched.add_script(st);
        }
        end = sched.run(300_000);
    }
    if end == RunEnd::Quiescent && h3_is_client {
        probe.gate_open();
        end = sched.run(300_000);
    }
    let evs = probe.events();
    let n = lock(&net);
    let close_by_h3 = n.closed.as_ref().filter(|c| c.by == h3_side).map(|c| c.code);
    let driver = evs.iter().rev().find_map(|e| {
        if (e.actor == "c:driver" && e.op == "wait_idle") || (e.actor == "s:conn" && e.op == "accept") || e.op == "build" {
            if let Out::ConnErr(c) = &e.out {
                return Some(c.clone());
            }
        }
        None
    });
    let accept_none = evs.iter().any(|e| e.actor == "s:conn" && e.op == "accept" && e.out == Out::None);
    let send_request = evs.iter().find(|e| e.op == "send_request").map(|e| e.out.clone());
    let stop_sending_unknown = script
        .iter()
        .zip(ids.iter())
        .filter(|(u, _)| matches!(u.kind, UKind::Grease | UKind::Unknown))
        .map(|(_, id)| (*id, n.streams[id].pipe(raw_side).stop_sent))
        .collect();
    Obs {
        close_by_h3,
        driver,
        accept_none,
        send_request,
        panic: sched.first_panic().map(|(t, p)| format!("task {}: {} at {}", t, p.msg, p.loc)),
        end,
        sig: sched.sig,
        stop_sending_unknown,
    }
}

fn viol(rep: &mut Report, rule: &str, detail: String, case: &serde_json::Value) {
    rep.violation(format!("C04/{}", rule), detail, case.clone());
}

fn describe(script: &[UStream], h3_is_client: bool, mode: &Mode) -> serde_json::Value {
    json!({
        "h3_role": if h3_is_client { "client" } else { "server" },
        "streams": script.iter().map(|u| json!({"type": format!("{:?}", u.kind), "type_varint_form": u.type_form, "id_varint_form": u.id_form, "frames": u.frames.iter().map(|t| format!("{:?}", t)).collect::<Vec<_>>(), "end": format!("{:?}", u.end), "bytes": hex_short(&ustream_bytes(u), 24)})).collect::<Vec<_>>(),
        "mode": {"credit": format!("{:?}", mode.credit), "backpressure": mode.backpressure, "stall_grease_stream": mode.stall_grease_stream, "grease": mode.grease, "peer_stops_h3_stream": mode.stop_own.map(|(k, c)| format!("{} with code {:#x}", ["control", "qpack encoder", "qpack decoder", "grease"][k as usize % 4], c))},
    })
}

pub fn check_script(script: &[UStream], h3_is_client: bool, mode: &Mode, seed: u64, rep: &mut Report) {
    rep.evaluations += 1;
    rep.count("scripts");
    rep.count(&format!("credit_mode[{}]", match mode.credit { CreditMode::Unlimited => "unlimited", CreditMode::Exactly3 => "exactly3", CreditMode::Late => "late" }));
    if mode.stall_grease_stream {
        rep.count("grease_stream_stalled");
    }
    for u in script {
        rep.count(&format!("type_form[{}]", u.type_form));
    }
    let case = describe(script, h3_is_client, mode);
    let (reset_frames, _) = reset_points(script, seed);
    let mut ex = expected(script, h3_is_client, &reset_frames, mode.held_request);
    if let Some((k, _)) = mode.stop_own {
        rep.count(&format!("peer_stops_h3_stream[{}]", ["control", "qpack encoder", "qpack decoder", "grease"][k as usize % 4]));
        if k < 3 {
            // RFC 9114 6.2.1 / RFC 9204 4.2: a critical stream the peer no longer reads may be treated
            // as closed - H3_CLOSED_CRITICAL_STREAM is acceptable whenever h3 notices (it does when it
            // next writes there), never required. Stopping the grease stream changes nothing.
            if !ex.errors.contains(&rf::H3_CLOSED_CRITICAL_STREAM) {
                ex.errors.push(rf::H3_CLOSED_CRITICAL_STREAM);
            }
            if ex.errors.len() == 1 {
                ex.none_ok = true;
            }
            ex.goaway_effect = None;
        }
    }
    if mode.held_request && !h3_is_client {
        rep.count("scripts_with_a_request_in_progress");
    }
    let o = run_script(script, h3_is_client, mode, seed);
    rep.sig(hash64(&(script, h3_is_client, format!("{:?}", mode), o.sig)));
    rep.sig_in("interleaving_signatures", o.sig);
    if let Some(p) = &o.panic {
        viol(rep, "panic", p.clone(), &case);
        return;
    }
    if o.end == RunEnd::StepCap {
        rep.inconclusive("step cap");
        return;
    }
    if ex.errors.is_empty() {
        rep.count("expect[none]");
    }
    for e in &ex.errors {
        rep.count(&format!("expect[{:#x}]", e));
    }
    if ex.dont_care {
        rep.count("expect[dont_care]");
    }
    let observed_err = o.close_by_h3.filter(|c| *c != rf::H3_NO_ERROR);
    match (ex.errors.is_empty(), observed_err) {
        (true, None) => {}
        (true, Some(c)) => {
            if !ex.dont_care {
                viol(rep, &format!("unexpected-connection-error[{:#x}]", c), format!("no rule yields a connection error for this behaviour but h3 closed with {:#x} (driver: {:?})", c, o.driver), &case);
                return;
            }
        }
        (false, Some(c)) => {
            if !ex.errors.contains(&c) && !ex.dont_care {
                viol(
                    rep,
                    &format!("wrong-connection-error[{:#x}-expected-{}]", c, ex.errors.iter().map(|e| format!("{:#x}", e)).collect::<Vec<_>>().join("|")),
                    format!("h3 closed with {:#x}; the applicable rules yield {:?}", c, ex.errors.iter().map(|e| format!("{:#x}", e)).collect::<Vec<_>>()),
                    &case,
                );
                return;
            }
            // the driver must report the same code
            if let Some(d) = &o.driver {
                if d.code() != Some(c) {
                    viol(rep, "driver-reports-other-error", format!("transport closed with {:#x} but the driver returned {:?}", c, d), &case);
                }
            }
        }
        (false, None) => {
            if !ex.dont_care && !ex.none_ok {
                viol(
                    rep,
                    &format!("missing-connection-error[{}]", ex.errors.iter().map(|e| format!("{:#x}", e)).collect::<Vec<_>>().join("|")),
                    format!("the behaviour must end in one of {:?} but h3 raised no connection error (driver: {:?})", ex.errors.iter().map(|e| format!("{:#x}", e)).collect::<Vec<_>>(), o.driver),
                    &case,
                );
                return;
            }
        }
    }
    // effect of GOAWAY (only judged when nothing else is going on)
    if let Some(g) = ex.goaway_effect {
        rep.count("goaway_effect_checked");
        if h3_is_client {
            match (&o.send_request, g) {
                (Some(Out::Err(AErr::RemoteClosing)), true) => rep.count("goaway_effect[client refuses new request]"),
                (Some(Out::Ok), false) => {}
                (Some(other), true) => viol(rep, "control-frame-not-acted-upon[GOAWAY]", format!("the peer sent GOAWAY but send_request afterwards returned {:?} instead of RemoteClosing", other), &case),
                (Some(other), false) => viol(rep, "effect-without-frame[GOAWAY]", format!("no GOAWAY was sent but send_request returned {:?}", other), &case),
                (None, _) => rep.count("goaway_effect_not_observable"),
            }
        } else {
            match (o.accept_none, g) {
                (true, true) => rep.count("goaway_effect[server accept ends]"),
                (false, false) => {}
                (false, true) => viol(rep, "control-frame-not-acted-upon[GOAWAY]", "the peer sent GOAWAY and no request is in progress but accept() did not return Ok(None)".into(), &case),
                (true, false) => viol(rep, "effect-without-frame[GOAWAY]", "accept() returned Ok(None) although the peer never sent GOAWAY".into(), &case),
            }
        }
    }
    if rep.want_sample() && script.len() == 2 {
        rep.sample(json!({"script": case, "expected_errors": ex.errors.iter().map(|e| format!("{:#x}", e)).collect::<Vec<_>>(), "observed_close": o.close_by_h3.map(|c| format!("{:#x}", c)), "unknown_streams_stop_sending": format!("{:?}", o.stop_sending_unknown)}));
    }
}

fn gen_ctl_frames(rng: &mut Rng, max: usize) -> Vec<CTok> {
    let n = rng.usize(max + 1);
    let mut v = Vec::new();
    // mostly start with SETTINGS
    if rng.chance(4, 5) {
        v.push(CTok::Settings);
    }
    for _ in 0..n {
        let t = match rng.below(12) {
            0..=3 => *rng.pick(&[CTok::Unknown, CTok::Grease, CTok::MaxPushId, CTok::Goaway(0)]),
            4 => CTok::Goaway(*rng.pick(&[0u64, 4, 8, 5, 1 << 20, (1 << 62) - 4])),
            _ => *rng.pick(&CTL_ALPHABET),
        };
        v.push(t);
    }
    v
}

fn gen_stream(rng: &mut Rng) -> UStream {
    let kind = *rng.pick(&[UKind::Control, UKind::Control, UKind::Encoder, UKind::Decoder, UKind::WtUni, UKind::Grease, UKind::Unknown, UKind::NoType, UKind::Push]);
    UStream {
        kind,
        id_form: *rng.pick(&[1usize, 2, 4, 8]),
        type_form: if kind == UKind::NoType { rng.usize(8) } else { *rng.pick(&[1usize, 2, 4, 8]) },
        frames: if kind == UKind::Control { gen_ctl_frames(rng, 4) } else { vec![] },
        end: match rng.below(4) {
            0 if kind == UKind::Control && rng.bool() => UEnd::FinInsideFrame(rng.below(5) as u8),
            0 => UEnd::Fin,
            1 => UEnd::Reset(*rng.pick(&[0u64, 0x100, 0x10c])),
            _ => UEnd::Open,
        },
    }
}

fn run_case(gen: &str, index: u64, seed: u64, _tier: Tier, rep: &mut Report) {
    let mut rng = Rng::new(seed);
    // which unassigned frame types stand for "unknown" in this case
    rf::set_unknown_salt(seed);
    let plain = Mode { credit: CreditMode::Unlimited, backpressure: false, stall_grease_stream: false, grease: true, held_request: false, stop_own: None };
    match gen {
        "single_control_sequences" => {
            let h3_is_client = index % 2 == 0;
            let frames = ctl_seq_from_index(index / 2);
            for end in [UEnd::Open, UEnd::Fin, UEnd::Reset(0x10c), UEnd::FinInsideFrame((index % 5) as u8)] {
                let s = vec![UStream { kind: UKind::Control, type_form: *rng.pick(&[1usize, 2, 4, 8]), id_form: 1, frames: frames.clone(), end }];
                check_script(&s, h3_is_client, &plain, rng.next(), rep);
                if !h3_is_client {
                    check_script(&s, h3_is_client, &Mode { held_request: true, ..plain.clone() }, rng.next(), rep);
                }
            }
        }
        "multi_stream_scripts" => {
            let n = 1 + rng.usize(4);
            let s: Vec<UStream> = (0..n).map(|_| gen_stream(&mut rng)).collect();
            let mode = Mode { credit: *rng.pick(&[CreditMode::Unlimited, CreditMode::Exactly3, CreditMode::Late]), backpressure: rng.bool(), stall_grease_stream: rng.chance(1, 6), grease: rng.chance(3, 4), held_request: rng.chance(1, 3), stop_own: if rng.chance(1, 4) { Some((*rng.pick(&[0u8, 1, 2, 3, 3, 3]), *rng.pick(&[0u64, 0x103, 0x10c]))) } else { None } };
            check_script(&s, rng.bool(), &mode, rng.next(), rep);
        }
        "goaway_effect_traces" => {
            // sequences of GOAWAY ids where dropping or duplicating a single frame changes an observable
            let h3_is_client = rng.bool();
            let pool: &[u64] = if h3_is_client { &[0, 4, 8, 12, 400] } else { &[0, 1, 2, 3, 9] };
            let k = 1 + rng.usize(4);
            let mut frames = vec![CTok::Settings];
            for _ in 0..k {
                if rng.chance(1, 4) {
                    frames.push(*rng.pick(&[CTok::Unknown, CTok::Grease]));
                }
                frames.push(CTok::Goaway(*rng.pick(pool)));
            }
            let s = vec![UStream { kind: UKind::Control, type_form: 1, id_form: 1, frames, end: UEnd::Open }];
            let mode = Mode { credit: *rng.pick(&[CreditMode::Unlimited, CreditMode::Exactly3, CreditMode::Late]), backpressure: rng.bool(), stall_grease_stream: rng.chance(1, 4), grease: true, held_request: false, stop_own: if rng.chance(1, 4) { Some((3, *rng.pick(&[0u64, 0x103]))) } else { None } };
            check_script(&s, h3_is_client, &mode, rng.next(), rep);
        }
        "credit_and_backpressure" => {
            // valid behaviour + one GOAWAY (or none), under every credit / acceptance mode
            let h3_is_client = rng.bool();
            let mut frames = vec![CTok::Settings];
            if rng.chance(1, 3) {
                frames.push(CTok::Grease);
            }
            if rng.chance(2, 3) {
                frames.push(CTok::Goaway(0));
            }
            if rng.chance(1, 3) {
                frames.push(CTok::Unknown);
            }
            let mut s = vec![UStream { kind: UKind::Control, type_form: *rng.pick(&[1usize, 2, 4, 8]), id_form: 1, frames, end: UEnd::Open }];
            if rng.bool() {
                s.push(UStream { kind: *rng.pick(&[UKind::Encoder, UKind::Decoder, UKind::Grease, UKind::Unknown, UKind::WtUni]), type_form: *rng.pick(&[1usize, 2, 4, 8]), id_form: *rng.pick(&[1usize, 2, 4, 8]), frames: vec![], end: UEnd::Open });
            }
            let mode = Mode { credit: *rng.pick(&[CreditMode::Exactly3, CreditMode::Late, CreditMode::Unlimited]), backpressure: rng.bool(), stall_grease_stream: rng.chance(1, 3), grease: true, held_request: false, stop_own: if rng.chance(1, 3) { Some((*rng.pick(&[0u8, 3, 3]), *rng.pick(&[0u64, 0x103]))) } else { None } };
            check_script(&s, h3_is_client, &mode, rng.next(), rep);
        }
        _ => {}
    }
}
