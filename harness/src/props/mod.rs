//! One module per property; `all()` is the registry used by the CLI.

use crate::PropDef;

pub mod c16;

pub fn all() -> Vec<PropDef> {
    vec![c16::def()]
}
