//! C10 — field-section size limit enforced exactly, in both directions.
//! A raw peer controls the exact RFC 9114 §4.2.2 size of every section it sends (reference
//! encoder) and the limit it advertises; the real endpoint's accept/refuse decisions and the
//! HEADERS frames it puts on the wire are compared with the size oracle.

use crate::refimpl::frames as rf;
use crate::refimpl::qpack as rq;
use crate::report::Report;
use crate::sim::apps::{self, CliCfg, ClientOpts, Err as AErr, Ev, Fields, Msg, Out, Probe, ReqPlan, RespPlan, ServerOpts, SrvCfg};
use crate::sim::rawpeer as raw;
use crate::sim::sched::{RunEnd, Sched};
use crate::sim::{self, lock, NetCfg, CLIENT, SERVER};
use crate::util::{hash64, Rng};
use crate::{Gen, PropDef, Tier};
use bytes::Bytes;
use serde_json::json;

pub fn def() -> PropDef {
    PropDef {
        id: "C10",
        rule: "grid: limits L over {0, 32, 33, 41, 42, 43, 100, 167, 1000, 16383, 16384, 2^30, 2^62-1} x \
               section sizes s = L-2..L+2 (and random others) built with 1..8 fields so the +32 per \
               field matters x {request, response, trailers} x {receive, send} x both roles x \
               SETTINGS applied before the send or never delivered. Receive: a raw peer sends a \
               section of exactly s bytes (reference encoder; size = sum name+value+32) to an h3 \
               endpoint configured with limit L: it must be accepted iff s <= L, a refusal must be \
               HeaderTooBig without connection error, and a server must answer 431 unless the \
               42-byte 431 section exceeds the limit the client advertised. Send: the endpoint is \
               asked to send a section of size s while the peer's advertised limit in force is P \
               (or the unlimited default when SETTINGS never arrived): the call must succeed iff \
               s <= P and no HEADERS frame larger than P may appear on the wire (sizes measured by \
               the reference decoder). Non-trivial distinct = distinct (direction, role, kind, L, s, \
               field count, settings mode).",
        assumptions: || {
            vec![
                "reference QPACK encoder/decoder (refimpl/qpack.rs) computes the RFC 9114 §4.2.2 size".into(),
                "SETTINGS timing is made deterministic with two phases (first phase runs to quiescence); calls overlapping the arrival of SETTINGS are not generated".into(),
                "sizes above ~70 KB are not constructed; for L >= 2^30 only s <= L cases exist".into(),
            ]
        },
        gens,
        run_case,
        finish,
    }
}

const LIMITS: [u64; 13] = [0, 32, 33, 41, 42, 43, 100, 167, 1000, 16383, 16384, 1 << 30, (1 << 62) - 1];
const KINDS: usize = 8; // recv/send x server/client x head/trailers

fn gens(tier: Tier) -> Vec<Gen> {
    vec![
        // one case = (limit, delta index, kind): 13 x 5 x 8, each with 3 field-count variants
        Gen::exhaustive("grid", (LIMITS.len() * 5 * KINDS) as u64),
        Gen::new("random_sizes", tier.pick(2, 2_000, 200_000)),
        Gen::new("handles_across_settings", tier.pick(2, 1_500, 150_000)),
    ]
}

fn finish(tier: Tier, rep: &mut Report) {
    if tier == Tier::Lite {
        return;
    }
    for (k, floor) in [
        ("scenarios", 1_000u64),
        ("expect[recv accept]", 100),
        ("expect[recv refuse]", 100),
        ("expect[send ok]", 100),
        ("expect[send refuse]", 100),
        ("size_exactly_at_limit", 30),
        ("size_limit_plus_1", 30),
        ("observed_431", 20),
        ("observed_no_431_because_client_limit_below_42", 3),
        ("settings_mode[never]", 50),
        ("late_settings_applied_while_held", 50),
        ("late_settings_applied_while_send_request_waits_for_a_stream", 20),
    ] {
        if rep.get(k) < floor {
            rep.inconclusive(format!("{} = {} below floor {}", k, rep.get(k), floor));
        }
    }
}

fn viol(rep: &mut Report, rule: &str, detail: String, case: &serde_json::Value) {
    rep.violation(format!("C10/{}", rule), detail, case.clone());
}

/// regular fields whose sizes add up to exactly `target` (each field costs name+value+32), using
/// `nfields` fields if possible. Returns None when not constructible.
fn filler_fields(target: u64, nfields: usize, wide: bool) -> Option<Fields> {
    if target == 0 {
        return Some(vec![]);
    }
    if !(33..=75_000).contains(&target) {
        return None;
    }
    // n-1 small fields of 35 bytes ("f<i>" + 1-byte value + 32) and a last one taking the rest (>= 33)
    let mut n = nfields.clamp(1, 9) as u64;
    while n > 1 && (n - 1) * 35 + 33 > target {
        n -= 1;
    }
    let mut out: Fields = Vec::new();
    let mut rest = target;
    for i in 0..n - 1 {
        out.push((format!("f{}", i), vec![b'v']));
        rest -= 35;
    }
    // `wide`: obs-text bytes, legal in a field value, whose Huffman codes are 26..28 bits long - the
    // encoded block of such a section is longer than its size by the RFC rule
    out.push(("a".to_string(), vec![if wide { 0xf9 } else { b'w' }; (rest - 33) as usize]));
    let total: u64 = out.iter().map(|(n, v)| n.len() as u64 + v.len() as u64 + 32).sum();
    if total != target {
        return None;
    }
    Some(out)
}

fn to_ref_fields(f: &Fields) -> Vec<rq::Field> {
    f.iter().map(|(n, v)| (n.as_bytes().to_vec(), v.clone())).collect()
}

const REQ_PSEUDO: [(&str, &str); 4] = [(":method", "GET"), (":scheme", "https"), (":authority", "example.com"), (":path", "/")];
fn req_pseudo_size() -> u64 {
    REQ_PSEUDO.iter().map(|(n, v)| n.len() as u64 + v.len() as u64 + 32).sum()
}
const RESP_PSEUDO_SIZE: u64 = 7 + 3 + 32;

#[derive(Debug, Clone, Copy, PartialEq, Eq, Hash)]
enum Kind {
    Head,
    Trailers,
}

#[derive(Debug, Clone, Copy, PartialEq, Eq, Hash)]
enum SettingsMode {
    /// SETTINGS arrive after the stream object exists and before the send under test (send direction)
    Late,
    /// the raw peer's SETTINGS (with its limit) are applied before the send / 431
    Applied,
    /// the raw peer's SETTINGS are applied but do not mention a limit: protocol default in force
    AppliedWithoutLimit,
    /// the raw peer's control stream never carries SETTINGS: protocol default (unlimited) in force
    Never,
}

/// Build a section of exactly `s` bytes for (role, kind); None if not constructible.
fn section_fields(server_receives: bool, kind: Kind, s: u64, nfields: usize, wide: bool) -> Option<(Vec<rq::Field>, Fields)> {
    let (pseudo, base): (Vec<rq::Field>, u64) = match (kind, server_receives) {
        (Kind::Trailers, _) => (vec![], 0),
        (Kind::Head, true) => (REQ_PSEUDO.iter().map(|(n, v)| (n.as_bytes().to_vec(), v.as_bytes().to_vec())).collect(), req_pseudo_size()),
        (Kind::Head, false) => (vec![(b":status".to_vec(), b"200".to_vec())], RESP_PSEUDO_SIZE),
    };
    if s < base {
        return None;
    }
    let extra = filler_fields(s - base, nfields, wide)?;
    let mut all = pseudo;
    all.extend(to_ref_fields(&extra));
    debug_assert_eq!(rq::section_size(&all), s);
    Some((all, extra))
}

#[derive(Clone, Copy)]
struct Scn {
    recv: bool,
    h3_server: bool,
    kind: Kind,
    limit: u64,
    s: u64,
    nfields: usize,
    /// the big value consists of bytes that Huffman coding lengthens (block longer than the RFC size)
    wide: bool,
    mode: SettingsMode,
    /// limit advertised by the raw peer (relevant for 431 and for sends)
    peer_limit: u64,
}

/// Make the scaffolding of a scenario independent of the limit under test; None when the
/// scenario cannot exercise what it is meant to (e.g. trailers behind a head that is refused).
fn normalise(mut c: Scn) -> Option<Scn> {
    let own_head = |h3_server: bool| if h3_server { RESP_PSEUDO_SIZE } else { req_pseudo_size() };
    if c.recv {
        if !c.h3_server {
            // the raw server's advertised limit would only block the client's own request
            c.peer_limit = (1 << 62) - 1;
        }
        if c.kind == Kind::Trailers {
            // the head the raw peer sends first must pass the same limit
            let scaffold_head = if c.h3_server { req_pseudo_size() } else { RESP_PSEUDO_SIZE };
            if c.limit < scaffold_head {
                return None;
            }
        }
    } else {
        c.limit = (1 << 62) - 1;
        if c.kind == Kind::Trailers && c.mode == SettingsMode::Applied && c.peer_limit < own_head(c.h3_server) {
            return None;
        }
        // Late + client + head: a client's request stream does not exist before its head is sent;
        // the "late" moment is then *inside* send_request, while it waits for stream credit
    }
    if c.recv && c.mode == SettingsMode::Late {
        return None;
    }
    Some(c)
}

fn run_scn(c: &Scn, seed: u64, rep: &mut Report) {
    let Some(c) = normalise(Scn { ..*c }) else {
        rep.count("not_constructible");
        return;
    };
    let c = &c;
    let case = json!({"direction": if c.recv { "receive" } else { "send" }, "h3_role": if c.h3_server { "server" } else { "client" }, "kind": format!("{:?}", c.kind),
                      "limit_L": c.limit, "section_size_s": c.s, "fields": c.nfields, "huffman_lengthened_value": c.wide, "settings": format!("{:?}", c.mode), "peer_advertised_limit": c.peer_limit});
    let mut rng = Rng::new(seed);
    let Some((ref_fields, extra)) = section_fields(c.recv == c.h3_server, c.kind, c.s, c.nfields, c.wide) else {
        rep.count("not_constructible");
        return;
    };
    rep.evaluations += 1;
    rep.count("scenarios");
    rep.sig(hash64(&(c.recv, c.h3_server, c.kind, c.limit, c.s, c.nfields, c.mode, c.peer_limit, c.wide)));
    rep.count(&format!("settings_mode[{}]", match c.mode { SettingsMode::Never => "never", SettingsMode::Applied => "applied", SettingsMode::AppliedWithoutLimit => "applied, no limit among the parameters", SettingsMode::Late => "late(after the stream exists, before the send)" }));
    if c.s == c.limit && c.recv || (!c.recv && c.s == c.peer_limit) {
        rep.count("size_exactly_at_limit");
    }
    if (c.recv && c.s == c.limit + 1) || (!c.recv && c.s == c.peer_limit.saturating_add(1)) {
        rep.count("size_limit_plus_1");
    }
    let mut cfg = NetCfg::random(&mut rng);
    cfg.backpressure = false;
    if c.s > 3000 && (cfg.chunk_style == 1 || cfg.chunk_style == 2) {
        // h3's BufList::remaining() walks every buffered chunk on each poll: tens of thousands of
        // 1-byte chunks inside one frame cost quadratic time (not a subject of this property)
        cfg.chunk_style = 3;
    }
    let net = sim::new_net(cfg);
    let h3_side = if c.h3_server { SERVER } else { CLIENT };
    let raw_side = raw::other(h3_side);
    let raw_control;
    {
        let mut n = lock(&net);
        raw::mark_raw(&mut n, raw_side);
        let id = n.raw_open(raw_side, false);
        match c.mode {
            SettingsMode::Applied => n.raw_write(raw_side, id, &raw::control_preamble(&[(rf::S_MAX_FIELD_SECTION_SIZE, c.peer_limit)])),
            SettingsMode::AppliedWithoutLimit => n.raw_write(raw_side, id, &raw::control_preamble(&[(rf::S_H3_DATAGRAM, 1), (0x21 + 0x1f * (seed % 1000), seed % 77)])),
            SettingsMode::Never | SettingsMode::Late => n.raw_write(raw_side, id, &[0x00]),
        }
        raw_control = id;
    }
    // Late: the application is held right before the send under test; SETTINGS arrive meanwhile
    let during_open = c.mode == SettingsMode::Late && c.kind == Kind::Head && !c.h3_server && !c.recv;
    if during_open {
        // no request stream can be opened until the monitor grants credit
        let mut n = lock(&net);
        n.sides[CLIENT].bidi_credit = 0;
        n.sides[CLIENT].credit_grants_left = 0;
    }
    let hold: Option<&'static str> = if during_open {
        None
    } else if c.mode == SettingsMode::Late {
        Some(match c.kind {
            Kind::Head => "send_response",
            Kind::Trailers => "send_trailers",
        })
    } else {
        None
    };
    let probe = Probe::new(&net);
    let mut sched = Sched::new(net.clone(), rng.next());
    let sp = sched.spawner.clone();
    // the application uses the request stream whole or split into halves (the limits travel with the halves)
    let app_split = rng.bool();
    rep.count(if app_split { "app_stream[split]" } else { "app_stream[whole]" });
    // messages the h3 application sends (send direction) or the raw peer sends (receive direction)
    let section = rq::encode_section(&ref_fields, &rq::EncOpts { huffman: rng.bool(), ..Default::default() });
    if c.recv && section.len() as u64 > c.s {
        rep.count("received_block_longer_than_its_rfc_size");
        if c.s <= c.limit && section.len() as u64 > c.limit {
            rep.count("received_block_longer_than_the_limit_but_section_within_it");
        }
    }
    let small_trailers = rq::encode_section(&[(b"t".to_vec(), b"1".to_vec())], &rq::EncOpts::default());
    if c.h3_server {
        // application response: in the send direction it carries the section under test
        // the section under test may be an interim or an error response: the limit is the same
        // for every status (all three digits, so the size is too)
        let status = if !c.recv && c.kind == Kind::Head { *rng.pick(&[200u16, 200, 103, 100, 404, 500]) } else { 200 };
        rep.count(&format!("response_status_class[{}xx]", status / 100));
        let mut resp = Msg { status, body: vec![b"ok".to_vec()], ..Default::default() };
        if !c.recv {
            match c.kind {
                Kind::Head => resp.headers = extra.clone(),
                Kind::Trailers => resp.trailers = Some(extra.clone()),
            }
        }
        let sopts = ServerOpts {
            cfg: SrvCfg { max_field_section_size: Some(c.limit), grease: Some(false), ..Default::default() },
            default_plan: RespPlan { resp, hold, split: app_split, ..Default::default() },
            ..Default::default()
        };
        sched.spawn("s:conn", apps::server_main::<Bytes>(net.clone(), sopts, probe.clone(), sp));
    } else {
        let mut req = Msg { method: "GET".into(), uri: "https://example.com/".into(), body: vec![b"q".to_vec()], ..Default::default() };
        if !c.recv {
            match c.kind {
                Kind::Head => req.headers = extra.clone(),
                Kind::Trailers => req.trailers = Some(extra.clone()),
            }
        }
        let copts = ClientOpts {
            cfg: CliCfg { max_field_section_size: Some(c.limit), grease: Some(false), ..Default::default() },
            reqs: vec![ReqPlan { req, hold, split: app_split, ..Default::default() }],
            wait_gate: true,
            ..Default::default()
        };
        sched.spawn("c:conn", apps::client_main::<Bytes>(net.clone(), copts, probe.clone(), sp));
    }
    // phase 1: connection set-up, SETTINGS applied (or not)
    if sched.run(400_000) == RunEnd::StepCap {
        rep.inconclusive("step cap (phase 1)");
        return;
    }
    // phase 2
    let req_stream = 0u64;
    if c.h3_server {
        let id = {
            let mut n = lock(&net);
            n.raw_open(CLIENT, true)
        };
        let mut w = Vec::new();
        if c.recv {
            match c.kind {
                Kind::Head => {
                    w.extend(raw::headers_frame(&section));
                    w.extend(raw::data_frame(b"body"));
                }
                Kind::Trailers => {
                    w.extend(raw::headers_frame(&raw::simple_request_headers()));
                    w.extend(raw::data_frame(b"body"));
                    w.extend(raw::headers_frame(&section));
                }
            }
        } else {
            w.extend(raw::headers_frame(&raw::simple_request_headers()));
            w.extend(raw::data_frame(b"body"));
            w.extend(raw::headers_frame(&small_trailers));
        }
        sched.add_script(vec![raw::step_write(CLIENT, id, w), raw::step_fin(CLIENT, id)]);
    } else {
        probe.gate_open();
        // the raw server answers once the request stream exists
        let mut w = Vec::new();
        if c.recv {
            match c.kind {
                Kind::Head => {
                    w.extend(raw::headers_frame(&section));
                    w.extend(raw::data_frame(b"body"));
                }
                Kind::Trailers => {
                    w.extend(raw::headers_frame(&raw::simple_response_headers(200)));
                    w.extend(raw::data_frame(b"body"));
                    w.extend(raw::headers_frame(&section));
                }
            }
        } else {
            w.extend(raw::headers_frame(&raw::simple_response_headers(200)));
            w.extend(raw::data_frame(b"body"));
        }
        sched.add_script(vec![raw::step_write(SERVER, req_stream, w), raw::step_fin(SERVER, req_stream)]);
    }
    if sched.run(3_000_000) == RunEnd::StepCap {
        rep.inconclusive("step cap (phase 2)");
        return;
    }
    if c.mode == SettingsMode::Late {
        // phase 3: the stream exists and the application is held before the send: now the peer's
        // SETTINGS arrive and are applied, then the send goes ahead
        let held = if during_open {
            // send_request is waiting for a stream
            probe.open().values().any(|(op, _)| *op == "send_request") && lock(&net).sides[CLIENT].open_blocked_bidi
        } else {
            probe.open().values().any(|(op, _)| *op == "idle(held by the monitor)")
        };
        if !held {
            rep.count("late_settings_hold_not_reached");
            return;
        }
        rep.count(if during_open { "late_settings_applied_while_send_request_waits_for_a_stream" } else { "late_settings_applied_while_held" });
        sched.add_script(vec![raw::step_write(raw_side, raw_control, rf::settings_frame(&[(rf::S_MAX_FIELD_SECTION_SIZE, c.peer_limit)]))]);
        if sched.run(400_000) == RunEnd::StepCap {
            rep.inconclusive("step cap (phase 3)");
            return;
        }
        probe.gate2_open();
        if during_open {
            lock(&net).sides[CLIENT].credit_grants_left = 1;
        }
        if sched.run(3_000_000) == RunEnd::StepCap {
            rep.inconclusive("step cap (phase 4)");
            return;
        }
    }
    if let Some((t, p)) = sched.first_panic() {
        viol(rep, &format!("panic[{} {}]", p.file(), p.msg_key()), format!("task {}: {} at {}", t, p.msg, p.loc), &case);
        return;
    }
    let evs = probe.events();
    if rep.verbose {
        eprintln!("--- {}", case);
        for e in &evs {
            eprintln!("  t={} {} {} -> {}", e.t, e.actor, e.op, short(&e.out));
        }
    }
    let actor_prefix = if c.h3_server { "s:req@0".to_string() } else { "c:req#0".to_string() };
    let aevs: Vec<&Ev> = evs.iter().filter(|e| e.actor.starts_with(&actor_prefix)).collect();
    let n = lock(&net);
    let close = n.closed.as_ref().filter(|cl| cl.by == h3_side && cl.code != rf::H3_NO_ERROR).map(|cl| cl.code);
    if let Some(code) = close {
        viol(rep, "connection-error", format!("h3 closed the connection with {:#x} in a size-limit scenario", code), &case);
        return;
    }
    // what h3 wrote on the request stream
    let wire_out: Vec<u8> = n.streams.get(&req_stream).map(|s| s.pipe(h3_side).sent.clone()).unwrap_or_default();
    let (frames_out, _) = rf::segment(&wire_out);
    let headers_out: Vec<&rf::RawFrame> = frames_out.iter().filter(|f| f.ty == rf::T_HEADERS).collect();
    let size_of = |f: &rf::RawFrame| -> Option<(u64, Vec<rq::Field>)> {
        match rq::judge_stateless(&f.payload) {
            rq::Stateless::MustAccept(fl) | rq::Stateless::DontCare(fl, _) => Some((rq::section_size(&fl), fl)),
            _ => None,
        }
    };
    let find = |op: &str| aevs.iter().find(|e| e.op == op).map(|e| &e.out);
    if c.recv {
        let op = match (c.kind, c.h3_server) {
            (Kind::Head, true) => "resolve_request",
            (Kind::Head, false) => "recv_response",
            (Kind::Trailers, _) => "recv_trailers",
        };
        let accept = c.s <= c.limit;
        rep.count(if accept { "expect[recv accept]" } else { "expect[recv refuse]" });
        let got = find(op);
        match (accept, got) {
            (true, Some(Out::Request { .. })) | (true, Some(Out::Response { .. })) | (true, Some(Out::Trailers(_))) => {}
            (true, Some(Out::None)) if c.kind == Kind::Trailers && c.s == 0 => {}
            (false, Some(Out::Err(AErr::HeaderTooBig { max, .. }))) => {
                // a server that cannot even send its 431 (client limit in force < 42) reports that failure
                let failed_431 = c.h3_server && c.kind == Kind::Head && c.mode == SettingsMode::Applied && c.peer_limit < RESP_PSEUDO_SIZE && *max == c.peer_limit;
                if *max != c.limit && !failed_431 {
                    viol(rep, "HeaderTooBig-reports-other-limit", format!("{}: max_size {} but the configured limit is {}", op, max, c.limit), &case);
                }
            }
            (true, other) => viol(
                rep,
                &format!("section-within-limit-refused[{}]", op),
                format!("{}: section of {} bytes with limit {} gave {:?}", op, c.s, c.limit, other.map(short)),
                &case,
            ),
            (false, other) => {
                // on the server a refused request may surface the 431's own failure
                let ok = matches!(other, Some(Out::Err(AErr::HeaderTooBig { .. })));
                if !ok {
                    viol(
                        rep,
                        &format!("oversized-section-accepted[{}]", op),
                        format!("{}: section of {} bytes with limit {} gave {:?}", op, c.s, c.limit, other.map(short)),
                        &case,
                    );
                }
            }
        }
        // 431 rule (server, request head refused)
        if c.h3_server && c.kind == Kind::Head && !accept {
            let client_limit_in_force = if c.mode == SettingsMode::Applied { c.peer_limit } else { u64::MAX };
            let sent_431 = headers_out.iter().any(|f| size_of(f).map(|(_, fl)| fl.iter().any(|(n, v)| n == b":status" && v == b"431")).unwrap_or(false));
            let want_431 = RESP_PSEUDO_SIZE <= client_limit_in_force;
            if want_431 && !sent_431 {
                viol(rep, "no-431-answer", format!("request refused (s={} > L={}) but no 431 response on the wire (client limit {})", c.s, c.limit, client_limit_in_force), &case);
            } else if !want_431 && sent_431 {
                viol(rep, "431-exceeds-client-limit", format!("431 (42 bytes) sent although the client advertised a limit of {}", client_limit_in_force), &case);
            }
            if sent_431 {
                rep.count("observed_431");
            } else {
                rep.count("observed_no_431_because_client_limit_below_42");
            }
        }
    } else {
        let op = match (c.kind, c.h3_server) {
            (Kind::Head, true) => "send_response",
            (Kind::Head, false) => "send_request",
            (Kind::Trailers, _) => "send_trailers",
        };
        let in_force = if matches!(c.mode, SettingsMode::Never | SettingsMode::AppliedWithoutLimit) { u64::MAX } else { c.peer_limit };
        let ok = c.s <= in_force;
        rep.count(if ok { "expect[send ok]" } else { "expect[send refuse]" });
        match (ok, find(op)) {
            (true, Some(Out::Ok)) | (true, Some(Out::Opened(_))) => {}
            (false, Some(Out::Err(AErr::HeaderTooBig { actual, max }))) => {
                if *max != in_force || *actual != c.s {
                    viol(rep, "HeaderTooBig-reports-other-values", format!("{}: reports actual {} max {} but the section has {} bytes and the limit in force is {}", op, actual, max, c.s, in_force), &case);
                }
            }
            (true, other) => viol(rep, &format!("send-within-limit-refused[{}]", op), format!("{}: section of {} bytes, peer limit in force {}: {:?}", op, c.s, in_force, other.map(short)), &case),
            (false, other) => viol(rep, &format!("oversized-send-accepted[{}]", op), format!("{}: section of {} bytes, peer limit in force {}: {:?}", op, c.s, in_force, other.map(short)), &case),
        }
        // wire: no HEADERS frame larger than the limit in force; and the section under test has size s
        for (fi, f) in headers_out.iter().enumerate() {
            match size_of(f) {
                None => viol(rep, "HEADERS-not-decodable", "reference cannot decode a HEADERS frame h3 wrote".into(), &case),
                Some((sz, _)) => {
                    rep.count("wire_headers_measured");
                    // Late: what was written before the hold was written before the SETTINGS arrived
                    let in_force = if c.mode == SettingsMode::Late && c.kind == Kind::Trailers && fi == 0 { u64::MAX } else { in_force };
                    if sz > in_force {
                        viol(rep, "oversized-HEADERS-on-the-wire", format!("a HEADERS frame of {} bytes was written while the peer's limit in force is {}", sz, in_force), &case);
                    }
                }
            }
        }
        if ok {
            // the section under test must be on the wire with exactly the computed size
            let idx = match c.kind {
                Kind::Head => 0,
                Kind::Trailers => 1,
            };
            match headers_out.get(idx).and_then(|f| size_of(f)) {
                Some((sz, _)) if sz == c.s => {}
                other => viol(rep, "section-size-on-wire-differs", format!("expected HEADERS #{} of {} bytes on the wire, found {:?}", idx, c.s, other.map(|(s, _)| s)), &case),
            }
        }
    }
    if rep.want_sample() && c.s == c.limit + 1 {
        rep.sample(json!({"scenario": case, "outcome": aevs.iter().map(|e| format!("{} -> {}", e.op, short(&e.out))).collect::<Vec<_>>()}));
    }
}

fn short(o: &Out) -> String {
    match o {
        Out::Request { .. } => "Request".into(),
        Out::Response { status, .. } => format!("Response({})", status),
        Out::Trailers(t) => format!("Trailers({} fields)", t.len()),
        Out::Data(d) => format!("Data({})", d.len()),
        other => {
            let s = format!("{:?}", other);
            s.chars().take(160).collect()
        }
    }
}

fn kind_from(k: usize) -> (bool, bool, Kind) {
    (k & 1 == 0, k & 2 == 0, if k & 4 == 0 { Kind::Head } else { Kind::Trailers })
}

/// A client's SendRequest handle (or a clone of it, made before or after) is used for a first, small
/// request while the server's SETTINGS have not arrived, then the SETTINGS arrive with a finite limit,
/// then the same handle sends the request under test: the limit in force is the advertised one.
fn handle_across_settings(seed: u64, rep: &mut Report) {
    use crate::sim::SimConn;
    let mut rng = Rng::new(seed);
    rep.evaluations += 1;
    let l = *rng.pick(&LIMITS);
    let l = if l > 60_000 || l < req_pseudo_size() { 200 + rng.below(3000) } else { l };
    let s = match rng.below(5) {
        0 => l,
        1 => l + 1,
        2 => l.saturating_sub(1),
        3 => l + 33 + rng.below(400),
        _ => req_pseudo_size() + rng.below(l.saturating_sub(req_pseudo_size()).max(1)),
    };
    let which = rng.below(3);
    let wide = rng.chance(1, 4);
    let warmups = 1 + rng.usize(2);
    let handle_name = ["the same handle", "a clone made before the first request", "a clone made after the SETTINGS"][which as usize];
    let case = json!({"scenario": "one SendRequest handle used before and after the server's SETTINGS arrive", "advertised_limit": l, "section_size_s": s,
                      "handle": handle_name, "requests_before_settings": warmups});
    let Some((_, extra)) = section_fields(true, Kind::Head, s, 1 + rng.usize(8), wide) else {
        rep.count("scenario_not_constructible");
        return;
    };
    rep.sig(hash64(&("across", l, s, which, wide, warmups)));
    rep.count("handles_across_settings");
    rep.count(&format!("handle_used[{}]", ["same", "clone before first request", "clone after settings"][which as usize]));
    let mut cfg = NetCfg::random(&mut rng);
    cfg.backpressure = rng.chance(1, 3);
    if s > 3000 && (cfg.chunk_style == 1 || cfg.chunk_style == 2) {
        cfg.chunk_style = 3;
    }
    let net = sim::new_net(cfg);
    let ctrl;
    {
        let mut n = lock(&net);
        raw::mark_raw(&mut n, SERVER);
        ctrl = n.raw_open(SERVER, false);
        n.raw_write(SERVER, ctrl, &[0x00]);
    }
    let probe = Probe::new(&net);
    let mut sched = Sched::new(net.clone(), rng.next());
    let sp = sched.spawner.clone();
    let (p, net2) = (probe.clone(), net.clone());
    let big = Msg { method: "GET".into(), uri: "https://example.com/".into(), headers: extra, ..Default::default() };
    sched.spawn("c:conn", async move {
        let r = p
            .call("c:conn", "build", h3::client::builder().send_grease(false).build::<_, _, Bytes>(SimConn::<Bytes>::new(&net2, CLIENT)), |r| match r {
                Ok(_) => Out::Ok,
                Err(e) => Out::ConnErr(apps::ConnErr::from_h3(e)),
            })
            .await;
        let Ok((mut conn, send)) = r else { return };
        let p2 = p.clone();
        sp.spawn("c:driver", async move {
            let _ = p2.call("c:driver", "wait_idle", std::future::poll_fn(|cx| conn.poll_close(cx)), |e| Out::ConnErr(apps::ConnErr::from_h3(e))).await;
            p2.park(conn);
        });
        let mut h = send;
        let mut early_clone = h.clone();
        for i in 0..warmups {
            let small = Msg { method: "GET".into(), uri: "https://example.com/".into(), ..Default::default() };
            let r = p
                .call(&format!("c:warm#{}", i), "send_request", h.send_request(small.to_request()), |r| match r {
                    Ok(s) => Out::Opened(s.id().into_inner()),
                    Err(e) => Out::Err(AErr::from_h3(e)),
                })
                .await;
            p.park(r.ok());
        }
        p.gate_wait().await;
        let mut late_clone = h.clone();
        let hh = match which {
            0 => &mut h,
            1 => &mut early_clone,
            _ => &mut late_clone,
        };
        let r = p
            .call("c:req", "send_request", hh.send_request(big.to_request()), |r| match r {
                Ok(s) => Out::Opened(s.id().into_inner()),
                Err(e) => Out::Err(AErr::from_h3(e)),
            })
            .await;
        p.park(r.ok());
        p.park((h, early_clone, late_clone));
    });
    if sched.run(400_000) == RunEnd::StepCap {
        rep.inconclusive("step cap (handles_across_settings, phase 1)");
        return;
    }
    let warm_done = probe.events().iter().filter(|e| e.actor.starts_with("c:warm#") && matches!(e.out, Out::Opened(_))).count();
    if warm_done != warmups {
        rep.count("warm_up_requests_not_sent");
        return;
    }
    sched.add_script(vec![raw::step_write(SERVER, ctrl, rf::settings_frame(&[(rf::S_MAX_FIELD_SECTION_SIZE, l)]))]);
    if sched.run(400_000) == RunEnd::StepCap {
        rep.inconclusive("step cap (handles_across_settings, phase 2)");
        return;
    }
    probe.gate_open();
    if sched.run(3_000_000) == RunEnd::StepCap {
        rep.inconclusive("step cap (handles_across_settings, phase 3)");
        return;
    }
    if let Some((t, pn)) = sched.first_panic() {
        viol(rep, &format!("panic[{} {}]", pn.file(), pn.msg_key()), format!("task {}: {} at {}", t, pn.msg, pn.loc), &case);
        return;
    }
    let evs = probe.events();
    let got = evs.iter().find(|e| e.actor == "c:req" && e.op == "send_request").map(|e| e.out.clone());
    let n = lock(&net);
    if let Some(cl) = n.closed.as_ref().filter(|cl| cl.by == CLIENT && cl.code != rf::H3_NO_ERROR) {
        viol(rep, "connection-error", format!("h3 closed the connection with {:#x} in a size-limit scenario", cl.code), &case);
        return;
    }
    // what went out on the stream the request under test would use
    let sid = 4 * warmups as u64;
    let wire: Vec<u8> = n.streams.get(&sid).map(|st| st.pipe(CLIENT).sent.clone()).unwrap_or_default();
    let (frames, _) = rf::segment(&wire);
    let sent_sizes: Vec<u64> = frames
        .iter()
        .filter(|f| f.ty == rf::T_HEADERS)
        .filter_map(|f| match rq::judge_stateless(&f.payload) {
            rq::Stateless::MustAccept(fl) | rq::Stateless::DontCare(fl, _) => Some(rq::section_size(&fl)),
            _ => None,
        })
        .collect();
    let ok = s <= l;
    rep.count(if ok { "expect[send ok]" } else { "expect[send refuse]" });
    if let Some(big_sent) = sent_sizes.iter().find(|x| **x > l) {
        viol(rep, "sent-section-larger-than-advertised-limit[send_request after late SETTINGS on a used handle]", format!("a section of {} bytes went out although the peer's SETTINGS (limit {}) had been applied before the call", big_sent, l), &case);
        return;
    }
    match (ok, got) {
        (true, Some(Out::Opened(_))) => {}
        (false, Some(Out::Err(AErr::HeaderTooBig { actual, max }))) => {
            if max != l || actual != s {
                viol(rep, "HeaderTooBig-reports-other-numbers[send_request]", format!("HeaderTooBig {{ actual {}, max {} }} for a section of {} bytes against the advertised limit {}", actual, max, s, l), &case);
            }
        }
        (true, other) => viol(rep, "section-within-peer-limit-not-sent[send_request]", format!("section of {} bytes, advertised limit {}: send_request gave {:?}", s, l, other.as_ref().map(short)), &case),
        (false, other) => viol(rep, "oversized-section-not-refused[send_request]", format!("section of {} bytes, advertised limit {}: send_request gave {:?}", s, l, other.as_ref().map(short)), &case),
    }
}

fn run_case(gen: &str, index: u64, seed: u64, _tier: Tier, rep: &mut Report) {
    if gen == "handles_across_settings" {
        handle_across_settings(seed, rep);
        return;
    }
    let mut rng = Rng::new(seed);
    match gen {
        "grid" => {
            let k = (index as usize) % KINDS;
            let d = ((index as usize) / KINDS) % 5;
            let li = (index as usize) / (KINDS * 5);
            let l = LIMITS[li];
            let (recv, h3_server, kind) = kind_from(k);
            let s = (l as i128 + d as i128 - 2).max(0) as u64;
            if s > 75_000 {
                // unreachable sizes: sample below the limit instead
                for _ in 0..3 {
                    let s = match kind {
                        Kind::Head => 167 + rng.below(3000),
                        Kind::Trailers => rng.below(3000),
                    };
                    let scn = if recv {
                        Scn { recv, h3_server, kind, limit: l, s, nfields: 1 + rng.usize(8), wide: rng.chance(1, 3), mode: SettingsMode::Applied, peer_limit: (1 << 62) - 1 }
                    } else {
                        Scn { recv, h3_server, kind, limit: (1 << 62) - 1, s, nfields: 1 + rng.usize(8), wide: rng.chance(1, 3), mode: SettingsMode::Applied, peer_limit: l }
                    };
                    run_scn(&scn, rng.next(), rep);
                }
                return;
            }
            for nf in [1usize, 3, 8] {
                if recv {
                    // the raw peer's own advertised limit matters for the 431: sweep it around 42
                    for peer in [41u64, 42, 1 << 20] {
                        let scn = Scn { recv, h3_server, kind, limit: l, s, nfields: nf, wide: rng.chance(1, 3), mode: SettingsMode::Applied, peer_limit: peer };
                        run_scn(&scn, rng.next(), rep);
                        if !(h3_server && kind == Kind::Head) {
                            break; // the peer limit only matters for the 431 path
                        }
                    }
                    let scn = Scn { recv, h3_server, kind, limit: l, s, nfields: nf, wide: rng.chance(1, 3), mode: SettingsMode::Never, peer_limit: 0 };
                    run_scn(&scn, rng.next(), rep);
                } else {
                    let scn = Scn { recv, h3_server, kind, limit: (1 << 62) - 1, s, nfields: nf, wide: rng.chance(1, 3), mode: SettingsMode::Applied, peer_limit: l };
                    run_scn(&scn, rng.next(), rep);
                    let scn = Scn { recv, h3_server, kind, limit: (1 << 62) - 1, s, nfields: nf, wide: rng.chance(1, 3), mode: SettingsMode::Never, peer_limit: l };
                    run_scn(&scn, rng.next(), rep);
                    let scn = Scn { recv, h3_server, kind, limit: (1 << 62) - 1, s, nfields: nf, wide: rng.chance(1, 3), mode: SettingsMode::Late, peer_limit: l };
                    run_scn(&scn, rng.next(), rep);
                    let scn = Scn { recv, h3_server, kind, limit: (1 << 62) - 1, s, nfields: nf, wide: rng.chance(1, 3), mode: SettingsMode::AppliedWithoutLimit, peer_limit: l };
                    run_scn(&scn, rng.next(), rep);
                }
            }
        }
        "random_sizes" => {
            let (recv, h3_server, kind) = kind_from(rng.usize(KINDS));
            let l = match rng.below(4) {
                0 => *rng.pick(&LIMITS),
                1 => rng.below(400),
                _ => rng.below(20_000),
            };
            let s = match rng.below(3) {
                0 => (l as i128 + rng.below(7) as i128 - 3).max(0) as u64,
                _ => rng.below(l.min(30_000) * 2 + 400),
            };
            let mode = match rng.below(10) {
                0 => SettingsMode::Never,
                1 => SettingsMode::AppliedWithoutLimit,
                2 | 3 if !recv => SettingsMode::Late,
                _ => SettingsMode::Applied,
            };
            let scn = if recv {
                Scn { recv, h3_server, kind, limit: l, s, nfields: 1 + rng.usize(8), wide: rng.chance(1, 3), mode, peer_limit: *rng.pick(&[0u64, 41, 42, 43, 1000, (1 << 62) - 1]) }
            } else {
                Scn { recv, h3_server, kind, limit: *rng.pick(&[0u64, 100, (1 << 62) - 1]), s, nfields: 1 + rng.usize(8), wide: rng.chance(1, 3), mode, peer_limit: l }
            };
            run_scn(&scn, rng.next(), rep);
        }
        _ => {}
    }
}
