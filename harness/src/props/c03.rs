//! C03 — request streams accept exactly the RFC 9114 §4.1 frame sequences.
//! A raw scripted peer sends a frame sequence on one request stream; the real h3 server (or
//! client) runs the documented call pattern; the transcript of API outcomes is compared with the
//! reference §4.1 automaton, and the transport close code with the expected connection error.

use crate::refimpl::frames as rf;
use crate::refimpl::varint as rv;
use crate::report::Report;
use crate::sim::apps::{self, ClientOpts, Err as AErr, Ev, Msg, Out, Probe, ReqPlan, RespPlan, ServerOpts};
use crate::sim::rawpeer as raw;
use crate::sim::sched::{RunEnd, Sched};
use crate::sim::{self, lock, NetCfg, CLIENT, SERVER};
use crate::util::{hash64, hex_short, Rng};
use crate::{Gen, PropDef, Tier};
use bytes::Bytes;
use serde_json::json;

pub fn def() -> PropDef {
    PropDef {
        id: "C03",
        rule: "a case = (frame sequence over {HEADERS, DATA(0), DATA(n), unknown(0), unknown(n), \
               CANCEL_PUSH, SETTINGS, GOAWAY, MAX_PUSH_ID, PUSH_PROMISE, H2-reserved}, ending \
               FIN|RESET|open, receive side server|client, transport schedule). All sequences up to \
               length 4 (quick) / 5 (thorough) are enumerated completely (5 schedules each when not \
               refused at once) and \
               longer ones sampled; a raw peer writes them on a request stream of a connection to \
               the real h3 endpoint, whose application follows the documented call pattern over the \
               simulated transport (PRNG chunking and task order). The observed transcript (head \
               delivered, body bytes, end-of-body, trailers, stream error, connection error, \
               pending) must equal the reference §4.1 automaton's and the QUIC close code must be \
               the expected connection error (or none). Non-trivial distinct = distinct (sequence, \
               ending, side, interleaving signature).",
        assumptions: || {
            vec![
                "reference §4.1 automaton in this module + refimpl/frames.rs".into(),
                "don't-care: PUSH_PROMISE and FIN-before-HEADERS on the client receive side; with RESET the reset may overtake data, so any prefix of the transcript followed by RemoteTerminate is accepted".into(),
                "frame type 0x41 (WebTransport) is not part of the unknown alphabet".into(),
            ]
        },
        gens,
        run_case,
        finish,
    }
}

#[derive(Debug, Clone, Copy, PartialEq, Eq, Hash)]
pub enum Tok {
    Headers,
    Data0,
    DataN,
    Unknown0,
    UnknownN,
    CancelPush,
    Settings,
    Goaway,
    MaxPushId,
    PushPromise,
    H2Reserved,
    /// a HEADERS frame whose field section cannot be decoded (not part of the enumerated
    /// alphabet; used by the sampled generators): QPACK_DECOMPRESSION_FAILED, a connection error
    HeadersBadQpack,
    /// the first bytes of a frame that never gets its rest (sampled generators only, always the
    /// last token): cut off by FIN it is H3_FRAME_ERROR, on an open stream it is waited on
    TruncatedFrame,
    /// a DATA frame announcing ten octets of which four arrive (sampled generators only, always
    /// the last token): on a stream that stays open the four octets are handed out
    TruncatedData,
}
pub const ALPHABET: [Tok; 11] = [
    Tok::Headers,
    Tok::Data0,
    Tok::DataN,
    Tok::Unknown0,
    Tok::UnknownN,
    Tok::CancelPush,
    Tok::Settings,
    Tok::Goaway,
    Tok::MaxPushId,
    Tok::PushPromise,
    Tok::H2Reserved,
];

#[derive(Debug, Clone, Copy, PartialEq, Eq, Hash)]
pub enum Ending {
    Fin,
    Reset(u64),
    Open,
}

#[derive(Debug, Clone, PartialEq, Eq)]
pub enum Step {
    Head,
    Data(Vec<u8>),
    EndOfBody,
    Trailers(bool),
    StreamErr(u64),
    ConnErr(u64),
    Reset(u64),
    Pending,
    Other(String),
}

fn n_sequences(max_len: u32) -> u64 {
    (1..=max_len).map(|l| 11u64.pow(l)).sum::<u64>() + 1 // + the empty sequence
}

fn seq_from_index(mut i: u64) -> Vec<Tok> {
    // index 0 = empty, then all sequences of length 1, 2, ...
    if i == 0 {
        return vec![];
    }
    i -= 1;
    let mut len = 1u32;
    loop {
        let n = 11u64.pow(len);
        if i < n {
            break;
        }
        i -= n;
        len += 1;
    }
    let mut v = Vec::new();
    for _ in 0..len {
        v.push(ALPHABET[(i % 11) as usize]);
        i /= 11;
    }
    v
}

fn gens(tier: Tier) -> Vec<Gen> {
    let full = match tier {
        Tier::Lite => 1,
        Tier::Quick => 4,
        Tier::Thorough => 5,
    };
    vec![
        // each case: one sequence x 3 endings x 2 sides
        Gen::exhaustive("all_sequences", n_sequences(full)),
        Gen::new("random_sequences_len_le_7", tier.pick(2, 20_000, 600_000)),
    ]
}

fn finish(tier: Tier, rep: &mut Report) {
    if tier == Tier::Lite {
        return;
    }
    for (k, floor) in [
        ("connections", 50_000u64),
        ("expected[legal-complete]", 100),
        ("expected[conn-error]", 1_000),
        ("expected[incomplete]", 10),
        ("expected[pending]", 100),
        ("side[server]", 1_000),
        ("side[client]", 1_000),
        ("ending[reset]", 1_000),
    ] {
        if rep.get(k) < floor {
            rep.inconclusive(format!("{} = {} below floor {}", k, rep.get(k), floor));
        }
    }
}

/// bytes of one token; `k` makes DATA payloads distinct per position
fn tok_bytes(t: Tok, k: usize, first_headers: bool, side_is_server: bool) -> Vec<u8> {
    match t {
        Tok::Headers => {
            if first_headers {
                if side_is_server {
                    raw::headers_frame(&raw::simple_request_headers())
                } else {
                    raw::headers_frame(&raw::simple_response_headers(200))
                }
            } else {
                raw::headers_frame(&raw::trailer_section(&[("x-trailer", "t")]))
            }
        }
        Tok::Data0 => raw::data_frame(&[]),
        Tok::DataN => {
            let n = 1 + (k * 7) % 23;
            let p: Vec<u8> = (0..n).map(|i| (k * 31 + i) as u8).collect();
            raw::data_frame(&p)
        }
        Tok::Unknown0 => rf::frame(0x21 + 0x1f * 3, &[]),
        Tok::UnknownN => rf::frame(rf::unknown_type(1), b"unknown frame payload \x00\x01\x04\x07"),
        Tok::CancelPush => rf::varint_frame(rf::T_CANCEL_PUSH, 1),
        Tok::Settings => rf::settings_frame(&[(rf::S_MAX_FIELD_SECTION_SIZE, 4096)]),
        Tok::Goaway => rf::varint_frame(rf::T_GOAWAY, 0),
        Tok::MaxPushId => rf::varint_frame(rf::T_MAX_PUSH_ID, 3),
        Tok::PushPromise => {
            let mut p = vec![0x01];
            p.extend(raw::simple_request_headers());
            rf::frame(rf::T_PUSH_PROMISE, &p)
        }
        Tok::H2Reserved => rf::frame(*[0x2u64, 0x6, 0x8, 0x9].get(k % 4).unwrap(), &[0, 0, 0, 0, 1]),
        // dynamic-table reference without a table / static index out of range / string cut short
        // type only / type + part of the length / header + part of the payload, of HEADERS and of
        // frames of unknown type (partial DATA payloads are C02's: how much of them is handed out
        // before the error is not prescribed)
        Tok::TruncatedFrame => match k % 5 {
            0 => vec![0x01],
            1 => vec![0x01, 0x40],
            2 => vec![0x01, 0x05, 0x00, 0x00],
            3 => rv::encode(rf::unknown_type(4)).unwrap(),
            _ => {
                let mut v = rv::encode(rf::unknown_type(4)).unwrap();
                v.extend([0x04, 0x00, 0xff]);
                v
            }
        },
        Tok::TruncatedData => {
            let mut v = vec![0x00, 0x0a];
            v.extend(&partial_payload(k));
            v
        }
        Tok::HeadersBadQpack => raw::headers_frame(*[&[0x00u8, 0x00, 0x80][..], &[0x00, 0x00, 0xff, 0x24], &[0x00, 0x00, 0x23, 0x61, 0x62]].get(k % 3).unwrap()),
    }
}

fn partial_payload(k: usize) -> Vec<u8> {
    (0..4).map(|i| (k * 13 + i + 1) as u8).collect()
}

fn data_payload(k: usize) -> Vec<u8> {
    let n = 1 + (k * 7) % 23;
    (0..n).map(|i| (k * 31 + i) as u8).collect()
}

#[derive(Debug, Clone, PartialEq, Eq)]
pub struct Expected {
    pub steps: Vec<Step>,
    /// outcome deliberately not judged (latitude of the statement)
    pub dont_care: Option<&'static str>,
}

/// Reference §4.1 automaton.
pub fn expected(seq: &[Tok], ending: Ending, server: bool) -> Expected {
    #[derive(PartialEq)]
    enum St {
        Start,
        Body,
        After,
    }
    let mut st = St::Start;
    let mut steps = Vec::new();
    let mut body: Vec<u8> = Vec::new();
    let flush = |steps: &mut Vec<Step>, body: &mut Vec<u8>| {
        if !body.is_empty() {
            steps.push(Step::Data(std::mem::take(body)));
        }
    };
    for (k, t) in seq.iter().enumerate() {
        if matches!(t, Tok::Unknown0 | Tok::UnknownN) {
            continue;
        }
        if *t == Tok::TruncatedFrame {
            flush(&mut steps, &mut body);
            match ending {
                Ending::Fin => {
                    // after the trailers the message is judged when the application asks for them
                    steps.push(Step::ConnErr(rf::H3_FRAME_ERROR));
                    return Expected { steps, dont_care: None };
                }
                Ending::Open => {
                    if st == St::After {
                        // trailers are only handed out once what follows them is known
                    }
                    steps.push(Step::Pending);
                    return Expected { steps, dont_care: None };
                }
                Ending::Reset(_) => return Expected { steps, dont_care: Some("reset inside a frame") },
            }
        }
        if *t == Tok::TruncatedData {
            // judged where DATA is allowed and the stream stays open: what has arrived of the
            // payload reaches the application, then it waits. How much is handed out before an
            // error (end of stream inside the frame, reset) is not prescribed; a DATA frame in
            // another position is a sequence error whose timing is not this token's subject
            if st == St::Body && ending == Ending::Open {
                body.extend(partial_payload(k));
                flush(&mut steps, &mut body);
                steps.push(Step::Pending);
                return Expected { steps, dont_care: None };
            }
            // (the body collected so far is not flushed: the observed Data step may have grown)
            return Expected { steps, dont_care: Some("partial DATA payload before an error or out of place") };
        }
        if *t == Tok::PushPromise && !server {
            flush(&mut steps, &mut body);
            return Expected {
                steps,
                dont_care: Some("PUSH_PROMISE on the client receive side"),
            };
        }
        match st {
            St::Start => {
                if *t == Tok::Headers {
                    steps.push(Step::Head);
                    st = St::Body;
                } else if *t == Tok::HeadersBadQpack {
                    steps.push(Step::ConnErr(rf::QPACK_DECOMPRESSION_FAILED));
                    return Expected { steps, dont_care: None };
                } else {
                    steps.push(Step::ConnErr(rf::H3_FRAME_UNEXPECTED));
                    return Expected { steps, dont_care: None };
                }
            }
            St::Body => match t {
                Tok::Data0 => {}
                Tok::DataN => body.extend(data_payload(k)),
                Tok::Headers => {
                    flush(&mut steps, &mut body);
                    steps.push(Step::EndOfBody);
                    st = St::After;
                }
                Tok::HeadersBadQpack => {
                    // trailers that cannot be decoded: a connection error once the application
                    // asks for them. Judged when nothing but unknown frames and the end of the
                    // stream follow; otherwise the sequence error may come first
                    flush(&mut steps, &mut body);
                    steps.push(Step::EndOfBody);
                    let rest_is_quiet = seq[k + 1..].iter().all(|t| matches!(t, Tok::Unknown0 | Tok::UnknownN));
                    if rest_is_quiet && ending == Ending::Fin {
                        steps.push(Step::ConnErr(rf::QPACK_DECOMPRESSION_FAILED));
                        return Expected { steps, dont_care: None };
                    }
                    return Expected { steps, dont_care: Some("what follows undecodable trailers") };
                }
                _ => {
                    flush(&mut steps, &mut body);
                    steps.push(Step::ConnErr(rf::H3_FRAME_UNEXPECTED));
                    return Expected { steps, dont_care: None };
                }
            },
            St::After => {
                steps.push(Step::ConnErr(rf::H3_FRAME_UNEXPECTED));
                return Expected { steps, dont_care: None };
            }
        }
    }
    flush(&mut steps, &mut body);
    match ending {
        Ending::Fin => match st {
            St::Start => {
                if server {
                    steps.push(Step::StreamErr(rf::H3_REQUEST_INCOMPLETE));
                } else {
                    return Expected {
                        steps,
                        dont_care: Some("response stream finished before HEADERS (client side)"),
                    };
                }
            }
            St::Body => {
                steps.push(Step::EndOfBody);
                steps.push(Step::Trailers(false));
            }
            St::After => steps.push(Step::Trailers(true)),
        },
        Ending::Open | Ending::Reset(_) => steps.push(Step::Pending),
    }
    Expected { steps, dont_care: None }
}

fn observed(evs: &[Ev], open: Option<&'static str>) -> Vec<Step> {
    let mut v: Vec<Step> = Vec::new();
    for e in evs {
        let relevant = matches!(e.op, "resolve_request" | "recv_response" | "recv_data" | "recv_trailers");
        if !relevant {
            continue;
        }
        let s = match &e.out {
            Out::Request { .. } | Out::Response { .. } => Step::Head,
            Out::Data(d) => {
                if let Some(Step::Data(prev)) = v.last_mut() {
                    prev.extend_from_slice(d);
                    continue;
                }
                Step::Data(d.clone())
            }
            Out::None if e.op == "recv_data" => Step::EndOfBody,
            Out::None => Step::Trailers(false),
            Out::Trailers(_) => Step::Trailers(true),
            Out::Err(AErr::Stream { code, .. }) => Step::StreamErr(*code),
            Out::Err(AErr::RemoteTerminate { code }) => Step::Reset(*code),
            Out::Err(AErr::Conn(c)) => Step::ConnErr(c.code().unwrap_or(u64::MAX)),
            other => Step::Other(format!("{:?}", other)),
        };
        v.push(s);
    }
    if let Some(op) = open {
        if matches!(op, "resolve_request" | "recv_response" | "recv_data" | "recv_trailers") {
            v.push(Step::Pending);
        }
    }
    v
}

fn steps_short(s: &[Step]) -> String {
    s.iter()
        .map(|x| match x {
            Step::Data(d) => format!("Data({} B)", d.len()),
            Step::ConnErr(c) => format!("ConnErr({:#x})", c),
            Step::StreamErr(c) => format!("StreamErr({:#x})", c),
            Step::Reset(c) => format!("Reset({:#x})", c),
            other => format!("{:?}", other),
        })
        .collect::<Vec<_>>()
        .join(" ")
}

pub struct Outcome {
    pub steps: Vec<Step>,
    pub close_by_h3: Option<u64>,
    pub end: RunEnd,
    pub sched_sig: u64,
    pub panic: Option<String>,
    pub wire: Vec<u8>,
    pub stream_reset_by_h3: Option<u64>,
}

/// Run one scenario: `h3_side` is the endpoint under test; the other side is the raw peer that
/// writes `wire` on the request stream and ends it with `ending`.
pub fn run_scenario(wire: &[u8], ending: Ending, h3_side: usize, seed: u64) -> Outcome {
    let mut rng = Rng::new(seed);
    let mut cfg = NetCfg::random(&mut rng);
    cfg.backpressure = false;
    let net = sim::new_net(cfg);
    let probe = Probe::new(&net);
    let raw_side = raw::other(h3_side);
    let mut sched = Sched::new(net.clone(), rng.next());
    {
        let mut n = lock(&net);
        raw::mark_raw(&mut n, raw_side);
        raw::open_control(&mut n, raw_side, &[]);
    }
    let sp = sched.spawner.clone();
    // how the application uses the stream: whole, split right after the head, or split late
    // (after a few body pieces, or after the end of the body and before the trailers are asked for)
    let (app_split, app_late) = match rng.below(6) {
        0 | 1 | 2 => (false, None),
        3 => (true, None),
        4 => (true, Some(rng.usize(3))),
        _ => (true, Some(apps::SPLIT_AFTER_BODY)),
    };
    let actor;
    if h3_side == SERVER {
        let id = {
            let mut n = lock(&net);
            n.raw_open(CLIENT, true)
        };
        actor = format!("s:req@{}", id);
        let mut steps = vec![raw::step_write(CLIENT, id, wire.to_vec())];
        if wire.is_empty() {
            steps.clear();
        }
        match ending {
            Ending::Fin => steps.push(raw::step_fin(CLIENT, id)),
            Ending::Reset(c) => steps.push(raw::step_reset(CLIENT, id, c)),
            Ending::Open => {
                if wire.is_empty() {
                    // a stream on which nothing was ever sent is invisible to the peer: nothing to observe
                }
            }
        }
        sched.add_script(steps);
        let sopts = ServerOpts {
            default_plan: RespPlan {
                resp: Msg {
                    status: 200,
                    body: vec![b"ok".to_vec()],
                    ..Default::default()
                },
                split: app_split,
                late_split: app_late,
                ..Default::default()
            },
            ..Default::default()
        };
        sched.spawn("s:conn", apps::server_main::<Bytes>(net.clone(), sopts, probe.clone(), sp));
    } else {
        actor = "c:req#0".to_string();
        let id = 0u64; // first client-initiated bidirectional stream
        let mut steps = vec![raw::step_write(SERVER, id, wire.to_vec())];
        if wire.is_empty() {
            steps.clear();
        }
        match ending {
            Ending::Fin => steps.push(raw::step_fin(SERVER, id)),
            Ending::Reset(c) => steps.push(raw::step_reset(SERVER, id, c)),
            Ending::Open => {}
        }
        sched.add_script(steps);
        let copts = ClientOpts {
            reqs: vec![ReqPlan {
                req: Msg {
                    method: "GET".into(),
                    uri: "https://example.com/".into(),
                    ..Default::default()
                },
                split: app_split,
                late_split: app_late,
                ..Default::default()
            }],
            ..Default::default()
        };
        sched.spawn("c:conn", apps::client_main::<Bytes>(net.clone(), copts, probe.clone(), sp));
    }
    let end = sched.run(400_000);
    // the receiving calls are made by the request's task or, once split, by its ":recv" task
    let ractor = format!("{}:recv", actor);
    let evs: Vec<Ev> = probe.events().into_iter().filter(|e| e.actor == actor || e.actor == ractor).collect();
    let open = probe.open().get(&ractor).or(probe.open().get(&actor)).map(|(op, _)| *op);
    let n = lock(&net);
    let close_by_h3 = n.closed.as_ref().filter(|c| c.by == h3_side).map(|c| c.code);
    let req_id = if h3_side == SERVER { 0 } else { 0 };
    let stream_reset_by_h3 = n.streams.get(&req_id).and_then(|s| s.pipes[h3_side].as_ref()).and_then(|p| p.reset_sent);
    Outcome {
        steps: observed(&evs, open),
        close_by_h3,
        end,
        sched_sig: sched.sig,
        panic: sched.first_panic().map(|(t, p)| format!("task {}: {} at {}", t, p.msg, p.loc)),
        wire: wire.to_vec(),
        stream_reset_by_h3,
    }
}

fn viol(rep: &mut Report, rule: &str, detail: String, case: serde_json::Value) {
    rep.violation(format!("C03/{}", rule), detail, case);
}

/// Is `obs` acceptable for a RESET ending given the transcript expected for an open stream?
fn reset_ok(obs: &[Step], exp_open: &[Step], code: u64) -> bool {
    // exp_open ends with Pending (or with an error if the sequence is illegal)
    let core: Vec<Step> = exp_open.iter().filter(|s| **s != Step::Pending).cloned().collect();
    if matches!(core.last(), Some(Step::ConnErr(_))) && obs == &core[..] {
        return true;
    }
    // prefix of core, then Reset(code)
    let Some((last, head)) = obs.split_last() else { return false };
    if *last != Step::Reset(code) {
        return false;
    }
    if head.len() > core.len() {
        return false;
    }
    for (i, s) in head.iter().enumerate() {
        if *s == core[i] {
            continue;
        }
        // the last delivered Data may be a byte-prefix of the expected one
        if i + 1 == head.len() {
            if let (Step::Data(a), Step::Data(b)) = (s, &core[i]) {
                if b.starts_with(a) {
                    continue;
                }
            }
        }
        return false;
    }
    // an expected connection error must not be silently skipped: if the reset was seen, fine
    true
}

pub fn check_sequence(seq: &[Tok], ending: Ending, h3_side: usize, seed: u64, rep: &mut Report) {
    let server = h3_side == SERVER;
    let mut wire = Vec::new();
    let mut seen_headers = false;
    for (k, t) in seq.iter().enumerate() {
        wire.extend(tok_bytes(*t, k, !seen_headers, server));
        if *t == Tok::Headers {
            seen_headers = true;
        }
    }
    if wire.is_empty() && ending == Ending::Open {
        return; // invisible stream, nothing to observe
    }
    rep.evaluations += 1;
    rep.count("connections");
    rep.count(if server { "side[server]" } else { "side[client]" });
    rep.count(match ending {
        Ending::Fin => "ending[fin]",
        Ending::Reset(_) => "ending[reset]",
        Ending::Open => "ending[open]",
    });
    let o = run_scenario(&wire, ending, h3_side, seed);
    let case = json!({"sequence": seq.iter().map(|t| format!("{:?}", t)).collect::<Vec<_>>(), "ending": format!("{:?}", ending),
                      "receive_side": if server { "server" } else { "client" }, "wire": hex_short(&wire, 48)});
    rep.sig(hash64(&(seq, ending, h3_side, o.sched_sig)));
    rep.sig_in("interleaving_signatures", o.sched_sig);
    if let Some(p) = &o.panic {
        viol(rep, "panic", format!("{:?} {:?}: {}", seq, ending, p), case);
        return;
    }
    if o.end == RunEnd::StepCap {
        rep.inconclusive("step cap reached");
        return;
    }
    let exp = match ending {
        Ending::Reset(_) => expected(seq, Ending::Open, server),
        e => expected(seq, e, server),
    };
    let kind = if exp.dont_care.is_some() {
        "dont-care"
    } else if exp.steps.iter().any(|s| matches!(s, Step::ConnErr(_))) {
        "conn-error"
    } else if exp.steps.iter().any(|s| matches!(s, Step::StreamErr(_))) {
        "incomplete"
    } else if exp.steps.last() == Some(&Step::Pending) {
        "pending"
    } else {
        "legal-complete"
    };
    rep.count(&format!("expected[{}]", kind));
    if let Some(why) = exp.dont_care {
        // only the part before the don't-care point is judged: it must be a prefix
        let n = exp.steps.len();
        if o.steps.len() < n || o.steps[..n] != exp.steps[..] {
            // body bytes may still be pending etc.; judge loosely: no judgement beyond prefix when equal
            if !(o.steps.len() >= n && o.steps[..n] == exp.steps[..]) && !prefix_compatible(&o.steps, &exp.steps) {
                viol(rep, "transcript-before-dont-care-point", format!("{:?} {:?} ({}): observed {} expected prefix {}", seq, ending, why, steps_short(&o.steps), steps_short(&exp.steps)), case);
            }
        }
        return;
    }
    let ok = match ending {
        Ending::Reset(c) => reset_ok(&o.steps, &exp.steps, c),
        _ => o.steps == exp.steps,
    };
    if !ok {
        let rule = classify(&o.steps, &exp.steps);
        viol(
            rep,
            &rule,
            format!("{} receive side, sequence {:?} ending {:?}: observed [{}] expected [{}]", if server { "server" } else { "client" }, seq, ending, steps_short(&o.steps), steps_short(&exp.steps)),
            case,
        );
        return;
    }
    // the QUIC close code must be the connection error (or no error close at all)
    let exp_close = o.steps.iter().find_map(|s| if let Step::ConnErr(c) = s { Some(*c) } else { None });
    match (exp_close, o.close_by_h3) {
        (Some(c), Some(got)) if c == got => {}
        (None, None) => {}
        (None, Some(c)) if c == rf::H3_NO_ERROR => {}
        (want, got) => viol(
            rep,
            "close-code",
            format!("sequence {:?} ending {:?}: API reported connection error {:?} but the transport was closed with {:?}", seq, ending, want.map(|c| format!("{:#x}", c)), got.map(|c| format!("{:#x}", c))),
            case.clone(),
        ),
    }
    if server && exp.steps == [Step::StreamErr(rf::H3_REQUEST_INCOMPLETE)] {
        rep.count(&format!("incomplete_request_stream_reset[{:?}]", o.stream_reset_by_h3.map(|c| format!("{:#x}", c))));
        // "refused by the server as incomplete": the refusal is what the client sees - the response
        // side aborted with H3_REQUEST_INCOMPLETE (RFC 9114 4.1), not a clean, empty response
        if o.steps == exp.steps && o.stream_reset_by_h3 != Some(rf::H3_REQUEST_INCOMPLETE) {
            viol(
                rep,
                "incomplete-request-not-refused-on-the-wire",
                format!("sequence {:?} ending {:?}: the application was told H3_REQUEST_INCOMPLETE but the response side was {} instead of reset with 0x10d", seq, ending, match o.stream_reset_by_h3 { Some(c) => format!("reset with {:#x}", c), None => "not reset (the client sees a clean end without a response)".to_string() }),
                case,
            );
        }
    }
    if rep.want_sample() && seq.len() == 3 {
        rep.sample(json!({"case": {"sequence": seq.iter().map(|t| format!("{:?}", t)).collect::<Vec<_>>(), "ending": format!("{:?}", ending), "side": if server {"server"} else {"client"}},
                          "transcript": steps_short(&o.steps), "close_code": o.close_by_h3.map(|c| format!("{:#x}", c))}));
    }
}

fn prefix_compatible(obs: &[Step], exp_prefix: &[Step]) -> bool {
    // observed shorter than the judged prefix is fine if it ends Pending/Reset at a matching point
    for (i, s) in obs.iter().enumerate() {
        if i >= exp_prefix.len() {
            return true;
        }
        if *s != exp_prefix[i] {
            if let (Step::Data(a), Step::Data(b)) = (s, &exp_prefix[i]) {
                if b.starts_with(a) {
                    continue;
                }
            }
            return matches!(s, Step::Pending | Step::Reset(_));
        }
    }
    true
}

fn classify(obs: &[Step], exp: &[Step]) -> String {
    let i = obs.iter().zip(exp.iter()).position(|(a, b)| a != b).unwrap_or(obs.len().min(exp.len()));
    let name = |s: Option<&Step>| -> String {
        match s {
            None => "nothing".into(),
            Some(Step::Data(_)) => "Data".into(),
            Some(Step::ConnErr(c)) => format!("ConnErr({:#x})", c),
            Some(Step::StreamErr(c)) => format!("StreamErr({:#x})", c),
            Some(Step::Reset(_)) => "Reset".into(),
            Some(Step::Other(_)) => "Other".into(),
            Some(other) => format!("{:?}", other),
        }
    };
    if let (Some(Step::Data(a)), Some(Step::Data(b))) = (obs.get(i), exp.get(i)) {
        return if b.starts_with(a) {
            "body-truncated".into()
        } else {
            "body-differs".into()
        };
    }
    format!("transcript[{}-instead-of-{}]", name(obs.get(i)), name(exp.get(i)))
}

fn run_case(gen: &str, index: u64, seed: u64, _tier: Tier, rep: &mut Report) {
    let mut rng = Rng::new(seed);
    // which unassigned frame types stand for "unknown" in this case
    rf::set_unknown_salt(seed);
    match gen {
        "all_sequences" => {
            let seq = seq_from_index(index);
            for ending in [Ending::Fin, Ending::Reset(0x10c), Ending::Open] {
                for side in [SERVER, CLIENT] {
                    check_sequence(&seq, ending, side, rng.next(), rep);
                    // sequences that are not refused at once are worth more schedules
                    let e = expected(&seq, if let Ending::Reset(_) = ending { Ending::Open } else { ending }, side == SERVER);
                    if !e.steps.iter().any(|s| matches!(s, Step::ConnErr(_))) {
                        for _ in 0..4 {
                            check_sequence(&seq, ending, side, rng.next(), rep);
                        }
                    }
                }
            }
        }
        "random_sequences_len_le_7" => {
            let len = 4 + rng.usize(4);
            // bias towards legal shapes so that long legal sequences occur
            let seq: Vec<Tok> = (0..len)
                .map(|i| {
                    if rng.chance(2, 3) {
                        if i == 0 {
                            *rng.pick(&[Tok::Headers, Tok::Unknown0, Tok::UnknownN])
                        } else if rng.chance(1, 12) {
                            Tok::HeadersBadQpack
                        } else {
                            *rng.pick(&[Tok::DataN, Tok::Data0, Tok::DataN, Tok::Unknown0, Tok::UnknownN, Tok::Headers])
                        }
                    } else {
                        *rng.pick(&ALPHABET)
                    }
                })
                .collect();
            let ending = match rng.below(3) {
                0 => Ending::Fin,
                1 => Ending::Reset(*rng.pick(&[0u64, 0x100, 0x10c, (1 << 62) - 1])),
                _ => Ending::Open,
            };
            let side = if rng.bool() { SERVER } else { CLIENT };
            let mut seq = seq;
            if rng.chance(1, 5) {
                // ends inside a frame: cut the sequence anywhere and append the beginning of a frame
                let keep = rng.usize(seq.len() + 1);
                seq.truncate(keep);
                if rng.chance(1, 3) {
                    seq.push(Tok::TruncatedData);
                    rep.count("sequences_ending_inside_a_DATA_payload");
                } else {
                    seq.push(Tok::TruncatedFrame);
                    rep.count("sequences_ending_inside_a_frame");
                }
            }
            check_sequence(&seq, ending, side, rng.next(), rep);
        }
        _ => {}
    }
}
