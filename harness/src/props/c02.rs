//! C02 — frame boundaries follow RFC 9114 §7.1 exactly, independent of chunking.
//! Drives `h3::frame::FrameStream` the documented way over a scripted RecvStream and compares
//! the event sequence with the reference segmenter, for every chunking of short strings.

use crate::refimpl::frames::{self as rf, Malformed, Parsed, Tail, TypeClass};
use crate::refimpl::varint as rv;
use crate::report::Report;
use crate::util::{cut_by_mask, cut_random, hash64, hex, hex_short, Rng};
use crate::{Gen, PropDef, Tier};
use bytes::{Buf, Bytes};
use h3::frame::{FrameStream, FrameStreamError};
use h3::proto::frame::{Frame, PayloadLen, SettingId};
use h3::proto::varint::VarInt;
use h3::quic::{RecvStream, StreamErrorIncoming, StreamId};
use h3::stream::BufRecvStream;
use serde_json::json;
use std::collections::VecDeque;
use std::convert::TryFrom;
use std::task::{Context, Poll};

pub fn def() -> PropDef {
    PropDef {
        id: "C02",
        rule: "a case = (byte string S, ending FIN|open, chunking). S is built from 1..3 frames over \
               {DATA, HEADERS, CANCEL_PUSH, SETTINGS, PUSH_PROMISE, GOAWAY, MAX_PUSH_ID, 0x2/0x6/0x8/0x9, \
               grease, small unknown, 8-byte-varint unknown} x varint forms for type and length x \
               payloads of 0..4 bytes x declared length (exact / one short / one long) x every \
               truncation point; singles with all forms and pairs/triples with minimal forms are \
               enumerated completely, every string of <= 12 bytes (quick: <= 9) is cut in all \
               2^(n-1) ways, longer ones in 24..64 PRNG chunkings (incl. all-1-byte and whole), plus \
               random long streams <= 4 KiB. h3::frame::FrameStream is driven with poll_next / \
               poll_data-until-None, with and without Pending between chunks, and its event \
               sequence (frames with content, DATA bytes, terminal status + error code) must equal \
               the reference segmenter's for every chunking. Non-trivial distinct = distinct \
               (S, ending, chunking) triples, counted by construction for enumerations.",
        assumptions: || {
            vec![
                "reference segmenter/parser in refimpl/frames.rs is correct".into(),
                "error codes are read from h3's own mapping (InternalConnectionError::got_frame_error; UnexpectedEnd => H3_FRAME_ERROR as in connection.rs / connection_error_creators.rs)".into(),
                "don't-care: a frame with two applicable errors may report either; an HTTP/2-reserved or inconsistent fixed-field frame may be reported as soon as its header is complete or only once its payload is; SETTINGS semantic errors only need to be some connection error (C13)".into(),
                "type 0x41 (WebTransport, length-less by design) is not in the unknown alphabet".into(),
            ]
        },
        gens,
        run_case,
        finish,
    }
}

fn gens(tier: Tier) -> Vec<Gen> {
    let singles = single_shapes().len() as u64;
    let min_shapes = min_form_shapes().len() as u64;
    vec![
        Gen::exhaustive("single_frames_all_forms", singles),
        Gen::exhaustive("pairs_min_forms", min_shapes * min_shapes / 16 + 1), // 16 pairs per case
        Gen::new("triples_min_forms_sample", tier.pick(2, 2_000, 200_000)),
        Gen::new("random_long_streams", tier.pick(2, 300, 30_000)),
        Gen::new("regression_seeds", 1),
        Gen::exhaustive("every_type_below_0x60", 0x60),
    ]
}

fn finish(tier: Tier, rep: &mut Report) {
    if tier == Tier::Lite {
        return;
    }
    for (k, floor) in [
        ("runs", 100_000u64),
        ("expected[error:0x106]", 1_000),
        ("expected[error:0x105]", 1_000),
        ("expected[clean_end]", 1_000),
        ("expected[pending]", 1_000),
        ("all_chunkings_strings", 500),
        ("data_frames_delivered", 1_000),
        ("unknown_frames_skipped", 1_000),
    ] {
        if rep.get(k) < floor {
            rep.inconclusive(format!("{} = {} below floor {}", k, rep.get(k), floor));
        }
    }
}

// ---------------------------------------------------------------------------------------------
// scripted receive stream

#[derive(Clone, Copy, Debug, PartialEq, Eq, Hash)]
pub enum Ending {
    Fin,
    Open,
}

pub struct ScriptRecv {
    chunks: VecDeque<Bytes>,
    ending: Ending,
    /// return Pending once before each chunk and before the FIN
    pend_between: bool,
    pended: bool,
    pub polls: u64,
    /// set once the script has nothing more to give and the stream stays open
    exhausted: std::rc::Rc<std::cell::Cell<bool>>,
}

impl RecvStream for ScriptRecv {
    type Buf = Bytes;
    fn poll_data(&mut self, _cx: &mut Context<'_>) -> Poll<Result<Option<Bytes>, StreamErrorIncoming>> {
        self.polls += 1;
        if self.pend_between && !self.pended {
            self.pended = true;
            return Poll::Pending;
        }
        self.pended = false;
        if let Some(c) = self.chunks.pop_front() {
            return Poll::Ready(Ok(Some(c)));
        }
        match self.ending {
            Ending::Fin => Poll::Ready(Ok(None)),
            Ending::Open => {
                self.pended = true; // stay pending
                self.exhausted.set(true);
                Poll::Pending
            }
        }
    }
    fn stop_sending(&mut self, _error_code: u64) {}
    fn recv_id(&self) -> StreamId {
        StreamId::try_from(0u64).unwrap()
    }
}

// ---------------------------------------------------------------------------------------------
// observed / expected event sequences

#[derive(Debug, Clone, PartialEq, Eq, Hash)]
pub enum Ev {
    Headers(Vec<u8>),
    /// declared length, then the bytes delivered for it
    Data(u64, Vec<u8>),
    CancelPush(u64),
    Settings(Vec<(u64, u64)>),
    PushPromise(u64),
    Goaway(u64),
    MaxPushId(u64),
    Other(String),
}

#[derive(Debug, Clone, PartialEq, Eq, Hash)]
pub enum Term {
    CleanEnd,
    Pending,
    Error(u64),
    Panic(String),
}

fn code_from_debug(dbg: &str) -> u64 {
    for (name, code) in [
        ("H3_FRAME_ERROR", rf::H3_FRAME_ERROR),
        ("H3_FRAME_UNEXPECTED", rf::H3_FRAME_UNEXPECTED),
        ("H3_SETTINGS_ERROR", rf::H3_SETTINGS_ERROR),
        ("H3_ID_ERROR", rf::H3_ID_ERROR),
        ("H3_INTERNAL_ERROR", rf::H3_INTERNAL_ERROR),
        ("H3_GENERAL_PROTOCOL_ERROR", rf::H3_GENERAL_PROTOCOL_ERROR),
    ] {
        if dbg.contains(name) {
            return code;
        }
    }
    0
}

fn err_code(e: FrameStreamError) -> u64 {
    match e {
        FrameStreamError::Proto(p) => {
            let ice = h3::error::internal_error::InternalConnectionError::got_frame_error(p);
            code_from_debug(&format!("{:?}", ice))
        }
        // connection.rs / connection_error_creators.rs map UnexpectedEnd to H3_FRAME_ERROR
        FrameStreamError::UnexpectedEnd => rf::H3_FRAME_ERROR,
        FrameStreamError::Quic(_) => 1,
    }
}

const KNOWN_SETTING_IDS: [u64; 7] = rf::KNOWN_SETTINGS;

fn frame_to_ev(f: &Frame<PayloadLen>) -> Ev {
    match f {
        Frame::Headers(b) => Ev::Headers(b.to_vec()),
        Frame::Data(PayloadLen(n)) => Ev::Data(*n as u64, Vec::new()),
        Frame::CancelPush(id) => Ev::CancelPush(VarInt::from(*id).into_inner()),
        Frame::MaxPushId(id) => Ev::MaxPushId(VarInt::from(*id).into_inner()),
        Frame::Goaway(v) => Ev::Goaway(v.into_inner()),
        Frame::Settings(s) => {
            let mut v = Vec::new();
            for id in KNOWN_SETTING_IDS {
                if let Some(val) = s.get(SettingId(id)) {
                    v.push((id, val));
                }
            }
            v.sort_unstable();
            Ev::Settings(v)
        }
        Frame::PushPromise(_) => {
            // fields are private; Debug prints "PushPromise(<id>)"
            let d = format!("{:?}", f);
            let id = d.trim_start_matches("PushPromise(").trim_end_matches(')').parse::<u64>().unwrap_or(u64::MAX);
            Ev::PushPromise(id)
        }
        other => Ev::Other(format!("{:?}", other)),
    }
}

/// Drive FrameStream the documented way: poll_next; on Data call poll_data until None.
pub fn drive(chunks: &[Vec<u8>], ending: Ending, pend_between: bool) -> (Vec<Ev>, Term) {
    let exhausted = std::rc::Rc::new(std::cell::Cell::new(false));
    let recv = ScriptRecv {
        chunks: chunks.iter().map(|c| Bytes::copy_from_slice(c)).collect(),
        ending,
        pend_between,
        pended: false,
        polls: 0,
        exhausted: exhausted.clone(),
    };
    let mut fs: FrameStream<ScriptRecv, Bytes> = FrameStream::new(BufRecvStream::new(recv));
    let waker = futures_util::task::noop_waker();
    let mut cx = Context::from_waker(&waker);
    let mut evs = Vec::new();
    let r = crate::panics::catch(|| {
        let mut idle_polls = 0;
        loop {
            match fs.poll_next(&mut cx) {
                Poll::Pending => {
                    idle_polls += 1;
                    if exhausted.get() || idle_polls > 100_000 {
                        return Term::Pending;
                    }
                }
                Poll::Ready(Ok(None)) => return Term::CleanEnd,
                Poll::Ready(Err(e)) => return Term::Error(err_code(e)),
                Poll::Ready(Ok(Some(f))) => {
                    idle_polls = 0;
                    let ev = frame_to_ev(&f);
                    let is_data = matches!(ev, Ev::Data(..));
                    evs.push(ev);
                    if is_data {
                        let mut idle = 0;
                        loop {
                            match fs.poll_data(&mut cx) {
                                Poll::Pending => {
                                    idle += 1;
                                    if exhausted.get() || idle > 100_000 {
                                        return Term::Pending;
                                    }
                                }
                                Poll::Ready(Ok(None)) => break,
                                Poll::Ready(Err(e)) => return Term::Error(err_code(e)),
                                Poll::Ready(Ok(Some(mut d))) => {
                                    idle = 0;
                                    if let Some(Ev::Data(_, bytes)) = evs.last_mut() {
                                        while d.has_remaining() {
                                            let c = d.chunk().to_vec();
                                            bytes.extend_from_slice(&c);
                                            d.advance(c.len());
                                        }
                                    }
                                }
                            }
                        }
                    }
                }
            }
        }
    });
    match r {
        Ok(t) => (evs, t),
        Err(p) => (evs, Term::Panic(format!("{} at {}", p.msg_key(), p.file()))),
    }
}

#[derive(Debug, Clone, PartialEq, Eq)]
pub struct Expect {
    pub evs: Vec<Ev>,
    /// acceptable terminal states (more than one in don't-care zones)
    pub terms: Vec<Term>,
    pub unknown_skipped: u64,
    pub note: &'static str,
    /// index in `evs` of a SETTINGS frame the RFC lets an implementation accept or reject (repeated
    /// unknown identifier): stopping right before it with a settings/frame error is as good as
    /// delivering it and carrying on
    pub dontcare_at: Option<usize>,
}

fn fixed_field_kind(ty: u64) -> bool {
    matches!(ty, rf::T_CANCEL_PUSH | rf::T_GOAWAY | rf::T_MAX_PUSH_ID | rf::T_SETTINGS | rf::T_PUSH_PROMISE)
}

pub fn expect(s: &[u8], ending: Ending) -> Expect {
    let (frames, tail) = rf::segment(s);
    let mut evs = Vec::new();
    let mut skipped = 0;
    let mut dontcare_at: Option<usize> = None;
    for f in &frames {
        match rf::classify(f.ty) {
            TypeClass::Unknown => {
                skipped += 1;
            }
            TypeClass::H2Reserved => {
                return Expect {
                    evs,
                    terms: vec![Term::Error(rf::H3_FRAME_UNEXPECTED)],
                    unknown_skipped: skipped,
                        dontcare_at,
                    note: "h2-reserved",
                };
            }
            TypeClass::Known => match rf::parse(f) {
                Err(Malformed::TooShort) | Err(Malformed::TooLong) => {
                    // a truncated SETTINGS entry is both a §7.1 length error and a malformed
                    // SETTINGS frame: either H3_FRAME_ERROR or H3_SETTINGS_ERROR (C13 only asks for
                    // "a connection error" there)
                    let (terms, note) = if f.ty == rf::T_SETTINGS {
                        (vec![Term::Error(rf::H3_FRAME_ERROR), Term::Error(rf::H3_SETTINGS_ERROR)], "malformed-settings")
                    } else {
                        (vec![Term::Error(rf::H3_FRAME_ERROR)], "malformed-fixed-fields")
                    };
                    return Expect {
                        evs,
                        terms,
                        unknown_skipped: skipped,
                        dontcare_at,
                        note,
                    };
                }
                Ok(Parsed::Data(d)) => evs.push(Ev::Data(d.len() as u64, d)),
                Ok(Parsed::Headers(h)) => evs.push(Ev::Headers(h)),
                Ok(Parsed::CancelPush(v)) => evs.push(Ev::CancelPush(v)),
                Ok(Parsed::MaxPushId(v)) => evs.push(Ev::MaxPushId(v)),
                Ok(Parsed::Goaway(v)) => evs.push(Ev::Goaway(v)),
                Ok(Parsed::PushPromise { id, .. }) => evs.push(Ev::PushPromise(id)),
                Ok(Parsed::Settings(entries)) => match rf::judge_settings(&entries) {
                    rf::SettingsVerdict::Ok(applied) => {
                        let mut a = applied;
                        a.sort_unstable();
                        evs.push(Ev::Settings(a));
                    }
                    rf::SettingsVerdict::SettingsError(_) => {
                        // some connection error (the code is C13's business)
                        return Expect {
                            evs,
                            terms: vec![Term::Error(rf::H3_SETTINGS_ERROR), Term::Error(rf::H3_FRAME_ERROR)],
                            unknown_skipped: skipped,
                        dontcare_at,
                            note: "settings-semantic-error",
                        };
                    }
                    rf::SettingsVerdict::DontCare => {
                        // either accepted (then judged on) or rejected right here
                        let mut a: Vec<(u64, u64)> = entries.iter().filter(|(id, _)| rf::KNOWN_SETTINGS.contains(id)).cloned().collect();
                        a.sort_unstable();
                        if dontcare_at.is_none() {
                            dontcare_at = Some(evs.len());
                        }
                        evs.push(Ev::Settings(a));
                    }
                },
                Ok(Parsed::H2Reserved(_)) | Ok(Parsed::Unknown(_)) => unreachable!(),
            },
        }
    }
    let fin = ending == Ending::Fin;
    let (terms, note): (Vec<Term>, &'static str) = match &tail {
        Tail::Clean => (vec![if fin { Term::CleanEnd } else { Term::Pending }], "clean"),
        Tail::PartialHeader { .. } => (vec![if fin { Term::Error(rf::H3_FRAME_ERROR) } else { Term::Pending }], "partial-header"),
        Tail::PartialPayload { ty, declared, have, payload_start, .. } => {
            if *ty == rf::T_DATA {
                evs.push(Ev::Data(*declared, s[*payload_start..*payload_start + *have].to_vec()));
                (vec![if fin { Term::Error(rf::H3_FRAME_ERROR) } else { Term::Pending }], "partial-data")
            } else {
                let mut t = vec![if fin { Term::Error(rf::H3_FRAME_ERROR) } else { Term::Pending }];
                let mut note = "partial-payload";
                if rf::H2_RESERVED.contains(ty) {
                    // may be reported as soon as the type is known
                    t.push(Term::Error(rf::H3_FRAME_UNEXPECTED));
                    note = "partial-h2-reserved";
                } else if fixed_field_kind(*ty) && !fin {
                    // an implementation may notice an inconsistent length before the payload is complete
                    t.push(Term::Error(rf::H3_FRAME_ERROR));
                    if *ty == rf::T_SETTINGS {
                        t.push(Term::Error(rf::H3_SETTINGS_ERROR));
                    }
                    note = "partial-fixed-field";
                }
                (t, note)
            }
        }
    };
    Expect {
        evs,
        terms,
        unknown_skipped: skipped,
                        dontcare_at,
        note,
    }
}

// ---------------------------------------------------------------------------------------------
// string construction

#[derive(Debug, Clone)]
pub struct Shape {
    pub ty: u64,
    pub ty_form: usize,
    pub len_form: usize,
    pub payload: Vec<u8>,
    /// declared length = payload.len() + delta (delta in -1, 0, 1), never below 0
    pub delta: i64,
}

impl Shape {
    pub fn bytes(&self) -> Vec<u8> {
        let declared = (self.payload.len() as i64 + self.delta).max(0) as u64;
        rf::frame_forms(self.ty, self.ty_form, declared, self.len_form, &self.payload).expect("forms fit")
    }
}

const TYPES: [u64; 14] = [
    rf::T_DATA,
    rf::T_HEADERS,
    rf::T_CANCEL_PUSH,
    rf::T_SETTINGS,
    rf::T_PUSH_PROMISE,
    rf::T_GOAWAY,
    rf::T_MAX_PUSH_ID,
    0x2,
    0x6,
    0x8,
    0x9,
    0x21,                  // grease
    0x0f,                  // small unknown
    0x3f00_0000_0000_0040, // unknown needing the 8-byte form (not of grease form)
];

fn payloads_for(ty: u64) -> Vec<Vec<u8>> {
    match ty {
        rf::T_SETTINGS => vec![
            vec![],
            vec![0x06, 0x10],
            vec![0x06],
            vec![0x06, 0x10, 0x08],
            vec![0x02, 0x00],
            vec![0x06, 0x10, 0x06, 0x11],
            vec![0x21, 0x00, 0x06, 0x10],
            vec![0x40, 0x06, 0x10],
            vec![0x21, 0x00, 0x21, 0x01, 0x06, 0x10], // repeated unknown identifier: accept-or-reject zone
        ],
        rf::T_CANCEL_PUSH | rf::T_GOAWAY | rf::T_MAX_PUSH_ID => vec![
            vec![],
            vec![0x04],
            vec![0x40, 0x04],
            vec![0x04, 0x00],
            vec![0x40],
            vec![0x80, 0x00, 0x00],
            vec![0x80, 0x00, 0x00, 0x08],
            vec![0x04, 0x01, 0x00],
        ],
        rf::T_PUSH_PROMISE => vec![vec![], vec![0x01], vec![0x40], vec![0x01, 0x00, 0x00], vec![0x40, 0x01, 0xaa]],
        _ => vec![vec![], vec![0x00], vec![0x01, 0x02], vec![0x07, 0x01, 0x04], vec![0x00, 0x01, 0x61, 0xff]],
    }
}

fn forms_for(v: u64) -> Vec<usize> {
    [1usize, 2, 4, 8].into_iter().filter(|f| rv::encode_form(v, *f).is_some()).collect()
}

/// all single-frame shapes with every varint form for type and length
pub fn single_shapes() -> Vec<Shape> {
    let mut v = Vec::new();
    for ty in TYPES {
        for p in payloads_for(ty) {
            for delta in [-1i64, 0, 1] {
                if p.is_empty() && delta < 0 {
                    continue;
                }
                let declared = (p.len() as i64 + delta) as u64;
                for tf in forms_for(ty) {
                    for lf in forms_for(declared) {
                        v.push(Shape {
                            ty,
                            ty_form: tf,
                            len_form: lf,
                            payload: p.clone(),
                            delta,
                        });
                    }
                }
            }
        }
    }
    v
}

/// shapes with minimal varint forms only (for pairs and triples)
pub fn min_form_shapes() -> Vec<Shape> {
    let mut v = Vec::new();
    for ty in TYPES {
        for p in payloads_for(ty) {
            for delta in [-1i64, 0, 1] {
                if p.is_empty() && delta < 0 {
                    continue;
                }
                let declared = (p.len() as i64 + delta) as u64;
                v.push(Shape {
                    ty,
                    ty_form: rv::size(ty),
                    len_form: rv::size(declared),
                    payload: p.clone(),
                    delta,
                });
            }
        }
    }
    v
}

// ---------------------------------------------------------------------------------------------
// the check

fn viol(rep: &mut Report, rule: &str, detail: String, case: serde_json::Value) {
    rep.violation(format!("C02/{}", rule), detail, case);
}

fn ev_short(e: &Ev) -> String {
    match e {
        Ev::Headers(h) => format!("HEADERS({})", hex_short(h, 8)),
        Ev::Data(n, d) => format!("DATA(len {}, got {} B)", n, d.len()),
        other => format!("{:?}", other),
    }
}

fn term_short(t: &Term) -> String {
    match t {
        Term::Error(c) => format!("error:{:#x}", c),
        Term::CleanEnd => "clean_end".into(),
        Term::Pending => "pending".into(),
        Term::Panic(p) => format!("panic({})", p),
    }
}

/// Compare one (string, ending, chunking) run with the expectation. Returns the observed outcome
/// for the cross-chunking comparison.
fn check_one(s: &[u8], ending: Ending, chunks: &[Vec<u8>], pend: bool, ex: &Expect, rep: &mut Report) -> (Vec<Ev>, Term) {
    rep.evaluations += 1;
    rep.count("runs");
    let (evs, term) = drive(chunks, ending, pend);
    let case = || {
        json!({"stream_bytes": hex_short(s, 48), "len": s.len(), "ending": format!("{:?}", ending),
               "chunk_lens": chunks.iter().map(|c| c.len()).collect::<Vec<_>>(), "pending_between_chunks": pend})
    };
    if let Term::Panic(p) = &term {
        viol(rep, &format!("panic[{}]", p), format!("stream {} ({:?}) chunks {:?}: panicked: {}", hex_short(s, 24), ending, chunks.iter().map(|c| c.len()).collect::<Vec<_>>(), p), case());
        return (evs, term);
    }
    if let Some(k) = ex.dontcare_at {
        // don't-care SETTINGS (repeated unknown identifier): rejecting it on the spot is fine
        if evs.len() == k && evs[..] == ex.evs[..k] && matches!(term, Term::Error(c) if c == rf::H3_SETTINGS_ERROR || c == rf::H3_FRAME_ERROR) {
            return (evs, term);
        }
    }
    // events must be a prefix-equal match: h3 may not have produced all events if it stopped early
    let n = evs.len().min(ex.evs.len());
    let mut first_diff = None;
    for i in 0..n {
        if evs[i] != ex.evs[i] {
            // a DATA frame cut off by the end of the stream ends in an error: how much of the
            // partial payload was handed out before the error is not prescribed (any prefix)
            if ex.note == "partial-data" && i + 1 == ex.evs.len() && matches!(term, Term::Error(_)) {
                if let (Ev::Data(a, got), Ev::Data(b, want)) = (&evs[i], &ex.evs[i]) {
                    if a == b && want.starts_with(got) {
                        continue;
                    }
                }
            }
            first_diff = Some(i);
            break;
        }
    }
    if first_diff.is_none() && evs.len() != ex.evs.len() {
        first_diff = Some(n);
    }
    if let Some(i) = first_diff {
        let got = evs.get(i).map(ev_short).unwrap_or_else(|| format!("<nothing> then {}", term_short(&term)));
        let want = ex.evs.get(i).map(ev_short).unwrap_or_else(|| format!("<nothing> then {}", ex.terms.iter().map(term_short).collect::<Vec<_>>().join("|")));
        let rule = classify_event_diff(&evs, &term, ex, i);
        viol(
            rep,
            &rule,
            format!("stream {} ({:?}, reference: {}) chunks {:?}: event #{} is {} expected {}", hex_short(s, 24), ending, ex.note, chunks.iter().map(|c| c.len()).collect::<Vec<_>>(), i, got, want),
            case(),
        );
        return (evs, term);
    }
    if !ex.terms.contains(&term) {
        let rule = format!("terminal[{}-expected-{}]", term_short(&term), ex.terms.iter().map(term_short).collect::<Vec<_>>().join("|"));
        viol(
            rep,
            &format!("{}[{}]", rule, ex.note),
            format!("stream {} ({:?}, reference: {}) chunks {:?}: ends with {} expected {}", hex_short(s, 24), ending, ex.note, chunks.iter().map(|c| c.len()).collect::<Vec<_>>(), term_short(&term), ex.terms.iter().map(term_short).collect::<Vec<_>>().join("|")),
            case(),
        );
    }
    (evs, term)
}

/// Name the disagreement narrowly (used as the violation signature).
fn classify_event_diff(evs: &[Ev], term: &Term, ex: &Expect, i: usize) -> String {
    match (evs.get(i), ex.evs.get(i)) {
        (Some(Ev::Data(n, got)), Some(Ev::Data(m, want))) if n == m && got.len() < want.len() => "data-bytes-missing".into(),
        (Some(Ev::Data(n, got)), Some(Ev::Data(m, want))) if n == m && got != want => "data-bytes-differ".into(),
        (Some(g), None) => format!("extra-event-after-{}[{}]", ex.note, ev_kind(g)),
        (None, Some(w)) => format!("missing-event[{}]-got-{}", ev_kind(w), term_short(term)),
        (Some(g), Some(w)) => format!("event-differs[{}-vs-{}]", ev_kind(g), ev_kind(w)),
        (None, None) => "event-count".into(),
    }
}

fn ev_kind(e: &Ev) -> &'static str {
    match e {
        Ev::Headers(_) => "HEADERS",
        Ev::Data(..) => "DATA",
        Ev::CancelPush(_) => "CANCEL_PUSH",
        Ev::Settings(_) => "SETTINGS",
        Ev::PushPromise(_) => "PUSH_PROMISE",
        Ev::Goaway(_) => "GOAWAY",
        Ev::MaxPushId(_) => "MAX_PUSH_ID",
        Ev::Other(_) => "OTHER",
    }
}

/// Check string `s` with both endings over a set of chunkings.
fn check_string(s: &[u8], all_chunkings_upto: usize, n_random: usize, rng: &mut Rng, rep: &mut Report) {
    if s.is_empty() {
        return;
    }
    for ending in [Ending::Fin, Ending::Open] {
        let ex = expect(s, ending);
        rep.count(&format!("expected[{}]", term_short(&ex.terms[0])));
        rep.count(&format!("reference_note[{}]", ex.note));
        if ex.dontcare_at.is_some() {
            rep.count("reference_dontcare[repeated-unknown-setting]");
        }
        rep.add("unknown_frames_skipped", ex.unknown_skipped);
        rep.add("data_frames_delivered", ex.evs.iter().filter(|e| matches!(e, Ev::Data(..))).count() as u64);
        let mut outcomes: Vec<(Vec<Ev>, Term)> = Vec::new();
        let mut first_chunking: Vec<usize> = Vec::new();
        if s.len() <= all_chunkings_upto {
            rep.count("all_chunkings_strings");
            let n = s.len();
            for mask in 0..(1u64 << (n - 1)) {
                let chunks = cut_by_mask(s, mask);
                // alternate the "Pending between chunks" mode with the mask parity plus once both for mask extremes
                let pend = mask & 1 == 1;
                let o = check_one(s, ending, &chunks, pend, &ex, rep);
                rep.distinct_direct += 1;
                if outcomes.is_empty() {
                    first_chunking = chunks.iter().map(|c| c.len()).collect();
                }
                push_outcome(&mut outcomes, o, s, ending, &chunks, &first_chunking, rep);
            }
            let chunks = cut_by_mask(s, (1u64 << (n - 1)) - 1);
            let o = check_one(s, ending, &chunks, false, &ex, rep);
            push_outcome(&mut outcomes, o, s, ending, &chunks, &first_chunking, rep);
        } else {
            let mut chunkings: Vec<Vec<Vec<u8>>> = vec![vec![s.to_vec()], s.iter().map(|b| vec![*b]).collect()];
            for _ in 0..n_random {
                chunkings.push(cut_random(s, rng));
            }
            for (i, chunks) in chunkings.iter().enumerate() {
                let o = check_one(s, ending, chunks, i % 2 == 1, &ex, rep);
                rep.sig(hash64(&(s, ending, chunks)));
                if outcomes.is_empty() {
                    first_chunking = chunks.iter().map(|c| c.len()).collect();
                }
                push_outcome(&mut outcomes, o, s, ending, chunks, &first_chunking, rep);
            }
        }
    }
}

/// Chunking independence proper: every chunking of the same (string, ending) must give the same
/// observable outcome, also inside the reference's don't-care zones.
fn push_outcome(outcomes: &mut Vec<(Vec<Ev>, Term)>, o: (Vec<Ev>, Term), s: &[u8], ending: Ending, chunks: &[Vec<u8>], first: &[usize], rep: &mut Report) {
    if matches!(o.1, Term::Panic(_)) {
        return;
    }
    let mut o = o;
    if matches!(o.1, Term::Error(_)) {
        // bytes of a final, incomplete DATA payload delivered before the error: not prescribed
        if let Some(Ev::Data(n, bytes)) = o.0.last_mut() {
            if (bytes.len() as u64) < *n {
                bytes.clear();
            }
        }
    }
    if let Some(f) = outcomes.first() {
        if *f != o {
            viol(
                rep,
                "outcome-depends-on-chunking",
                format!(
                    "stream {} ({:?}): chunking {:?} gives {} events then {}, chunking {:?} gives {} events then {}",
                    hex_short(s, 24),
                    ending,
                    first,
                    f.0.len(),
                    term_short(&f.1),
                    chunks.iter().map(|c| c.len()).collect::<Vec<_>>(),
                    o.0.len(),
                    term_short(&o.1)
                ),
                json!({"stream_bytes": hex(s), "ending": format!("{:?}", ending)}),
            );
        }
    } else {
        outcomes.push(o);
    }
}

/// Entry point of the libFuzzer target: one (string, chunking, ending) run against the reference.
pub fn fuzz_one(s: &[u8], mask: u64, fin: bool, pend: bool, rep: &mut Report) {
    if s.is_empty() {
        return;
    }
    // a frame of type 0x41 (WebTransport stream signal) has no length by design: everything after
    // it belongs to the extension (C19), not to RFC 9114 7.1 framing
    let mut at = 0;
    while at < s.len() {
        let Ok((ty, n)) = rv::decode(&s[at..]) else { break };
        if ty == 0x41 {
            rep.count("fuzz_skipped[webtransport signal]");
            return;
        }
        at += n;
        let Ok((len, n)) = rv::decode(&s[at..]) else { break };
        at += n;
        at = at.saturating_add(len.min(usize::MAX as u64) as usize);
    }
    let ending = if fin { Ending::Fin } else { Ending::Open };
    let ex = expect(s, ending);
    let chunks = cut_by_mask(s, mask);
    check_one(s, ending, &chunks, pend, &ex, rep);
    // and the whole string in one chunk: the outcome must not depend on the chunking
    let whole = vec![s.to_vec()];
    let mut outcomes = Vec::new();
    let o1 = check_one(s, ending, &whole, false, &ex, rep);
    push_outcome(&mut outcomes, o1, s, ending, &whole, &[s.len()], rep);
    let o2 = drive(&chunks, ending, pend);
    push_outcome(&mut outcomes, o2, s, ending, &chunks, &[s.len()], rep);
}

/// Seed inputs for the libFuzzer target `frames` (8 mask bytes, 1 flag byte, then the stream).
pub fn fuzz_seeds(n: usize, seed: u64) -> Vec<Vec<u8>> {
    let mut rng = Rng::new(seed ^ 0xC02F);
    let shapes = single_shapes();
    let mut out = Vec::new();
    for _ in 0..n {
        let mut s = Vec::new();
        for _ in 0..1 + rng.usize(3) {
            s.extend(rng.pick(&shapes).bytes());
        }
        if s.len() > 250 {
            s.truncate(250);
        }
        let mut b = rng.next().to_le_bytes().to_vec();
        b.push(rng.below(4) as u8);
        b.extend(s);
        out.push(b);
    }
    out
}

fn run_case(gen: &str, index: u64, seed: u64, tier: Tier, rep: &mut Report) {
    if gen == "every_type_below_0x60" {
        // every frame type value of the one- and two-byte range next to the defined ones (0x41,
        // the length-less WebTransport signal, is outside C02's alphabet), alone and between two
        // DATA frames, with payloads of 0, 1 and 5 bytes
        let ty = index;
        if ty == 0x41 {
            return;
        }
        let mut rng = Rng::new(seed);
        // (all chunkings up to this length, sampled chunkings beyond): small under Miri
        let (all_a, n_a, all_b, n_b) = if tier == Tier::Lite { (4, 2, 4, 2) } else { (12, 4, 9, 6) };
        for payload in [&b""[..], b"\x00", b"\x04\x01\x02\x03\x07"] {
            let f = rf::frame(ty, payload);
            check_string(&f, all_a, n_a, &mut rng, rep);
            let mut s = rf::frame(rf::T_DATA, b"ab");
            s.extend(&f);
            s.extend(rf::frame(rf::T_DATA, b"c"));
            check_string(&s, all_b, n_b, &mut rng, rep);
            rep.count("small_type_strings");
        }
        return;
    }
    let mut rng = Rng::new(seed);
    let all_upto = match tier {
        Tier::Thorough => 12,
        Tier::Quick => 9,
        Tier::Lite => 5,
    };
    let n_random = match tier {
        Tier::Thorough => 62,
        Tier::Quick => 22,
        Tier::Lite => 3,
    };
    match gen {
        "single_frames_all_forms" => {
            let shapes = single_shapes();
            let sh = &shapes[index as usize];
            let s = sh.bytes();
            // every truncation point (prefix) of the frame, plus the frame followed by a valid HEADERS
            for cut in 1..=s.len() {
                check_string(&s[..cut], all_upto, n_random, &mut rng, rep);
            }
            let mut s2 = s.clone();
            s2.extend_from_slice(&[0x01, 0x01, 0xaa]);
            check_string(&s2, all_upto, n_random, &mut rng, rep);
            if index % 997 == 0 {
                let ex = expect(&s, Ending::Fin);
                rep.sample(json!({"stream": hex(&s), "ending": "Fin", "reference_events": ex.evs.iter().map(ev_short).collect::<Vec<_>>(), "reference_terminal": ex.terms.iter().map(term_short).collect::<Vec<_>>(), "chunkings": if s.len() <= all_upto { format!("all {}", 1u64 << (s.len() - 1)) } else { format!("{} sampled", n_random + 2) }}));
            }
        }
        "pairs_min_forms" => {
            let shapes = min_form_shapes();
            let n = shapes.len() as u64;
            for k in 0..16 {
                let pi = index * 16 + k;
                if pi >= n * n {
                    break;
                }
                let a = &shapes[(pi / n) as usize];
                let b = &shapes[(pi % n) as usize];
                let mut s = a.bytes();
                s.extend(b.bytes());
                check_string(&s, all_upto, n_random.min(8), &mut rng, rep);
                // one truncation inside the second frame
                if s.len() > 2 {
                    let cut = a.bytes().len() + rng.usize(b.bytes().len());
                    if cut > 0 {
                        check_string(&s[..cut], all_upto, 4, &mut rng, rep);
                    }
                }
            }
        }
        "triples_min_forms_sample" => {
            let shapes = min_form_shapes();
            for _ in 0..4 {
                let mut s = Vec::new();
                for _ in 0..3 {
                    s.extend(shapes[rng.usize(shapes.len())].bytes());
                }
                let cut = if rng.chance(1, 3) { 1 + rng.usize(s.len()) } else { s.len() };
                check_string(&s[..cut], all_upto, n_random.min(8), &mut rng, rep);
            }
        }
        "random_long_streams" => {
            // up to 40 frames / 4 KiB: mostly valid frames of all kinds with realistic payloads
            let nf = 1 + rng.usize(40);
            let mut s = Vec::new();
            for _ in 0..nf {
                let ty = match rng.below(10) {
                    0..=3 => rf::T_DATA,
                    4 => rf::T_HEADERS,
                    5 => 0x21 + 0x1f * rng.below(1000),
                    6 => *rng.pick(&[0x0fu64, 0x40, 0x1234, 0xffff_ffff]),
                    7 => *rng.pick(&[rf::T_GOAWAY, rf::T_CANCEL_PUSH, rf::T_MAX_PUSH_ID]),
                    8 => rf::T_SETTINGS,
                    _ => *rng.pick(&TYPES),
                };
                let payload: Vec<u8> = match ty {
                    rf::T_GOAWAY | rf::T_CANCEL_PUSH | rf::T_MAX_PUSH_ID => rv::encode(rng.below(1 << 20)).unwrap(),
                    rf::T_SETTINGS => rf::settings_payload(&[(0x06, rng.below(1 << 20)), (0x21 + 0x1f * rng.below(50), rng.below(100))]),
                    _ => {
                        let l = match rng.below(4) {
                            0 => 0,
                            1 => rng.usize(8),
                            2 => rng.usize(200),
                            _ => rng.usize(64),
                        };
                        rng.bytes(l)
                    }
                };
                let tf = *rng.pick(&forms_for(ty));
                let lf = *rng.pick(&forms_for(payload.len() as u64));
                s.extend(rf::frame_forms(ty, tf, payload.len() as u64, lf, &payload).unwrap());
                if s.len() > 4096 {
                    break;
                }
            }
            // corrupt occasionally: truncate or flip a length
            if rng.chance(1, 3) {
                let c = 1 + rng.usize(s.len());
                s.truncate(c);
            }
            check_string(&s, 0, n_random.min(10), &mut rng, rep);
        }
        "regression_seeds" => {
            // all chunkings up to this length (hundreds of thousands of runs natively: sampled under Miri)
            let reg_all = if tier == Tier::Lite { 4 } else { 12 };
            // inputs from DESIGN.md §5 (design-time probes)
            for s in [
                vec![0x07, 0x03, 0x04, 0x01, 0x00],
                vec![0x07, 0x00],
                vec![0x03, 0x00],
                vec![0x01, 0x01, 0xaa, 0x00, 0x04, b'x'],
                vec![0x0d, 0x02, 0x04, 0x04],
                vec![0x05, 0x00],
            ] {
                check_string(&s, reg_all, 8, &mut rng, rep);
            }
            // declared lengths at the top of the varint range (the payload can never be complete):
            // nothing, one byte or a few bytes of payload, then the end of the stream or silence
            for ty in [rf::T_DATA, rf::T_HEADERS, 0x21, rf::unknown_type(3), rf::T_GOAWAY, rf::T_SETTINGS] {
                for len in [(1u64 << 62) - 1, (1 << 62) - 2, 1 << 61, (1 << 32) + 1, u32::MAX as u64, 1 << 30] {
                    for tail in [&b""[..], b"\x00", b"abc"] {
                        let mut s = rf::frame_forms(ty, rv::size(ty), len, 8, &[]).expect("forms fit");
                        s.extend_from_slice(tail);
                        check_string(&s, reg_all, 6, &mut rng, rep);
                        let mut t = rf::frame(rf::T_DATA, b"xy");
                        t.extend(&s);
                        check_string(&t, reg_all.min(9), 6, &mut rng, rep);
                        rep.count("huge_declared_length_strings");
                    }
                }
            }
        }
        _ => {}
    }
}
