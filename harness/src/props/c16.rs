//! C16 — QUIC variable-length integers and stream-ID arithmetic vs RFC 9000.
//! Differential monitor: h3's `proto::varint` / `proto::stream` against the hand-written
//! reference and Cloudflare's `octets` varint codec.

use crate::refimpl::varint as rv;
use crate::report::Report;
use crate::util::{hash64, hex, Rng};
use crate::{Gen, PropDef, Tier};
use bytes::Buf;
use h3::proto::coding::{BufExt as _, BufMutExt as _};
use h3::proto::push::PushId;
use h3::proto::stream::StreamId;
use h3::proto::varint::VarInt;
use serde_json::json;
use std::convert::TryFrom;

pub fn def() -> PropDef {
    PropDef {
        id: "C16",
        rule: "cases: (a) every 1- and 2-byte encoding and every value 0..2^16 (complete), \
               (b) values within +-2 of 2^6, 2^14, 2^30, 2^62 in every form that can hold them, \
               every truncation length of every form, (c) random 62-bit values and random \
               4/8-byte (possibly non-minimal) encodings, (d) stream ids: 4 kinds x boundary \
               indices x increments up to usize::MAX. Each case is checked against the reference \
               codec and octets. A case is non-trivial if it exercises a decode, an encode or an \
               id operation on a distinct (bytes | value | (id,n)) tuple; distinct tuples are \
               counted by hash, complete enumerations by construction.",
        assumptions: || {
            vec![
                "reference varint codec in refimpl/varint.rs and octets 0.3.7 are correct (they must agree with each other on every case, checked)".into(),
                "values of usize are 64-bit (increments up to usize::MAX)".into(),
            ]
        },
        gens,
        run_case,
        finish,
    }
}

fn gens(tier: Tier) -> Vec<Gen> {
    vec![
        // one case per first byte: all encodings starting with it (1- and 2-byte complete,
        // 4/8-byte sampled around boundaries)
        Gen::exhaustive("enc_1_2_byte_all", 256),
        // values 0..2^16 in blocks of 256
        Gen::exhaustive("values_0_64k", 256),
        Gen::exhaustive("boundaries_and_truncations", 1),
        Gen::new("random_values", tier.pick(4, 100, 10_000)),
        Gen::new("random_encodings", tier.pick(4, 100, 10_000)),
        Gen::exhaustive("stream_ids_grid", 1),
        Gen::new("stream_ids_random", tier.pick(2, 50, 2_000)),
    ]
}

fn finish(_tier: Tier, rep: &mut Report) {
    if rep.get("decode_checked") < 20_000 {
        rep.inconclusive("fewer than 20000 decodes were checked");
    }
    if rep.get("truncation_checked") < 20 {
        rep.inconclusive("truncations not exercised");
    }
    if rep.get("streamid_add_checked") < 100 {
        rep.inconclusive("stream id arithmetic not exercised");
    }
}

/// A Buf that yields its bytes in 1-byte chunks, to exercise decode across chunk seams.
struct Fragmented {
    data: Vec<u8>,
    pos: usize,
}
impl Buf for Fragmented {
    fn remaining(&self) -> usize {
        self.data.len() - self.pos
    }
    fn chunk(&self) -> &[u8] {
        if self.pos < self.data.len() {
            &self.data[self.pos..self.pos + 1]
        } else {
            &[]
        }
    }
    fn advance(&mut self, cnt: usize) {
        assert!(cnt <= self.remaining());
        self.pos += cnt;
    }
}

fn viol(rep: &mut Report, rule: &str, detail: String, case: serde_json::Value) {
    rep.violation(format!("C16/{}", rule), detail, case);
}

/// Check decoding of `bytes` (which starts with one complete or truncated varint followed by
/// arbitrary trailing bytes).
fn check_decode(bytes: &[u8], rep: &mut Report) {
    rep.evaluations += 1;
    rep.count("decode_checked");
    let expect = rv::decode(bytes);
    // octets cross-check of the reference itself
    {
        let mut o = octets::Octets::with_slice(bytes);
        let got = o.get_varint();
        match (&expect, got) {
            (Ok((v, n)), Ok(ov)) => {
                if *v != ov || o.off() != *n {
                    rep.inconclusive(format!(
                        "reference and octets disagree on {}",
                        hex(bytes)
                    ));
                }
            }
            (Err(_), Err(_)) => {}
            _ => rep.inconclusive(format!("reference and octets disagree on {}", hex(bytes))),
        }
    }
    for frag in [false, true] {
        // only h3's decoder runs inside the catcher: a panic there (wherever it is raised - h3 reads
        // through the bytes crate) is the decoder failing to report a truncation or a value as such
        let attempt = crate::panics::catch(|| {
            if frag {
                let mut b = Fragmented {
                    data: bytes.to_vec(),
                    pos: 0,
                };
                let r = VarInt::decode(&mut b);
                (r, b.pos)
            } else {
                let mut b = bytes;
                let r = VarInt::decode(&mut b);
                (r, bytes.len() - b.len())
            }
        });
        let (res, consumed) = match attempt {
            Ok(x) => x,
            Err(p) => {
                viol(
                    rep,
                    if expect.is_ok() { "decode-panics[complete encoding]" } else { "decode-panics[truncated encoding]" },
                    format!("VarInt::decode panicked on {}: {} at {}", hex(bytes), p.msg, p.loc),
                    json!({"bytes": hex(bytes), "fragmented": frag}),
                );
                continue;
            }
        };
        match (&expect, res) {
            (Ok((v, n)), Ok(got)) => {
                if got.into_inner() != *v {
                    viol(
                        rep,
                        "decode-wrong-value",
                        format!("{} decoded to {} expected {}", hex(bytes), got.into_inner(), v),
                        json!({"bytes": hex(bytes), "fragmented": frag}),
                    );
                }
                if consumed != *n {
                    viol(
                        rep,
                        "decode-wrong-length",
                        format!("{} consumed {} expected {}", hex(bytes), consumed, n),
                        json!({"bytes": hex(bytes), "fragmented": frag}),
                    );
                }
            }
            (Err(_), Err(_)) => {
                rep.count("truncation_checked");
            }
            (Ok((v, _)), Err(e)) => viol(
                rep,
                "decode-rejects-complete",
                format!("{} (value {}) rejected: {:?}", hex(bytes), v, e),
                json!({"bytes": hex(bytes), "fragmented": frag}),
            ),
            (Err(_), Ok(got)) => viol(
                rep,
                "decode-accepts-truncated",
                format!("truncated {} decoded to {}", hex(bytes), got.into_inner()),
                json!({"bytes": hex(bytes), "fragmented": frag}),
            ),
        }
    }
    // get_var helper must agree
    {
        let mut b = bytes;
        let r = match crate::panics::catch(|| b.get_var()) {
            Ok(r) => r,
            Err(p) => {
                viol(rep, "get_var-panics", format!("BufExt::get_var panicked on {}: {} at {}", hex(bytes), p.msg, p.loc), json!({"bytes": hex(bytes)}));
                return;
            }
        };
        match (&expect, r) {
            (Ok((v, _)), Ok(g)) if *v == g => {}
            (Err(_), Err(_)) => {}
            (e, g) => viol(
                rep,
                "get_var-disagrees",
                format!("{}: expected {:?} got {:?}", hex(bytes), e, g),
                json!({"bytes": hex(bytes)}),
            ),
        }
    }
    if let Ok((_, n)) = expect {
        if VarInt::encoded_size(bytes[0]) != n {
            viol(
                rep,
                "encoded_size-wrong",
                format!("first byte {:02x}: encoded_size {} expected {}", bytes[0], VarInt::encoded_size(bytes[0]), n),
                json!({"bytes": hex(bytes)}),
            );
        }
    }
}

fn check_value(v: u64, rep: &mut Report) {
    rep.evaluations += 1;
    rep.count("value_checked");
    let expect = rv::encode(v);
    let c1 = VarInt::from_u64(v);
    let c2 = VarInt::try_from(v);
    let c3 = VarInt::try_from(v as usize);
    let c4 = StreamId::try_from(v);
    let c5 = PushId::try_from(v);
    match &expect {
        None => {
            rep.count("refused_checked");
            if c1.is_ok() || c2.is_ok() || c3.is_ok() || c4.is_ok() || c5.is_ok() {
                viol(
                    rep,
                    "constructor-accepts-out-of-range",
                    format!("value {} (>= 2^62) accepted by a checked constructor", v),
                    json!({"value": v}),
                );
            }
        }
        Some(exp) => {
            let (Ok(a), Ok(b), Ok(_c), Ok(d), Ok(_e)) = (c1, c2, c3, c4, c5) else {
                viol(
                    rep,
                    "constructor-refuses-valid",
                    format!("value {} (< 2^62) refused by a checked constructor", v),
                    json!({"value": v}),
                );
                return;
            };
            if a.into_inner() != v || b.into_inner() != v || d.into_inner() != v {
                viol(
                    rep,
                    "constructor-changes-value",
                    format!("value {} changed by constructor", v),
                    json!({"value": v}),
                );
            }
            let mut out = Vec::new();
            a.encode(&mut out);
            if &out != exp {
                viol(
                    rep,
                    "encode-not-shortest-or-wrong",
                    format!("value {} encoded as {} expected {}", v, hex(&out), hex(exp)),
                    json!({"value": v}),
                );
            }
            if a.size() != exp.len() {
                viol(
                    rep,
                    "size-wrong",
                    format!("value {} size() {} expected {}", v, a.size(), exp.len()),
                    json!({"value": v}),
                );
            }
            let mut out2 = Vec::new();
            out2.write_var(v);
            if &out2 != exp {
                viol(
                    rep,
                    "write_var-wrong",
                    format!("value {} write_var {} expected {}", v, hex(&out2), hex(exp)),
                    json!({"value": v}),
                );
            }
            // round trip through h3's own decoder
            let mut rd = &out[..];
            match VarInt::decode(&mut rd) {
                Ok(x) if x.into_inner() == v && rd.is_empty() => {}
                other => viol(
                    rep,
                    "roundtrip",
                    format!("value {} -> {} -> {:?}", v, hex(&out), other),
                    json!({"value": v}),
                ),
            }
            // octets decodes h3's output to v
            let mut o = octets::Octets::with_slice(&out);
            if o.get_varint().ok() != Some(v) {
                viol(
                    rep,
                    "octets-disagrees-on-h3-output",
                    format!("value {} -> {}", v, hex(&out)),
                    json!({"value": v}),
                );
            }
        }
    }
}

const KINDS: [(u64, &str, &str); 4] = [
    (0, "client", "bi"),
    (1, "server", "bi"),
    (2, "client", "uni"),
    (3, "server", "uni"),
];
const MAX_INDEX: u64 = (1u64 << 60) - 1;

fn check_stream_id(kind: u64, index: u64, n: usize, rep: &mut Report) {
    rep.evaluations += 1;
    rep.count("streamid_add_checked");
    rep.sig(hash64(&("sid", kind, index, n)));
    let raw = (index << 2) | kind;
    let id = match StreamId::try_from(raw) {
        Ok(i) => i,
        Err(_) => {
            viol(
                rep,
                "streamid-refuses-valid",
                format!("raw {} refused", raw),
                json!({"raw": raw}),
            );
            return;
        }
    };
    let (_, who, dir) = KINDS[kind as usize];
    let exp_disp = format!("{} {}directional stream {}", who, dir, index);
    let disp = format!("{}", id);
    if disp != exp_disp {
        viol(
            rep,
            "streamid-display",
            format!("raw {}: Display {:?} expected {:?}", raw, disp, exp_disp),
            json!({"raw": raw}),
        );
    }
    if id.index() != index {
        viol(
            rep,
            "streamid-index",
            format!("raw {}: index {} expected {}", raw, id.index(), index),
            json!({"raw": raw}),
        );
    }
    if id.is_request() != (kind == 0) {
        viol(
            rep,
            "streamid-is_request",
            format!("raw {}: is_request {}", raw, id.is_request()),
            json!({"raw": raw}),
        );
    }
    if id.is_push() != (kind == 3) {
        viol(
            rep,
            "streamid-is_push",
            format!("raw {}: is_push {}", raw, id.is_push()),
            json!({"raw": raw}),
        );
    }
    if id.into_inner() != raw {
        viol(
            rep,
            "streamid-into_inner",
            format!("raw {}: into_inner {}", raw, id.into_inner()),
            json!({"raw": raw}),
        );
    }
    // VarInt conversions keep the value
    if VarInt::from(id).into_inner() != raw || StreamId::from(VarInt::from(id)) != id {
        viol(
            rep,
            "streamid-varint-conv",
            format!("raw {}", raw),
            json!({"raw": raw}),
        );
    }
    let res = crate::panics::catch(|| id + n);
    let exp_index = std::cmp::min(index.saturating_add(n as u64), MAX_INDEX);
    match res {
        Err(p) => viol(
            rep,
            "streamid-add-panics",
            format!("raw {} + {} panicked: {} at {}", raw, n, p.msg, p.loc),
            json!({"raw": raw, "n": n}),
        ),
        Ok(sum) => {
            let exp_raw = (exp_index << 2) | kind;
            if sum.into_inner() != exp_raw {
                viol(
                    rep,
                    "streamid-add-wrong",
                    format!(
                        "raw {} + {} = {} expected {} (index {} of the same kind)",
                        raw,
                        n,
                        sum.into_inner(),
                        exp_raw,
                        exp_index
                    ),
                    json!({"raw": raw, "n": n}),
                );
            }
            if sum.into_inner() > rv::MAX {
                viol(
                    rep,
                    "streamid-add-overflows-62-bits",
                    format!("raw {} + {} = {}", raw, n, sum.into_inner()),
                    json!({"raw": raw, "n": n}),
                );
            }
        }
    }
}

fn run_case(gen: &str, index: u64, seed: u64, _tier: Tier, rep: &mut Report) {
    let mut rng = Rng::new(seed);
    match gen {
        "enc_1_2_byte_all" => {
            let first = index as u8;
            let n = rv::len_from_first(first);
            match n {
                1 => {
                    check_decode(&[first], rep);
                    check_decode(&[first, 0xff], rep);
                    rep.distinct_direct += 1;
                }
                2 => {
                    for b in 0..=255u8 {
                        check_decode(&[first, b], rep);
                        rep.distinct_direct += 1;
                    }
                    check_decode(&[first], rep);
                    check_decode(&[first, 0x12, 0x34], rep);
                }
                _ => {
                    // 4/8-byte forms with this first byte: boundary fills + random fills, every truncation
                    for fill in [0x00u8, 0xff, 0x01, 0x80] {
                        let mut e = vec![fill; n];
                        e[0] = first;
                        for cut in 1..=n {
                            check_decode(&e[..cut], rep);
                        }
                        e.push(0xaa);
                        check_decode(&e, rep);
                        rep.distinct_direct += 1;
                    }
                    for _ in 0..8 {
                        let mut e = rng.bytes(n);
                        e[0] = first;
                        check_decode(&e, rep);
                        rep.sig(hash64(&e));
                    }
                }
            }
            if index == 0 {
                check_decode(&[], rep);
                rep.sample(json!({"decode": "00", "expect": {"value": 0, "len": 1}}));
                rep.sample(json!({"decode": "4000 (non-minimal 2-byte zero)", "expect": {"value": 0, "len": 2}}));
            }
        }
        "values_0_64k" => {
            for v in index * 256..(index + 1) * 256 {
                check_value(v, rep);
                rep.distinct_direct += 1;
            }
        }
        "boundaries_and_truncations" => {
            for p in [6u32, 14, 30, 62] {
                let c = 1u64 << p;
                for d in -2i64..=2 {
                    let v = (c as i64 + d) as u64;
                    check_value(v, rep);
                    rep.distinct_direct += 1;
                    for form in [1usize, 2, 4, 8] {
                        if let Some(e) = rv::encode_form(v, form) {
                            for cut in 0..=e.len() {
                                check_decode(&e[..cut], rep);
                            }
                            let mut e2 = e.clone();
                            e2.extend_from_slice(&[0xde, 0xad]);
                            check_decode(&e2, rep);
                            rep.distinct_direct += 1;
                        }
                    }
                }
            }
            for v in [u64::MAX, u64::MAX - 1, 1 << 63, (1 << 62) + 12345] {
                check_value(v, rep);
                rep.distinct_direct += 1;
            }
            rep.sample(json!({"value": (1u64<<62), "expect": "refused by from_u64/try_from"}));
            rep.sample(json!({"value": (1u64<<14), "expect_bytes": hex(&rv::encode(1<<14).unwrap())}));
        }
        "random_values" => {
            for _ in 0..100 {
                let bits = rng.range(1, 64);
                let v = if bits == 64 {
                    rng.next()
                } else {
                    rng.next() & ((1u64 << bits) - 1)
                };
                check_value(v, rep);
                rep.sig(hash64(&("v", v)));
            }
        }
        "random_encodings" => {
            for _ in 0..100 {
                let n = *rng.pick(&[4usize, 8, 8, 2]);
                let mut e = rng.bytes(n);
                e[0] = (e[0] & 0x3f) | (((n.trailing_zeros()) as u8) << 6);
                // bias towards non-minimal (leading zeros)
                if rng.chance(1, 2) {
                    let z = rng.usize(n);
                    for b in e.iter_mut().take(z).skip(1) {
                        *b = 0;
                    }
                    e[0] &= 0xc0;
                }
                let cut = if rng.chance(1, 4) { rng.usize(n + 1) } else { n };
                let mut s = e[..cut].to_vec();
                if cut == n && rng.bool() {
                    let k = rng.usize(4);
                    s.extend(rng.bytes(k));
                }
                check_decode(&s, rep);
                rep.sig(hash64(&("e", &s)));
            }
        }
        "stream_ids_grid" => {
            let idxs = [
                0u64,
                1,
                2,
                63,
                64,
                1 << 14,
                1 << 30,
                (1 << 30) - 1,
                MAX_INDEX - 2,
                MAX_INDEX - 1,
                MAX_INDEX,
            ];
            let incs = [
                0usize,
                1,
                2,
                3,
                1 << 32,
                (1 << 60) - 1,
                1 << 60,
                1 << 62,
                usize::MAX - 1,
                usize::MAX,
            ];
            for (k, _, _) in KINDS {
                for i in idxs {
                    for n in incs {
                        check_stream_id(k, i, n, rep);
                    }
                }
            }
            rep.sample(json!({"stream_id": {"kind": "client bi", "index": MAX_INDEX - 1}, "plus": 5, "expect_index": MAX_INDEX}));
        }
        "stream_ids_random" => {
            for _ in 0..50 {
                let k = rng.below(4);
                let i = match rng.below(3) {
                    0 => rng.below(1 << 16),
                    1 => MAX_INDEX - rng.below(1 << 16),
                    _ => rng.below(MAX_INDEX + 1),
                };
                let n = match rng.below(4) {
                    0 => rng.below(16) as usize,
                    1 => rng.next() as usize,
                    2 => (MAX_INDEX - i).wrapping_add(rng.below(5)).wrapping_sub(2) as usize,
                    _ => usize::MAX - rng.below(1 << 20) as usize,
                };
                check_stream_id(k, i, n, rep);
            }
        }
        _ => {}
    }
}
