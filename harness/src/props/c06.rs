//! C06 — no peer behaviour makes h3 panic or leaves a call pending forever.
//! Adversarial peer scripts (a small bytecode shared by the seeded generator, stored corpora and
//! the libFuzzer target) are played by a raw peer against the real client / server running the
//! documented call patterns; panics are caught around every poll and hangs are decided at
//! executor quiescence.

use crate::refimpl::frames as rf;
use crate::refimpl::qpack as rq;
use crate::refimpl::varint as rv;
use crate::report::Report;
use crate::sim::apps::{self, ClientOpts, Msg, Out, Probe, ReqPlan, RespPlan, ServerOpts};
use crate::sim::rawpeer as raw;
use crate::sim::sched::{RunEnd, Sched, ScriptStep};
use crate::sim::{self, lock, NetCfg, CLIENT, SERVER};
use crate::util::{hash64, hex_short, Rng};
use crate::{Gen, PropDef, Tier};
use bytes::Bytes;
use serde_json::json;

pub fn def() -> PropDef {
    PropDef {
        id: "C06",
        rule: "a case = (role, peer script, transport schedule). Scripts are sequences of {open bidi, \
               open uni, write bytes, FIN, RESET(code), STOP_SENDING(code), close(code)} built from \
               valid scenario skeletons for both roles (settings, 1..3 requests/responses with \
               DATA and trailers, GOAWAY, unknown and QPACK streams) and mutated at grammar level \
               (frame lengths, types, varint forms, truncation, duplicated/reordered ops, random \
               QPACK blocks, Huffman garbage) and byte level; FIN/RESET/STOP_SENDING/close are \
               injected at EVERY step index of every skeleton (complete), plus random scripts. The \
               real endpoint's application follows the documented call patterns (whole and split \
               streams) over PRNG chunking and task order. Oracles: (1) no poll of any h3 future \
               panics/overflows (overflow checks and debug assertions on); (2) at quiescence no call \
               reading a request stream is pending once the peer's FIN/RESET for it was delivered, \
               and no call writing it once STOP_SENDING was delivered; (3) after the peer closes the \
               connection (every script ends so) no h3 future is pending at the next quiescence. \
               Non-trivial distinct = distinct (script bytes, role, interleaving signature).",
        assumptions: || {
            vec![
                "simquic honours the transport contract (DESIGN.md §1); quiescence = no runnable task and nothing deliverable".into(),
                "the applications are those of sim/apps.rs (documented call pattern); a task parked on the harness's own latch/gate is not an h3 call".into(),
            ]
        },
        gens,
        run_case,
        finish,
    }
}

fn gens(tier: Tier) -> Vec<Gen> {
    vec![
        Gen::exhaustive("fault_at_every_step", n_fault_cases()),
        Gen::new("grammar_mutations", tier.pick(4, 12_000, 1_000_000)),
        Gen::new("byte_mutations", tier.pick(4, 8_000, 600_000)),
        Gen::new("random_scripts", tier.pick(4, 6_000, 400_000)),
        Gen::new("hostile_field_sections", tier.pick(4, 3_000, 150_000)),
        Gen::new("uni_stream_bursts", tier.pick(4, 2_000, 100_000)),
        Gen::new("own_streams_and_setup_under_fire", tier.pick(4, 4_000, 200_000)),
        Gen::new("regressions", 1),
    ]
}

fn finish(tier: Tier, rep: &mut Report) {
    if tier == Tier::Lite {
        return;
    }
    for (k, floor) in [
        ("scripts", 10_000u64),
        ("role[server]", 2_000),
        ("role[client]", 2_000),
        ("polls_under_panic_catcher", 100_000),
        ("quiescence_points_checked", 10_000),
        ("h3_detected_connection_error", 1_000),
        ("stream_end_delivered_while_call_open_checked", 1_000),
        ("fault[Fin]", 50),
        ("fault[Reset]", 50),
        ("fault[Stop]", 50),
        ("fault[Close]", 50),
    ] {
        if rep.get(k) < floor {
            rep.inconclusive(format!("{} = {} below floor {}", k, rep.get(k), floor));
        }
    }
}

// ---------------------------------------------------------------------------------------------
// script bytecode

#[derive(Debug, Clone, PartialEq, Eq, Hash)]
pub enum POp {
    OpenBidi,
    OpenUni,
    Write { slot: u8, data: Vec<u8> },
    Fin { slot: u8 },
    Reset { slot: u8, code: u64 },
    Stop { slot: u8, code: u64 },
    Close { code: u64 },
    /// everything before this marker is done by the peer before the endpoint is polled for the
    /// first time (a first flight that is already queued in the transport)
    Prestage,
}

const CODES: [u64; 8] = [0, 0x100, 0x101, 0x10c, 0x10d, 0x10e, 0x200, (1 << 62) - 1];

/// Serialise a script (for corpora / the fuzz target).
pub fn encode(ops: &[POp]) -> Vec<u8> {
    let mut b = Vec::new();
    for op in ops {
        match op {
            POp::OpenBidi => b.push(0),
            POp::OpenUni => b.push(1),
            POp::Write { slot, data } => {
                b.push(2);
                b.push(*slot);
                let l = data.len().min(0xffff);
                b.push((l >> 8) as u8);
                b.push(l as u8);
                b.extend_from_slice(&data[..l]);
            }
            POp::Fin { slot } => b.extend([3, *slot]),
            POp::Reset { slot, code } => b.extend([4, *slot, CODES.iter().position(|c| c == code).unwrap_or(0) as u8]),
            POp::Stop { slot, code } => b.extend([5, *slot, CODES.iter().position(|c| c == code).unwrap_or(0) as u8]),
            POp::Close { code } => b.extend([6, CODES.iter().position(|c| c == code).unwrap_or(0) as u8]),
            POp::Prestage => b.push(7),
        }
    }
    b
}

/// Total function from arbitrary bytes to a script.
pub fn decode(b: &[u8]) -> Vec<POp> {
    let mut ops = Vec::new();
    let mut i = 0;
    let get = |i: &mut usize| -> u8 {
        let v = b.get(*i).copied().unwrap_or(0);
        *i += 1;
        v
    };
    while i < b.len() && ops.len() < 64 {
        let op = get(&mut i) % 8;
        match op {
            0 => ops.push(POp::OpenBidi),
            1 => ops.push(POp::OpenUni),
            2 => {
                let slot = get(&mut i);
                let want = (get(&mut i) as usize) << 8 | get(&mut i) as usize;
                let start = i.min(b.len());
                let l = want.min(b.len() - start);
                ops.push(POp::Write { slot, data: b[start..start + l].to_vec() });
                i = start + l;
            }
            3 => ops.push(POp::Fin { slot: get(&mut i) }),
            4 => {
                let slot = get(&mut i);
                ops.push(POp::Reset { slot, code: CODES[get(&mut i) as usize % CODES.len()] });
            }
            5 => {
                let slot = get(&mut i);
                ops.push(POp::Stop { slot, code: CODES[get(&mut i) as usize % CODES.len()] });
            }
            7 => ops.push(POp::Prestage),
            _ => {
                ops.push(POp::Close { code: CODES[get(&mut i) as usize % CODES.len()] });
                break;
            }
        }
    }
    ops
}

// ---------------------------------------------------------------------------------------------
// building blocks and skeletons

fn blk_settings(rng: &mut Rng) -> Vec<u8> {
    let mut e = vec![];
    if rng.bool() {
        e.push((rf::S_MAX_FIELD_SECTION_SIZE, *rng.pick(&[0u64, 100, 1 << 16, (1 << 62) - 1])));
    }
    if rng.chance(1, 3) {
        e.push((0x21 + 0x1f * rng.below(100), rng.below(1000)));
    }
    if rng.chance(1, 4) {
        e.push((rf::S_H3_DATAGRAM, rng.below(2)));
    }
    let mut v = vec![0x00];
    v.extend(rf::settings_frame(&e));
    v
}

fn blk_request_headers(rng: &mut Rng) -> Vec<u8> {
    let mut f: Vec<rq::Field> = vec![
        (b":method".to_vec(), rng.pick(&[&b"GET"[..], b"POST", b"CONNECT"]).to_vec()),
        (b":scheme".to_vec(), b"https".to_vec()),
        (b":authority".to_vec(), b"example.com".to_vec()),
        (b":path".to_vec(), b"/x".to_vec()),
    ];
    if rng.bool() {
        f.push((b"x-h".to_vec(), rng.bytes_upto(20).into_iter().map(|b| 0x21 + b % 0x5e).collect()));
    }
    raw::headers_frame(&rq::encode_section(&f, &rq::EncOpts { huffman: rng.bool(), ..Default::default() }))
}

fn blk_response_headers(rng: &mut Rng) -> Vec<u8> {
    let f: Vec<rq::Field> = vec![(b":status".to_vec(), rng.pick(&[&b"200"[..], b"404", b"100", b"599"]).to_vec())];
    raw::headers_frame(&rq::encode_section(&f, &rq::EncOpts { huffman: rng.bool(), ..Default::default() }))
}

fn blk_trailers(rng: &mut Rng) -> Vec<u8> {
    raw::headers_frame(&rq::encode_section(&[(b"x-t".to_vec(), vec![b'a'; rng.usize(10)])], &rq::EncOpts::default()))
}

fn blk_data(rng: &mut Rng) -> Vec<u8> {
    let l = *rng.pick(&[0usize, 1, 5, 63, 64, 300]);
    raw::data_frame(&rng.bytes(l))
}

/// hostile building blocks (grammar-level mutations pick from these)
fn blk_hostile(rng: &mut Rng) -> Vec<u8> {
    match rng.below(17) {
        0 => {
            // DATA header declaring more than follows
            let mut v = rf::frame_forms(rf::T_DATA, 1, 5 + rng.below(1 << 20), *rng.pick(&[4usize, 8]), &[]).unwrap();
            v.extend(rng.bytes_upto(4));
            v
        }
        1 => rf::frame(*rng.pick(&[0x2u64, 0x6, 0x8, 0x9]), &rng.bytes_upto(6)),
        2 => {
            // HEADERS with a random QPACK block
            let n = rng.usize(24);
            raw::headers_frame(&rng.bytes(n))
        }
        3 => {
            // HEADERS whose literal has a broken Huffman string
            let mut s = vec![0u8, 0u8];
            rq::str_encode(4, 0b0010, b"x", false, &mut s);
            let p: Vec<u8> = match rng.below(6) {
                0 => vec![0xff, 0xff, 0xff, 0xff],
                1 => vec![0x03, 0x0a],
                // EOS (30 one-bits) on a symbol boundary followed by more bits
                2 => vec![0xff; 5 + rng.usize(4)],
                3 => vec![0x1f, 0xff, 0xff, 0xff, 0xe3, 0x1f],
                4 => {
                    let mut v = rng.bytes_1upto(3);
                    v.extend([0xff; 5]);
                    v.extend(rng.bytes_upto(2));
                    v
                }
                _ => rng.bytes_1upto(8),
            };
            rq::int_encode(7, 1, p.len() as u64, &mut s);
            s.extend(p);
            raw::headers_frame(&s)
        }
        4 => rf::varint_frame(*rng.pick(&[rf::T_GOAWAY, rf::T_MAX_PUSH_ID, rf::T_CANCEL_PUSH]), *rng.pick(&[0u64, 1, 4, 5, 1 << 30, (1 << 62) - 1])),
        5 => {
            // fixed-field frame with a wrong length
            let ty = *rng.pick(&[rf::T_GOAWAY, rf::T_MAX_PUSH_ID, rf::T_CANCEL_PUSH, rf::T_SETTINGS, rf::T_PUSH_PROMISE]);
            rf::frame(ty, &rng.bytes_upto(5))
        }
        6 => {
            let mut p = rv::encode(rng.below(100)).unwrap();
            p.extend(rng.bytes_upto(12));
            rf::frame(rf::T_PUSH_PROMISE, &p)
        }
        7 => {
            // WebTransport bidi signal / uni type with a session id
            let mut v = rv::encode(*rng.pick(&[0x41u64, 0x54])).unwrap();
            v.extend(rv::encode(rng.below(1 << 20)).unwrap());
            v.extend(rng.bytes_upto(8));
            v
        }
        8 => {
            // huge length varints in the 8-byte form
            let mut v = rv::encode_form(*rng.pick(&[0u64, 1, 4, 7, 0x21]), *rng.pick(&[1usize, 8])).unwrap();
            v.extend(rv::encode_form((1 << 62) - 1 - rng.below(4), 8).unwrap());
            v
        }
        9 => {
            // QPACK encoder / decoder stream with instructions
            let mut v = vec![*rng.pick(&[0x02u8, 0x03])];
            v.extend(rng.bytes_upto(16));
            v
        }
        10 => rf::settings_frame(&[(*rng.pick(&[0u64, 2, 3, 4, 5, 6, 6, 0x33]), rng.below(5)), (6, 1)]),
        11 => rf::frame(0x21 + 0x1f * rng.below(1 << 40), &rng.bytes_upto(10)),
        12 => {
            // HEADERS with a valid prefix and dynamic-table references
            let mut s = vec![*rng.pick(&[0u8, 1, 5]), *rng.pick(&[0u8, 0x80, 3])];
            s.extend([0x80 | rng.below(64) as u8, 0x10 | rng.below(16) as u8]);
            raw::headers_frame(&s)
        }
        13 => {
            // truncated varint at the very end
            let v = rv::encode_form(rng.below(1 << 30), 8).unwrap();
            v[..1 + rng.usize(7)].to_vec()
        }
        14 => raw::headers_frame(&raw::simple_response_headers(*rng.pick(&[100u16, 103, 200]))),
        15 => {
            // HEADERS whose field section prefix carries boundary values (prefixed integers up to 2^64-1)
            let vals: [u64; 8] = [0, 1, 1 << 31, 1 << 62, (1 << 63) - 1, 1 << 63, u64::MAX - 1, u64::MAX];
            let mut sec = Vec::new();
            rq::int_encode(8, 0, *rng.pick(&vals), &mut sec);
            rq::int_encode(7, rng.below(2) as u8, *rng.pick(&vals), &mut sec);
            if rng.bool() {
                sec.push(0xd1);
            }
            raw::headers_frame(&sec)
        }
        _ => rng.bytes_1upto(24),
    }
}

/// A HEADERS frame whose field section is validly QPACK-encoded but hostile at the field level:
/// what `Header::try_from` / `into_request_parts` / `into_response_parts` see after decoding.
fn blk_hostile_fields(request: bool, rng: &mut Rng) -> Vec<u8> {
    let mut f: Vec<rq::Field> = if request {
        vec![
            (b":method".to_vec(), b"GET".to_vec()),
            (b":scheme".to_vec(), b"https".to_vec()),
            (b":authority".to_vec(), b"example.com".to_vec()),
            (b":path".to_vec(), b"/x".to_vec()),
        ]
    } else {
        vec![(b":status".to_vec(), b"200".to_vec())]
    };
    let mut o = rq::EncOpts { huffman: rng.bool(), ..Default::default() };
    let kind = rng.below(14);
    match kind {
        0 => f.push((vec![], rng.bytes_upto(3))),
        1 => f.push((b"X-Upper".to_vec(), b"v".to_vec())),
        2 => {
            let bad = *rng.pick(&[b' ', 0u8, 0x80, b':', b'\n', 0x7f, b'(']);
            let at = rng.usize(3);
            let mut n = b"xy".to_vec();
            n.insert(at.min(2), bad);
            f.push((n, b"v".to_vec()));
        }
        3 => f.push((rng.pick(&[&b":foo"[..], b":", b":Method", b":status ", b":protocol"]).to_vec(), b"v".to_vec())),
        4 => {
            f.push((b"x-a".to_vec(), b"1".to_vec()));
            f.push((rng.pick(&[&b":path"[..], b":status", b":method", b":authority"]).to_vec(), b"/late".to_vec()));
        }
        5 => {
            let i = rng.usize(f.len());
            let d = f[i].clone();
            f.push((d.0, rng.pick(&[&b"other"[..], b"", b"GET", b"200"]).to_vec()));
        }
        6 => {
            let i = rng.usize(f.len());
            f[i].1 = vec![];
        }
        7 => {
            let i = rng.usize(f.len());
            f[i].1 = match rng.below(5) {
                0 => rng.bytes_upto(6),
                1 => b"99".to_vec(),
                2 => b"1000".to_vec(),
                3 => b"\xff\xfe".to_vec(),
                _ => vec![b'a'; 70_000],
            };
        }
        8 => {
            let bad = *rng.pick(&[0u8, b'\r', b'\n', 0x7f, 0x80, 0xff, b'\t', b' ']);
            f.push((b"x-v".to_vec(), vec![b'a', bad, b'b']));
        }
        9 => {
            // very many field lines: the decoded list is larger than anything `http::HeaderMap` accepts
            let n = *rng.pick(&[24_576usize, 24_577, 32_768, 32_769, 40_000]);
            let mut sec = vec![0u8, 0u8];
            if rng.bool() {
                for (k, v) in &f {
                    rq::encode_line(k, v, &o, &mut sec);
                }
            }
            let line = 0xc0 | *rng.pick(&[2u8, 29, 31, 46, 53]); // indexed static, ordinary fields
            sec.extend(std::iter::repeat(line).take(n));
            return raw::headers_frame(&sec);
        }
        10 => {
            // very many distinct names
            let n = *rng.pick(&[24_577usize, 32_769, 33_000]);
            let mut sec = vec![0u8, 0u8];
            for (k, v) in &f {
                rq::encode_line(k, v, &o, &mut sec);
            }
            o.huffman = false;
            for i in 0..n {
                rq::encode_line(format!("x{:x}", i).as_bytes(), b"", &o, &mut sec);
            }
            return raw::headers_frame(&sec);
        }
        11 => {
            let l = *rng.pick(&[65_535usize, 65_536, 70_000]);
            f.push((vec![b'n'; l], b"v".to_vec()));
        }
        12 => {
            // a required pseudo-header is missing, or the other role's is present
            if rng.bool() && !f.is_empty() {
                let i = rng.usize(f.len());
                f.remove(i);
            } else if request {
                f.push((b":status".to_vec(), b"200".to_vec()));
            } else {
                f.push((b":method".to_vec(), b"GET".to_vec()));
            }
        }
        _ => {
            if request {
                f[0].1 = b"CONNECT".to_vec();
                match rng.below(3) {
                    0 => {}
                    1 => f.push((b":protocol".to_vec(), rng.pick(&[&b"webtransport"[..], b"", b"connect-udp", b"\x00"]).to_vec())),
                    _ => {
                        f.remove(3);
                        f.remove(1);
                    }
                }
                f.push((b"host".to_vec(), rng.pick(&[&b"example.com"[..], b"other", b"", b"example.com:443"]).to_vec()));
            } else {
                f[0].1 = rng.pick(&[&b"101"[..], b"100", b"199", b"000", b"2 0"]).to_vec();
            }
        }
    }
    if rng.chance(1, 4) {
        o.use_static_exact = false;
        o.use_static_name = rng.bool();
    }
    raw::headers_frame(&rq::encode_section(&f, &o))
}

/// A valid scenario for `h3_is_server` with `nreq` requests. Slots: raw client: slot 0 = control
/// stream, then one bidi per request (slots 1..); raw server: slot 0 = control, bidi slots 1.. refer
/// to the client's request streams.
pub fn skeleton(h3_is_server: bool, nreq: usize, variant: u64, rng: &mut Rng) -> Vec<POp> {
    let mut ops = vec![POp::OpenUni, POp::Write { slot: 0, data: blk_settings(rng) }];
    let mut next_slot = 1u8;
    if variant & 1 == 1 {
        // an unknown / grease stream
        ops.push(POp::OpenUni);
        ops.push(POp::Write { slot: next_slot, data: { let mut v = rv::encode(0x21 + 0x1f * 7).unwrap(); v.extend(b"grease"); v } });
        ops.push(POp::Fin { slot: next_slot });
        next_slot += 1;
    }
    if variant & 2 == 2 {
        for ty in [0x02u8, 0x03] {
            ops.push(POp::OpenUni);
            ops.push(POp::Write { slot: next_slot, data: vec![ty] });
            next_slot += 1;
        }
    }
    for _ in 0..nreq {
        if h3_is_server {
            ops.push(POp::OpenBidi);
        }
        let slot = next_slot;
        next_slot += 1;
        let head = if h3_is_server { blk_request_headers(rng) } else { blk_response_headers(rng) };
        ops.push(POp::Write { slot, data: head });
        if variant & 4 == 4 {
            ops.push(POp::Write { slot, data: blk_data(rng) });
            ops.push(POp::Write { slot, data: blk_data(rng) });
        }
        if variant & 8 == 8 {
            ops.push(POp::Write { slot, data: blk_trailers(rng) });
        }
        ops.push(POp::Fin { slot });
    }
    if variant & 16 == 16 {
        ops.push(POp::Write { slot: 0, data: rf::varint_frame(rf::T_GOAWAY, 0) });
    }
    ops
}

const N_SKELETONS: u64 = 2 * 3 * 32; // role x nreq x variant
const MAX_SKELETON_STEPS: u64 = 24;
const FAULT_KINDS: u64 = 4;

fn n_fault_cases() -> u64 {
    N_SKELETONS * MAX_SKELETON_STEPS * FAULT_KINDS
}

// ---------------------------------------------------------------------------------------------
// running a script

pub struct Outcome {
    pub panic: Option<(String, crate::panics::PanicInfo)>,
    pub stuck: Vec<String>,
    pub pending_after_close: Vec<String>,
    pub step_cap: bool,
    pub sig: u64,
    pub polls: u64,
    pub quiescence_points: u64,
    pub h3_error_close: Option<u64>,
    pub stream_end_checks: u64,
    pub close_reason: String,
}

fn reading_op(op: &str) -> bool {
    matches!(op, "resolve_request" | "recv_response" | "recv_data" | "recv_trailers")
}
fn writing_op(op: &str) -> bool {
    matches!(op, "send_response" | "send_data" | "send_trailers" | "finish")
}

/// stream id an actor works on
fn actor_stream(actor: &str, probe: &Probe) -> Option<u64> {
    if let Some(rest) = actor.strip_prefix("s:req@") {
        return rest.split(':').next().and_then(|s| s.parse().ok());
    }
    if let Some(rest) = actor.strip_prefix("c:req#") {
        let base = format!("c:req#{}", rest.split(':').next().unwrap_or(""));
        return probe.events().iter().find_map(|e| if e.actor == base { if let Out::Opened(s) = e.out { Some(s) } else { None } } else { None });
    }
    None
}

/// Conditions that hold before the endpoint is polled for the first time, and faults the peer or the
/// path raises on the streams h3 itself opened (control, QPACK encoder/decoder, grease) - none of which
/// a script slot can address.
#[derive(Debug, Clone, Default, PartialEq, Eq, Hash)]
pub struct Pre {
    /// unidirectional stream credit h3 starts with (None = unlimited) and whether more is granted later
    pub uni_credit: Option<(u64, bool)>,
    /// the peer's close (code) was delivered before the first poll
    pub closed_before_first_poll: Option<u64>,
    /// the idle timeout fired: before the first poll (Some(0)) or once the network clock reaches t
    pub timeout_at: Option<u64>,
    /// STOP_SENDING(code) on the k-th unidirectional stream h3 opened, sent as soon as it exists
    pub stop_own_uni: Vec<(u8, u64)>,
    /// what h3 writes goes out against back-pressure
    pub force_backpressure: bool,
}

pub fn run_script(ops: &[POp], h3_is_server: bool, split: bool, nreq_client: usize, seed: u64) -> Outcome {
    run_script_pre(ops, h3_is_server, split, nreq_client, seed, &Pre::default())
}

pub fn run_script_pre(ops: &[POp], h3_is_server: bool, split: bool, nreq_client: usize, seed: u64, pre: &Pre) -> Outcome {
    let mut rng = Rng::new(seed);
    let mut cfg = NetCfg::random(&mut rng);
    // what h3 writes (SETTINGS, responses, requests, grease) goes out against back-pressure in a
    // third of the scripts: partial writes inside frame headers and payloads
    cfg.backpressure = rng.chance(1, 3) || pre.force_backpressure;
    cfg.ordered_accept = rng.bool();
    if ops.iter().any(|o| matches!(o, POp::Write { data, .. } if data.len() > 3000)) {
        // h3's BufList::remaining is linear in the number of chunks; tiny chunks of a big write make
        // one case take minutes without adding anything this property is about
        cfg.chunk_style = 0;
    }
    let net = sim::new_net(cfg);
    let h3_side = if h3_is_server { SERVER } else { CLIENT };
    let raw_side = raw::other(h3_side);
    {
        let mut n = lock(&net);
        raw::mark_raw(&mut n, raw_side);
        if let Some((k, more_later)) = pre.uni_credit {
            n.sides[h3_side].uni_credit = k;
            if !more_later {
                n.sides[h3_side].credit_grants_left = 0;
            }
        }
        if let Some(code) = pre.closed_before_first_poll {
            n.close(raw_side, code, b"closed before the first poll");
            let mut srng = Rng::new(seed ^ 0x51);
            if n.enabled_actions().iter().any(|a| matches!(a, sim::NetAction::DeliverClose)) {
                n.apply(sim::NetAction::DeliverClose, &mut srng);
            }
        }
        if pre.timeout_at == Some(0) {
            n.timeout(h3_side);
        }
    }
    let probe = Probe::new(&net);
    let mut sched = Sched::new(net.clone(), rng.next());
    for (k, code) in pre.stop_own_uni.iter().copied() {
        let id = sim::make_id(h3_side, false, k as u64);
        sched.add_script(vec![raw::step_custom(
            "stop_sending on a stream h3 opened",
            move |n| n.streams.get(&id).map(|s| s.pipes[h3_side].is_some()).unwrap_or(false),
            move |n, _| n.raw_stop(raw_side, id, code),
        )]);
    }
    if let Some(t) = pre.timeout_at.filter(|t| *t > 0) {
        sched.add_script(vec![raw::step_custom("idle timeout fires", move |n| n.time >= t && n.closed.is_none(), move |n, _| n.timeout(h3_side))]);
    }
    // translate the script: slots are resolved when the step runs
    let slots: std::rc::Rc<std::cell::RefCell<Vec<u64>>> = Default::default();
    let mut steps: Vec<ScriptStep> = Vec::new();
    let mut closes = false;
    // raw server: bidi "opens" refer to the client's request streams, in order
    let mut client_stream_idx = 0u64;
    let mut planned_slots: Vec<Option<u64>> = Vec::new(); // Some(id) when the id is known statically (client's streams)
    let mut prestaged_steps = 0usize;
    for op in ops {
        match op.clone() {
            POp::Prestage => {
                prestaged_steps = steps.len();
            }
            POp::OpenBidi => {
                if h3_is_server {
                    let s = slots.clone();
                    planned_slots.push(None);
                    steps.push(raw::step_custom("open bidi", |_| true, move |n, _| {
                        let id = n.raw_open(CLIENT, true);
                        s.borrow_mut().push(id);
                    }));
                } else {
                    // a server cannot open request streams; opening a server-initiated bidi stream is hostile but legal QUIC
                    let s = slots.clone();
                    planned_slots.push(None);
                    steps.push(raw::step_custom("open server bidi", |_| true, move |n, _| {
                        let id = n.raw_open(SERVER, true);
                        s.borrow_mut().push(id);
                    }));
                }
            }
            POp::OpenUni => {
                let s = slots.clone();
                planned_slots.push(None);
                steps.push(raw::step_custom("open uni", |_| true, move |n, _| {
                    let id = n.raw_open(raw_side, false);
                    s.borrow_mut().push(id);
                }));
            }
            other => {
                // resolve the slot: raw server scripts address the client's streams through slots
                // beyond the ones they opened themselves
                let slot_of = |slot: u8, planned: &Vec<Option<u64>>, csi: &mut u64| -> (Option<usize>, Option<u64>) {
                    if planned.is_empty() && h3_is_server {
                        return (None, None);
                    }
                    let n_own = planned.len();
                    let sl = slot as usize;
                    if !h3_is_server && sl >= n_own {
                        // k-th client request stream
                        let k = (sl - n_own) as u64 % 3;
                        *csi = (*csi).max(k + 1);
                        (None, Some(4 * k))
                    } else if n_own > 0 {
                        (Some(sl % n_own), None)
                    } else {
                        (None, None)
                    }
                };
                let (own, fixed) = match &other {
                    POp::Write { slot, .. } | POp::Fin { slot } | POp::Reset { slot, .. } | POp::Stop { slot, .. } => slot_of(*slot, &planned_slots, &mut client_stream_idx),
                    _ => (None, None),
                };
                let s = slots.clone();
                let resolve = move |n: &sim::NetInner| -> Option<u64> {
                    let id = match (own, fixed) {
                        (Some(i), _) => s.borrow().get(i).copied(),
                        (_, Some(id)) => Some(id),
                        _ => None,
                    }?;
                    if n.streams.contains_key(&id) {
                        Some(id)
                    } else {
                        None
                    }
                };
                match other {
                    POp::Write { data, .. } => {
                        if own.is_none() && fixed.is_none() {
                            continue;
                        }
                        let r1 = resolve.clone();
                        let r2 = resolve.clone();
                        steps.push(raw::step_custom("write", move |n| r1(n).is_some(), move |n, _| {
                            if let Some(id) = r2(n) {
                                if n.streams[&id].pipes[raw_side].is_some() {
                                    n.raw_write(raw_side, id, &data);
                                }
                            }
                        }));
                    }
                    POp::Fin { .. } => {
                        if own.is_none() && fixed.is_none() {
                            continue;
                        }
                        let r1 = resolve.clone();
                        let r2 = resolve.clone();
                        steps.push(raw::step_custom("fin", move |n| r1(n).is_some(), move |n, _| {
                            if let Some(id) = r2(n) {
                                if n.streams[&id].pipes[raw_side].is_some() {
                                    n.raw_fin(raw_side, id);
                                }
                            }
                        }));
                    }
                    POp::Reset { code, .. } => {
                        if own.is_none() && fixed.is_none() {
                            continue;
                        }
                        let r1 = resolve.clone();
                        let r2 = resolve.clone();
                        steps.push(raw::step_custom("reset", move |n| r1(n).is_some(), move |n, _| {
                            if let Some(id) = r2(n) {
                                if n.streams[&id].pipes[raw_side].is_some() {
                                    n.raw_reset(raw_side, id, code);
                                }
                            }
                        }));
                    }
                    POp::Stop { code, .. } => {
                        if own.is_none() && fixed.is_none() {
                            continue;
                        }
                        let r1 = resolve.clone();
                        let r2 = resolve.clone();
                        steps.push(raw::step_custom("stop_sending", move |n| r1(n).is_some(), move |n, _| {
                            if let Some(id) = r2(n) {
                                // only meaningful where the h3 side sends
                                if n.streams[&id].pipes[1 - raw_side].is_some() {
                                    n.raw_stop(raw_side, id, code);
                                }
                            }
                        }));
                    }
                    POp::Close { code } => {
                        closes = true;
                        steps.push(raw::step_close(raw_side, code));
                    }
                    _ => {}
                }
            }
        }
        if closes {
            break;
        }
    }
    // the first flight: done before anything of h3 runs
    if prestaged_steps > 0 {
        let mut n = lock(&net);
        let mut srng = Rng::new(seed ^ 0x9e37);
        for st in steps.drain(..prestaged_steps) {
            if (st.ready)(&n) {
                n.time += 1;
                (st.run)(&mut n, &mut srng);
            }
        }
        // and delivered, as far as the network model lets bytes and stream ends through at once
        for _ in 0..10_000 {
            let acts = n.enabled_actions();
            let Some(a) = acts.into_iter().find(|a| matches!(a, sim::NetAction::Deliver { .. } | sim::NetAction::DeliverFin { .. } | sim::NetAction::DeliverReset { .. })) else { break };
            n.apply(a, &mut srng);
        }
    }
    sched.add_script(steps);
    let sp = sched.spawner.clone();
    if h3_is_server {
        let sopts = ServerOpts {
            default_plan: RespPlan {
                resp: Msg { status: 200, body: vec![b"response body".to_vec(), vec![1; 40]], trailers: if rng.bool() { Some(vec![("x-t".into(), b"1".to_vec())]) } else { None }, ..Default::default() },
                split,
                ..Default::default()
            },
            ..Default::default()
        };
        sched.spawn("s:conn", apps::server_main::<Bytes>(net.clone(), sopts, probe.clone(), sp));
    } else {
        let reqs = (0..nreq_client.max(1))
            .map(|i| ReqPlan {
                req: Msg { method: if i % 2 == 0 { "GET".into() } else { "POST".into() }, uri: "https://example.com/r".into(), body: if i % 2 == 0 { vec![] } else { vec![b"request body".to_vec(), vec![2; 100]] }, ..Default::default() },
                split,
                ..Default::default()
            })
            .collect();
        let copts = ClientOpts { reqs, sequential: rng.bool(), ..Default::default() };
        sched.spawn("c:conn", apps::client_main::<Bytes>(net.clone(), copts, probe.clone(), sp));
    }
    let mut out = Outcome { panic: None, stuck: vec![], pending_after_close: vec![], step_cap: false, sig: 0, polls: 0, quiescence_points: 0, h3_error_close: None, stream_end_checks: 0, close_reason: String::new() };
    // phase 1: the script
    if sched.run(600_000) == RunEnd::StepCap {
        out.step_cap = true;
    }
    out.quiescence_points += 1;
    // stream rule at quiescence
    if !out.step_cap {
        let n = lock(&net);
        if n.closed.is_none() {
            // a driver that is waiting must have drained what the transport has queued for it: a
            // pending accept means its last poll of the transport's accept calls returned Pending
            let driver = if h3_is_server { ("s:conn", "accept") } else { ("c:driver", "wait_idle") };
            if probe.open().get(driver.0).map(|(op, _)| *op) == Some(driver.1) {
                let q_uni = n.sides[h3_side].accept_q_uni.len();
                out.stream_end_checks += 1;
                if q_uni > 0 {
                    out.stuck.push(format!("{} {} pending although {} incoming unidirectional stream(s) are queued in the transport for it (nothing will wake it)", driver.0, driver.1, q_uni));
                }
            }
            for (actor, (op, _)) in probe.open() {
                let Some(sid) = actor_stream(&actor, &probe) else { continue };
                let Some(s) = n.streams.get(&sid) else { continue };
                if reading_op(op) {
                    if let Some(p) = s.pipes[raw_side].as_ref() {
                        out.stream_end_checks += 1;
                        if p.fin_delivered || p.reset_delivered {
                            out.stuck.push(format!("{} {} pending although the peer's {} on stream {} was delivered", actor, op, if p.reset_delivered { "RESET" } else { "FIN" }, sid));
                        }
                    }
                }
                if writing_op(op) {
                    if let Some(p) = s.pipes[h3_side].as_ref() {
                        out.stream_end_checks += 1;
                        if p.stop_delivered {
                            out.stuck.push(format!("{} {} pending although the peer's STOP_SENDING on stream {} was delivered", actor, op, sid));
                        }
                    }
                }
            }
        }
    }
    // phase 2: the peer closes the connection (if the script did not)
    {
        let mut n = lock(&net);
        if n.closed.is_none() {
            n.close(raw_side, rf::H3_NO_ERROR, b"end of script");
        }
    }
    if sched.run(600_000) == RunEnd::StepCap {
        out.step_cap = true;
    }
    out.quiescence_points += 1;
    if !out.step_cap {
        let open = probe.open();
        for t in sched.pending_tasks() {
            let what = open.get(t).map(|(op, _)| *op).unwrap_or("?");
            out.pending_after_close.push(format!("{} ({})", t, what));
        }
    }
    out.panic = sched.first_panic().map(|(t, p)| (t.to_string(), p.clone()));
    out.sig = sched.sig;
    out.polls = sched.task_polls;
    let n = lock(&net);
    out.h3_error_close = n.closed.as_ref().filter(|c| c.by == h3_side && c.code != rf::H3_NO_ERROR).map(|c| c.code);
    out.close_reason = n.closed.as_ref().map(|c| String::from_utf8_lossy(&c.reason).to_string()).unwrap_or_default();
    out
}

fn viol(rep: &mut Report, rule: &str, detail: String, case: &serde_json::Value) {
    rep.violation(format!("C06/{}", rule), detail, case.clone());
}

fn op_short(op: &POp) -> String {
    match op {
        POp::Write { slot, data } => format!("write[{}] {}", slot, hex_short(data, 12)),
        other => format!("{:?}", other),
    }
}

pub fn check_script(ops: &[POp], h3_is_server: bool, split: bool, nreq_client: usize, seed: u64, rep: &mut Report) {
    check_script_pre(ops, h3_is_server, split, nreq_client, seed, &Pre::default(), rep)
}

pub fn check_script_pre(ops: &[POp], h3_is_server: bool, split: bool, nreq_client: usize, seed: u64, pre: &Pre, rep: &mut Report) {
    rep.evaluations += 1;
    rep.count("scripts");
    rep.count(if h3_is_server { "role[server]" } else { "role[client]" });
    let mut case = json!({"h3_role": if h3_is_server { "server" } else { "client" }, "split": split, "client_requests": nreq_client,
                      "script": ops.iter().map(op_short).collect::<Vec<_>>(), "script_bytes": hex_short(&encode(ops), 200)});
    if *pre != Pre::default() {
        case["before_and_beside_the_script"] = json!(format!("{:?}", pre));
    }
    let o = run_script_pre(ops, h3_is_server, split, nreq_client, seed, pre);
    rep.add("polls_under_panic_catcher", o.polls);
    rep.add("quiescence_points_checked", o.quiescence_points);
    rep.add("stream_end_delivered_while_call_open_checked", o.stream_end_checks);
    rep.sig(hash64(&(ops, h3_is_server, split, o.sig, pre)));
    rep.sig_in("interleaving_signatures", o.sig);
    if let Some(c) = o.h3_error_close {
        rep.count("h3_detected_connection_error");
        rep.count(&format!("h3_close_code[{:#x}]", c));
        if c == rf::H3_INTERNAL_ERROR && rep.verbose {
            eprintln!("INTERNAL_ERROR case: {} reason {:?}", case, o.close_reason);
        }
    }
    if let Some((task, p)) = &o.panic {
        viol(rep, &format!("panic[{} {}]", p.file(), p.msg_key()), format!("task {} panicked: {} at {}", task, p.msg, p.loc), &case);
        return;
    }
    if o.step_cap {
        rep.inconclusive("step cap reached");
        return;
    }
    if let Some(s) = o.stuck.first() {
        let kind = if s.contains("queued in the transport") { "driver-pending-with-streams-queued" } else if s.contains("STOP_SENDING") { "write-pending-after-STOP_SENDING" } else { "read-pending-after-stream-end" };
        let op = s.split(' ').nth(1).unwrap_or("?");
        viol(rep, &format!("{}[{}]", kind, op), s.clone(), &case);
        return;
    }
    if let Some(s) = o.pending_after_close.first() {
        let op = s.split('(').nth(1).unwrap_or("?").trim_end_matches(')');
        viol(rep, &format!("pending-after-connection-close[{}]", op), format!("after the peer closed the connection these tasks never finished: {:?}", o.pending_after_close), &case);
        return;
    }
    if rep.want_sample() && ops.len() <= 8 && o.h3_error_close.is_some() {
        rep.sample(json!({"case": case, "h3_closed_with": o.h3_error_close.map(|c| format!("{:#x}", c)), "polls": o.polls}));
    }
}

fn mutate_grammar(ops: &mut Vec<POp>, rng: &mut Rng) {
    if ops.is_empty() {
        return;
    }
    match rng.below(10) {
        0 => {
            // replace a write by a hostile block
            let idx: Vec<usize> = ops.iter().enumerate().filter(|(_, o)| matches!(o, POp::Write { .. })).map(|(i, _)| i).collect();
            if let Some(i) = idx.get(rng.usize(idx.len().max(1))) {
                if let POp::Write { data, .. } = &mut ops[*i] {
                    *data = blk_hostile(rng);
                }
            }
        }
        1 => {
            // insert a hostile block on a random slot
            let at = rng.usize(ops.len() + 1);
            ops.insert(at, POp::Write { slot: rng.below(5) as u8, data: blk_hostile(rng) });
        }
        2 => {
            // truncate a write
            let idx: Vec<usize> = ops.iter().enumerate().filter(|(_, o)| matches!(o, POp::Write { .. })).map(|(i, _)| i).collect();
            if let Some(i) = idx.get(rng.usize(idx.len().max(1))) {
                if let POp::Write { data, .. } = &mut ops[*i] {
                    let c = rng.usize(data.len() + 1);
                    data.truncate(c);
                }
            }
        }
        3 => {
            // duplicate an op
            let i = rng.usize(ops.len());
            let o = ops[i].clone();
            ops.insert(i, o);
        }
        4 => {
            // swap two ops
            let i = rng.usize(ops.len());
            let j = rng.usize(ops.len());
            ops.swap(i, j);
        }
        5 => {
            // remove an op
            let i = rng.usize(ops.len());
            ops.remove(i);
        }
        6 => {
            // inject a fault op
            let at = rng.usize(ops.len() + 1);
            let slot = rng.below(5) as u8;
            let f = match rng.below(4) {
                0 => POp::Fin { slot },
                1 => POp::Reset { slot, code: *rng.pick(&CODES) },
                2 => POp::Stop { slot, code: *rng.pick(&CODES) },
                _ => POp::Close { code: *rng.pick(&CODES) },
            };
            ops.insert(at, f);
        }
        7 => {
            // change a length varint inside a write: bump the second byte
            let idx: Vec<usize> = ops.iter().enumerate().filter(|(_, o)| matches!(o, POp::Write { .. })).map(|(i, _)| i).collect();
            if let Some(i) = idx.get(rng.usize(idx.len().max(1))) {
                if let POp::Write { data, .. } = &mut ops[*i] {
                    if data.len() > 1 {
                        data[1] = data[1].wrapping_add(*rng.pick(&[1u8, 0xff, 0x40, 0x80, 0xc0]));
                    }
                }
            }
        }
        8 => {
            // extra streams
            ops.push(if rng.bool() { POp::OpenUni } else { POp::OpenBidi });
            ops.push(POp::Write { slot: 200, data: blk_hostile(rng) });
        }
        _ => {
            // a second control / qpack stream
            ops.push(POp::OpenUni);
            ops.push(POp::Write { slot: 250, data: vec![*rng.pick(&[0u8, 2, 3])] });
        }
    }
}

fn mutate_bytes(ops: &mut [POp], rng: &mut Rng) {
    let idx: Vec<usize> = ops.iter().enumerate().filter(|(_, o)| matches!(o, POp::Write { .. })).map(|(i, _)| i).collect();
    if idx.is_empty() {
        return;
    }
    let i = idx[rng.usize(idx.len())];
    if let POp::Write { data, .. } = &mut ops[i] {
        if data.is_empty() {
            data.push(rng.next() as u8);
            return;
        }
        match rng.below(4) {
            0 => {
                let k = rng.usize(data.len());
                data[k] ^= 1 << rng.below(8);
            }
            1 => {
                let k = rng.usize(data.len());
                data[k] = rng.next() as u8;
            }
            2 => {
                let k = rng.usize(data.len() + 1);
                let l = 1 + rng.usize(4);
                let r = rng.bytes(l);
                data.splice(k..k, r);
            }
            _ => {
                let k = rng.usize(data.len());
                data.remove(k);
            }
        }
    }
}

/// Seed inputs for the libFuzzer target `peer_script` (4 header bytes + serialised script).
pub fn fuzz_seeds(n: usize, seed: u64) -> Vec<Vec<u8>> {
    let mut rng = Rng::new(seed ^ 0xC06F);
    let mut out = Vec::new();
    for i in 0..n {
        let h3_is_server = i % 2 == 0;
        let nreq = 1 + (i / 2) % 3;
        let mut ops = skeleton(h3_is_server, nreq, rng.below(32), &mut rng);
        match i % 4 {
            0 => {}
            1 => mutate_grammar(&mut ops, &mut rng),
            2 => mutate_bytes(&mut ops, &mut rng),
            _ => {
                mutate_grammar(&mut ops, &mut rng);
                mutate_grammar(&mut ops, &mut rng);
            }
        }
        let mut b = vec![if h3_is_server { 0u8 } else { 1 } | if rng.bool() { 2 } else { 0 }, (nreq - 1) as u8, rng.below(256) as u8, rng.below(256) as u8];
        b.extend(encode(&ops));
        if b.len() <= 4096 {
            out.push(b);
        }
    }
    out
}

fn run_case(gen: &str, index: u64, seed: u64, _tier: Tier, rep: &mut Report) {
    let mut rng = Rng::new(seed);
    match gen {
        "fault_at_every_step" => {
            let fault = index % FAULT_KINDS;
            let step = (index / FAULT_KINDS) % MAX_SKELETON_STEPS;
            let sk = index / (FAULT_KINDS * MAX_SKELETON_STEPS);
            let h3_is_server = sk % 2 == 0;
            let nreq = 1 + ((sk / 2) % 3) as usize;
            let variant = sk / 6;
            // skeleton content must not depend on the fault position: derive it from the skeleton id
            let mut srng = Rng::new(0xC06 ^ sk);
            let mut ops = skeleton(h3_is_server, nreq, variant, &mut srng);
            if step as usize > ops.len() {
                rep.count("fault_position_beyond_skeleton");
                return;
            }
            let slot = rng.below(1 + nreq as u64 + 3) as u8;
            let f = match fault {
                0 => POp::Fin { slot },
                1 => POp::Reset { slot, code: *rng.pick(&CODES) },
                2 => POp::Stop { slot, code: *rng.pick(&CODES) },
                _ => POp::Close { code: *rng.pick(&CODES) },
            };
            rep.count(&format!("fault[{}]", ["Fin", "Reset", "Stop", "Close"][fault as usize]));
            ops.insert(step as usize, f);
            check_script(&ops, h3_is_server, rng.bool(), nreq, rng.next(), rep);
        }
        "grammar_mutations" => {
            let h3_is_server = rng.bool();
            let nreq = 1 + rng.usize(3);
            let mut ops = skeleton(h3_is_server, nreq, rng.below(32), &mut rng);
            for _ in 0..1 + rng.usize(3) {
                mutate_grammar(&mut ops, &mut rng);
            }
            check_script(&ops, h3_is_server, rng.bool(), nreq, rng.next(), rep);
        }
        "byte_mutations" => {
            let h3_is_server = rng.bool();
            let nreq = 1 + rng.usize(3);
            let mut ops = skeleton(h3_is_server, nreq, rng.below(32), &mut rng);
            for _ in 0..1 + rng.usize(4) {
                mutate_bytes(&mut ops, &mut rng);
            }
            check_script(&ops, h3_is_server, rng.bool(), nreq, rng.next(), rep);
        }
        "uni_stream_bursts" => {
            // a first flight of many unidirectional streams (reserved, unknown, QPACK, push with
            // ids, cut short or complete) ahead of the control stream, queued before the endpoint
            // is polled for the first time or trickling in; then an ordinary scenario
            let h3_is_server = rng.bool();
            let nreq = 1 + rng.usize(2);
            let burst = *rng.pick(&[1usize, 3, 7, 8, 9, 12, 16, 24]);
            let mut ops: Vec<POp> = Vec::new();
            for i in 0..burst {
                ops.push(POp::OpenUni);
                let ty: u64 = match rng.below(6) {
                    0 => 0x21 + 0x1f * rng.below(1 << 20),
                    1 => 0x2a,
                    2 => (1 << 62) - 1 - rng.below(3),
                    3 => 0x54,
                    4 => 0x01,
                    _ => 0x40 + rng.below(64),
                };
                let mut data = rv::encode(ty).unwrap();
                if rng.bool() {
                    data.extend(rv::encode(rng.below(1 << 16)).unwrap());
                    data.extend(rng.bytes_upto(6));
                }
                if rng.chance(1, 5) && data.len() > 1 {
                    data.truncate(1 + rng.usize(data.len() - 1));
                }
                ops.push(POp::Write { slot: i as u8, data });
                if rng.chance(4, 5) {
                    ops.push(POp::Fin { slot: i as u8 });
                } else if rng.bool() {
                    ops.push(POp::Reset { slot: i as u8, code: *rng.pick(&CODES) });
                }
            }
            let shift = |o: POp| -> POp {
                let b = burst as u8;
                match o {
                    POp::Write { slot, data } => POp::Write { slot: slot + b, data },
                    POp::Fin { slot } => POp::Fin { slot: slot + b },
                    POp::Reset { slot, code } => POp::Reset { slot: slot + b, code },
                    POp::Stop { slot, code } => POp::Stop { slot: slot + b, code },
                    other => other,
                }
            };
            let sk = skeleton(h3_is_server, nreq, rng.below(32), &mut rng);
            let stage_all_of_control = rng.bool();
            let prestage = rng.chance(2, 3);
            let mut it = sk.into_iter().map(shift);
            if prestage && !stage_all_of_control {
                ops.push(POp::Prestage);
            }
            // the control stream: its first two ops (open + SETTINGS)
            for _ in 0..2 {
                if let Some(o) = it.next() {
                    ops.push(o);
                }
            }
            if prestage && stage_all_of_control {
                ops.push(POp::Prestage);
            }
            ops.extend(it);
            if rng.chance(1, 3) {
                // the peer ends its control stream: must be noticed (H3_CLOSED_CRITICAL_STREAM)
                ops.push(POp::Fin { slot: burst as u8 });
            }
            rep.count(if prestage { "burst[queued before the first poll]" } else { "burst[trickling in]" });
            check_script(&ops, h3_is_server, rng.bool(), nreq, rng.next(), rep);
        }
        "own_streams_and_setup_under_fire" => {
            // the peer (or the path) acts on what h3 itself opened, or before h3 has done anything:
            // STOP_SENDING on h3's control / QPACK / grease streams (what a compliant peer does to
            // a stream type it does not know), the connection already closed or timed out when
            // build() is first polled, no or little unidirectional stream credit during set-up, the
            // idle timeout at a PRNG-chosen moment. build(), the driver and every request call must
            // return; nothing may panic.
            let h3_is_server = rng.bool();
            let nreq = 1 + rng.usize(2);
            let mut ops = skeleton(h3_is_server, nreq, rng.below(32), &mut rng);
            let mut pre = Pre::default();
            let mut any = false;
            if rng.chance(1, 2) {
                let n = 1 + rng.usize(2);
                for _ in 0..n {
                    pre.stop_own_uni.push((*rng.pick(&[0u8, 0, 1, 2, 3, 3]), *rng.pick(&[0u64, 0x103, 0x10c, (1 << 62) - 1])));
                }
                pre.force_backpressure = rng.bool();
                rep.count("own_stream[stop_sending on a stream h3 opened]");
                any = true;
            }
            if rng.chance(1, 3) {
                pre.uni_credit = Some((rng.below(5), rng.bool()));
                rep.count("setup[unidirectional credit 0..4]");
                any = true;
            }
            match rng.below(if any { 6 } else { 3 }) {
                0 => {
                    pre.closed_before_first_poll = Some(*rng.pick(&CODES));
                    rep.count("setup[peer's close delivered before the first poll]");
                }
                1 => {
                    pre.timeout_at = Some(0);
                    rep.count("setup[timed out before the first poll]");
                }
                2 => {
                    pre.timeout_at = Some(1 + rng.below(60));
                    rep.count("setup[idle timeout at a chosen moment]");
                }
                _ => {}
            }
            if rng.chance(1, 4) {
                let at = rng.usize(ops.len() + 1);
                ops.insert(at, POp::Close { code: *rng.pick(&CODES) });
            }
            check_script_pre(&ops, h3_is_server, rng.bool(), nreq, rng.next(), &pre, rep);
        }
        "hostile_field_sections" => {
            // one HEADERS frame of a valid scenario (head or trailers) replaced by a validly encoded
            // but field-level hostile section
            let h3_is_server = rng.bool();
            let nreq = 1 + rng.usize(2);
            let mut ops = skeleton(h3_is_server, nreq, rng.below(32), &mut rng);
            let idx: Vec<usize> = ops
                .iter()
                .enumerate()
                .filter(|(_, o)| matches!(o, POp::Write { slot, data } if *slot != 0 && data.first() == Some(&0x01)))
                .map(|(i, _)| i)
                .collect();
            if let Some(&i) = idx.get(rng.usize(idx.len().max(1))) {
                // the first HEADERS of a stream is the head, a later one the trailers
                let slot_i = match &ops[i] { POp::Write { slot, .. } => *slot, _ => 0 };
                let first = !ops[..i].iter().any(|o| matches!(o, POp::Write { slot, .. } if *slot == slot_i));
                let as_request = h3_is_server && (first || rng.chance(1, 4));
                let blk = blk_hostile_fields(as_request, &mut rng);
                rep.count(if first { "hostile_fields[head]" } else { "hostile_fields[trailers]" });
                if let POp::Write { data, .. } = &mut ops[i] {
                    *data = blk;
                }
            }
            check_script(&ops, h3_is_server, rng.bool(), nreq, rng.next(), rep);
        }
        "random_scripts" => {
            // arbitrary bytes through the total decoder (what the fuzzer would feed)
            let n = rng.usize(200);
            let mut b = rng.bytes(n);
            // bias: small opcodes and slots
            for x in b.iter_mut() {
                if rng.chance(1, 3) {
                    *x %= 8;
                }
            }
            let ops = decode(&b);
            check_script(&ops, rng.bool(), rng.bool(), 1 + rng.usize(3), rng.next(), rep);
        }
        "regressions" => {
            // DESIGN.md §5: DATA frame cut by FIN after a chunk boundary, then recv_trailers (assert in FrameStream::poll_next)
            let ops = vec![
                POp::OpenUni,
                POp::Write { slot: 0, data: raw::control_preamble(&[]) },
                POp::OpenBidi,
                POp::Write { slot: 1, data: raw::headers_frame(&raw::simple_request_headers()) },
                POp::Write { slot: 1, data: vec![0x00, 0x04, b'x'] },
                POp::Fin { slot: 1 },
            ];
            for s in 0..40 {
                check_script(&ops, true, s % 2 == 0, 1, rng.next(), rep);
            }
        }
        _ => {}
    }
}
