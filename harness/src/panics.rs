//! Panic capture: a process-wide hook stores location + message per thread so monitors can
//! attribute a panic to h3 (path under /repo) or to the harness.

use std::cell::RefCell;

#[derive(Clone, Debug, Default)]
pub struct PanicInfo {
    pub msg: String,
    pub loc: String,
}

impl PanicInfo {
    /// raised from h3 / h3-quinn / h3-datagram / h3-webtransport sources
    pub fn in_repo(&self) -> bool {
        self.loc.starts_with("/repo/") || self.loc.contains("/repo/h3")
    }
    /// location without the column, relative to /repo
    pub fn short_loc(&self) -> String {
        let l = self.loc.trim_start_matches("/repo/");
        let mut parts = l.rsplitn(2, ':');
        let _col = parts.next();
        parts.next().unwrap_or(l).to_string()
    }
    /// file only (line numbers move with unrelated edits; known-finding signatures use file + message)
    pub fn file(&self) -> String {
        let l = self.loc.trim_start_matches("/repo/");
        l.split(':').next().unwrap_or(l).to_string()
    }
    /// message stripped of digits, for stable signatures
    pub fn msg_key(&self) -> String {
        let mut s: String = self
            .msg
            .chars()
            .map(|c| if c.is_ascii_digit() { '#' } else { c })
            .collect();
        while s.contains("##") {
            s = s.replace("##", "#");
        }
        s.chars().take(80).collect()
    }
}

thread_local! {
    static LAST: RefCell<Option<PanicInfo>> = const { RefCell::new(None) };
    static QUIET: RefCell<bool> = const { RefCell::new(true) };
}

pub fn install_hook() {
    std::panic::set_hook(Box::new(|info| {
        let msg = if let Some(s) = info.payload().downcast_ref::<&str>() {
            s.to_string()
        } else if let Some(s) = info.payload().downcast_ref::<String>() {
            s.clone()
        } else {
            "<non-string panic>".to_string()
        };
        let loc = info
            .location()
            .map(|l| format!("{}:{}:{}", l.file(), l.line(), l.column()))
            .unwrap_or_default();
        let quiet = QUIET.with(|q| *q.borrow());
        if !quiet {
            eprintln!("[panic] {} at {}", msg, loc);
        }
        LAST.with(|l| {
            // keep the first panic of a case (later ones are usually consequences)
            let mut l = l.borrow_mut();
            if l.is_none() {
                *l = Some(PanicInfo { msg, loc });
            }
        });
    }));
}

pub fn set_quiet(q: bool) {
    QUIET.with(|x| *x.borrow_mut() = q);
}

pub fn clear() {
    LAST.with(|l| *l.borrow_mut() = None);
}

pub fn take() -> Option<PanicInfo> {
    LAST.with(|l| l.borrow_mut().take())
}

/// Run `f`, catching a panic and returning its info.
pub fn catch<T>(f: impl FnOnce() -> T) -> Result<T, PanicInfo> {
    let saved = take();
    let r = std::panic::catch_unwind(std::panic::AssertUnwindSafe(f));
    match r {
        Ok(v) => {
            // restore earlier info if any
            if let Some(s) = saved {
                LAST.with(|l| *l.borrow_mut() = Some(s));
            }
            Ok(v)
        }
        Err(_) => {
            let info = take().unwrap_or_default();
            if let Some(s) = saved {
                LAST.with(|l| *l.borrow_mut() = Some(s));
            }
            Err(info)
        }
    }
}
