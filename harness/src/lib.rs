//! vcheck library: runtime monitors for hyperium/h3 (see /verif/DESIGN.md). The `vcheck` binary
//! (src/main.rs) is the CLI; the fuzz targets under fuzz/ link this library too.

#![allow(clippy::type_complexity, clippy::too_many_arguments)]

pub mod fuzzing;
pub mod panics;
pub mod props;
#[cfg(feature = "quinn")]
pub mod quinnrig;
pub mod racerig;
pub mod refimpl;
pub mod report;
pub mod sim;
pub mod util;

use report::Report;

#[derive(Clone, Copy, Debug, PartialEq, Eq)]
pub enum Tier {
    Quick,
    Thorough,
    /// tiny workloads for Miri / sanitizer builds
    Lite,
}

impl Tier {
    pub fn name(self) -> &'static str {
        match self {
            Tier::Quick => "quick",
            Tier::Thorough => "thorough",
            Tier::Lite => "lite",
        }
    }
    pub fn pick(self, lite: u64, quick: u64, thorough: u64) -> u64 {
        match self {
            Tier::Lite => lite,
            Tier::Quick => quick,
            Tier::Thorough => thorough,
        }
    }
}

#[derive(Clone, Debug)]
pub struct Gen {
    pub name: &'static str,
    pub count: u64,
    /// the generator enumerates a finite sub-domain completely when all `count` cases run
    pub exhaustive: bool,
}

impl Gen {
    pub fn new(name: &'static str, count: u64) -> Self {
        Gen {
            name,
            count,
            exhaustive: false,
        }
    }
    pub fn exhaustive(name: &'static str, count: u64) -> Self {
        Gen {
            name,
            count,
            exhaustive: true,
        }
    }
}

pub struct PropDef {
    pub id: &'static str,
    pub rule: &'static str,
    pub assumptions: fn() -> Vec<String>,
    pub gens: fn(Tier) -> Vec<Gen>,
    /// run one case; all randomness must come from `seed`
    pub run_case: fn(gen: &str, index: u64, seed: u64, tier: Tier, rep: &mut Report),
    /// coverage floors etc. on the merged report
    pub finish: fn(Tier, &mut Report),
}

