//! Bodies of the libFuzzer targets (harness/fuzz/fuzz_targets/*): arbitrary bytes -> one monitored
//! execution. Shared with `vcheck fuzz-replay <target> <file>` so that a crash artifact can be
//! re-executed and explained without the fuzzer.

use crate::props::{c02, c06, c11};
use crate::report::Report;

pub const TARGETS: [(&str, &str); 3] = [("peer_script", "C06"), ("frames", "C02"), ("qpack", "C11")];

pub fn property_of(target: &str) -> Option<&'static str> {
    TARGETS.iter().find(|(t, _)| *t == target).map(|(_, p)| *p)
}

/// Run one input; returns the violations (signature, detail) the monitors raised.
pub fn run(target: &str, data: &[u8]) -> Vec<(String, String)> {
    let mut rep = Report::new();
    match target {
        "peer_script" => {
            if data.len() < 4 {
                return vec![];
            }
            let h3_is_server = data[0] & 1 == 0;
            let split = data[0] & 2 == 2;
            let nreq = 1 + (data[1] % 3) as usize;
            let seed = u16::from_le_bytes([data[2], data[3]]) as u64;
            let ops = c06::decode(&data[4..]);
            fastrand::seed(seed);
            crate::sim::spin_reset();
            let _ = crate::sim::spin_take();
            let r = crate::panics::catch(|| c06::check_script(&ops, h3_is_server, split, nreq, seed, &mut rep));
            if let Some(d) = crate::sim::spin_take() {
                return vec![("C06/spins-inside-poll".to_string(), d)];
            }
            if let Err(p) = r {
                if p.in_repo() {
                    return vec![(format!("C06/panic@{}", p.short_loc()), format!("{} at {}", p.msg, p.loc))];
                }
                // a panic of the harness itself is not a verdict about h3
                eprintln!("harness panic (ignored): {} at {}", p.msg, p.loc);
                return vec![];
            }
        }
        "frames" => {
            if data.len() < 10 || data.len() > 300 {
                return vec![];
            }
            let mask = u64::from_le_bytes([data[0], data[1], data[2], data[3], data[4], data[5], data[6], data[7]]);
            let fin = data[8] & 1 == 1;
            let pend = data[8] & 2 == 2;
            c02::fuzz_one(&data[9..], mask, fin, pend, &mut rep);
        }
        "qpack" => {
            if data.len() > 400 {
                return vec![];
            }
            c11::fuzz_one(data, &mut rep);
        }
        _ => {}
    }
    rep.violations.iter().map(|v| (v.sig.clone(), v.detail.clone())).collect()
}
