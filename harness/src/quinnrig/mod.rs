//! E5 `quinnrig` — an `h3_quinn` endpoint talking to a RAW `quinn` peer over 127.0.0.1.
//!
//! The rig only builds connections and offers small helpers to drive the adapter through the
//! `h3::quic` traits from async code; the oracles live in `props/c17.rs`.
//!
//! Both endpoints live on one multi-thread tokio runtime that is created per case and thrown away
//! afterwards (`run_scenario`), so nothing leaks from one case into the next. Wall-clock time is
//! used for exactly two things: pacing of the raw reader (slow / stalling readers) and the
//! watchdog around a whole scenario. Neither feeds a verdict.

use crate::panics::{self, PanicInfo};
use crate::util::Rng;
use bytes::{Buf, Bytes};
use h3::quic::{self, ConnectionErrorIncoming, StreamErrorIncoming};
use quinn::crypto::rustls::{QuicClientConfig, QuicServerConfig};
use quinn::VarInt;
use rustls::pki_types::{CertificateDer, PrivateKeyDer, PrivatePkcs8KeyDer};
use std::cell::RefCell;
use std::collections::{BTreeMap, VecDeque};
use std::future::Future;
use std::pin::Pin;
use std::sync::atomic::{AtomicBool, Ordering};
use std::sync::{Arc, Mutex, OnceLock};
use std::task::{Context, Poll, Wake, Waker};
use std::time::Duration;

/// The window sizes swept by C17 (bytes).
pub const WINDOWS: [u64; 6] = [1, 7, 64, 1024, 64 * 1024, 1024 * 1024];

/// Watchdog around one scenario. Firing is `inconclusive`, never a violation.
pub const WATCHDOG: Duration = Duration::from_secs(30);

#[derive(Clone, Debug)]
pub struct SideCfg {
    /// per-stream receive window this side advertises
    pub stream_rwnd: u64,
    /// connection receive window this side advertises
    pub conn_rwnd: u64,
    /// bytes this side sends without acknowledgement
    pub send_window: u64,
    /// idle timeout in ms (keep-alives are always off)
    pub idle_ms: u64,
    pub datagrams: bool,
    /// request immediate ACKs from the peer (QUIC ACK-frequency extension)
    pub fast_acks: bool,
}

impl SideCfg {
    pub fn roomy() -> Self {
        SideCfg {
            stream_rwnd: 1 << 20,
            conn_rwnd: 4 << 20,
            send_window: 8 << 20,
            idle_ms: 20_000,
            datagrams: false,
            fast_acks: false,
        }
    }
}

/// A UDP relay between the two endpoints that loses or delays chosen datagrams (once each):
/// the only way to make Quinn see stream data out of order on a loopback path.
#[derive(Clone, Debug, Default)]
pub struct RelayCfg {
    /// ordinal numbers (0-based, counted per direction among datagrams of 600 bytes or more) of
    /// the datagrams travelling towards the adapter that are dropped
    pub drop_to_adapter: Vec<u64>,
    /// same, towards the raw peer
    pub drop_to_raw: Vec<u64>,
    /// ordinals (towards the adapter) that are held back and sent behind the following datagram
    pub swap_to_adapter: Vec<u64>,
}

#[derive(Default, Debug)]
pub struct RelayStats {
    pub forwarded: u64,
    pub dropped: u64,
    pub swapped: u64,
}

#[derive(Clone, Debug)]
pub struct RigCfg {
    pub adapter_is_client: bool,
    pub adapter: SideCfg,
    pub raw: SideCfg,
    pub relay: Option<RelayCfg>,
}

impl RigCfg {
    pub fn roomy(adapter_is_client: bool) -> Self {
        RigCfg {
            adapter_is_client,
            adapter: SideCfg::roomy(),
            raw: SideCfg::roomy(),
            relay: None,
        }
    }
    pub fn json(&self) -> serde_json::Value {
        let side = |s: &SideCfg| {
            serde_json::json!({"stream_rwnd": s.stream_rwnd, "conn_rwnd": s.conn_rwnd, "send_window": s.send_window,
                               "idle_ms": s.idle_ms, "datagrams": s.datagrams, "fast_acks": s.fast_acks})
        };
        serde_json::json!({"adapter_role": if self.adapter_is_client { "client" } else { "server" },
                           "adapter": side(&self.adapter), "raw_peer": side(&self.raw),
                           "relay": self.relay.as_ref().map(|r| serde_json::json!({"drop_to_adapter": r.drop_to_adapter, "drop_to_raw": r.drop_to_raw, "swap_to_adapter": r.swap_to_adapter}))})
    }
}

/// An established connection: `adapter` is to be wrapped in `h3_quinn::Connection::new`, `raw` is
/// the plain Quinn peer.
pub struct Pair {
    pub adapter: quinn::Connection,
    pub raw: quinn::Connection,
    pub adapter_is_client: bool,
    pub relay_stats: Arc<Mutex<RelayStats>>,
    _server_ep: quinn::Endpoint,
    _client_ep: quinn::Endpoint,
}

impl Pair {
    /// QUIC stream id (RFC 9000 §2.1) of the `index`-th stream of a kind, computed from the
    /// opening order alone — independent of both Quinn and the adapter.
    pub fn stream_id(&self, opened_by_adapter: bool, bidi: bool, index: u64) -> u64 {
        let initiator_is_client = opened_by_adapter == self.adapter_is_client;
        (index << 2) | (if bidi { 0 } else { 2 }) | (if initiator_is_client { 0 } else { 1 })
    }
}

fn certs() -> (CertificateDer<'static>, PrivateKeyDer<'static>) {
    static CERT: OnceLock<(Vec<u8>, Vec<u8>)> = OnceLock::new();
    let (c, k) = CERT.get_or_init(|| {
        let cert = rcgen::generate_simple_self_signed(vec!["localhost".into()]).expect("rcgen");
        (cert.cert.der().to_vec(), cert.signing_key.serialize_der())
    });
    (
        CertificateDer::from(c.clone()),
        PrivateKeyDer::Pkcs8(PrivatePkcs8KeyDer::from(k.clone())),
    )
}

fn transport(s: &SideCfg) -> Result<quinn::TransportConfig, String> {
    let mut t = quinn::TransportConfig::default();
    let v = |x: u64| VarInt::from_u64(x).map_err(|_| "window out of range".to_string());
    t.stream_receive_window(v(s.stream_rwnd)?);
    t.receive_window(v(s.conn_rwnd)?);
    t.send_window(s.send_window);
    t.max_idle_timeout(Some(
        Duration::from_millis(s.idle_ms)
            .try_into()
            .map_err(|_| "idle timeout out of range".to_string())?,
    ));
    t.keep_alive_interval(None);
    if s.fast_acks {
        // ask the peer to acknowledge every packet at once: with a send window of a few bytes the
        // default delayed ACK (25 ms) would otherwise cost 25 ms per window
        let mut af = quinn::AckFrequencyConfig::default();
        af.ack_eliciting_threshold(VarInt::from_u32(0));
        af.max_ack_delay(Some(Duration::from_millis(1)));
        t.ack_frequency_config(Some(af));
    }
    t.initial_rtt(Duration::from_millis(10));
    t.max_concurrent_bidi_streams(VarInt::from_u32(256));
    t.max_concurrent_uni_streams(VarInt::from_u32(256));
    if s.datagrams {
        t.datagram_receive_buffer_size(Some(1 << 20));
        t.datagram_send_buffer_size(1 << 20);
    } else {
        t.datagram_receive_buffer_size(None);
    }
    Ok(t)
}

/// Build both endpoints on 127.0.0.1:0 and complete the handshake.
pub async fn connect(cfg: &RigCfg) -> Result<Pair, String> {
    let (cert, key) = certs();
    let (server_side, client_side) = if cfg.adapter_is_client {
        (&cfg.raw, &cfg.adapter)
    } else {
        (&cfg.adapter, &cfg.raw)
    };
    let provider = Arc::new(rustls::crypto::ring::default_provider());

    let mut scrypto = rustls::ServerConfig::builder_with_provider(provider.clone())
        .with_protocol_versions(&[&rustls::version::TLS13])
        .map_err(|e| e.to_string())?
        .with_no_client_auth()
        .with_single_cert(vec![cert.clone()], key)
        .map_err(|e| e.to_string())?;
    scrypto.alpn_protocols = vec![b"h3".to_vec()];
    let mut server_config =
        quinn::ServerConfig::with_crypto(Arc::new(QuicServerConfig::try_from(scrypto).map_err(|e| e.to_string())?));
    server_config.transport = Arc::new(transport(server_side)?);
    let server_ep = quinn::Endpoint::server(server_config, "127.0.0.1:0".parse().unwrap()).map_err(|e| format!("bind server: {}", e))?;
    let addr = server_ep.local_addr().map_err(|e| e.to_string())?;

    let mut roots = rustls::RootCertStore::empty();
    roots.add(cert).map_err(|e| e.to_string())?;
    let mut ccrypto = rustls::ClientConfig::builder_with_provider(provider)
        .with_protocol_versions(&[&rustls::version::TLS13])
        .map_err(|e| e.to_string())?
        .with_root_certificates(roots)
        .with_no_client_auth();
    ccrypto.alpn_protocols = vec![b"h3".to_vec()];
    let mut client_config = quinn::ClientConfig::new(Arc::new(QuicClientConfig::try_from(ccrypto).map_err(|e| e.to_string())?));
    client_config.transport_config(Arc::new(transport(client_side)?));
    let client_ep = quinn::Endpoint::client("127.0.0.1:0".parse().unwrap()).map_err(|e| format!("bind client: {}", e))?;

    let relay_stats = Arc::new(Mutex::new(RelayStats::default()));
    let addr = match &cfg.relay {
        None => addr,
        Some(rc) => {
            let sock = tokio::net::UdpSocket::bind("127.0.0.1:0").await.map_err(|e| format!("bind relay: {}", e))?;
            let raddr = sock.local_addr().map_err(|e| e.to_string())?;
            tokio::spawn(relay(sock, addr, rc.clone(), cfg.adapter_is_client, relay_stats.clone()));
            raddr
        }
    };
    let connecting = client_ep
        .connect_with(client_config, addr, "localhost")
        .map_err(|e| format!("connect: {}", e))?;
    let accept = async {
        match server_ep.accept().await {
            Some(inc) => inc.await.map_err(|e| format!("server handshake: {}", e)),
            None => Err("server endpoint closed".to_string()),
        }
    };
    let (c, s) = tokio::join!(connecting, accept);
    let c = c.map_err(|e| format!("client handshake: {}", e))?;
    let s = s?;
    let (adapter, raw) = if cfg.adapter_is_client { (c, s) } else { (s, c) };
    Ok(Pair {
        adapter,
        raw,
        adapter_is_client: cfg.adapter_is_client,
        relay_stats,
        _server_ep: server_ep,
        _client_ep: client_ep,
    })
}

/// The relay task: everything from the server goes to the client's address (learnt from its first
/// datagram) and vice versa; the chosen large datagrams are dropped or swapped with their successor.
async fn relay(sock: tokio::net::UdpSocket, server: std::net::SocketAddr, rc: RelayCfg, adapter_is_client: bool, stats: Arc<Mutex<RelayStats>>) {
    let mut client: Option<std::net::SocketAddr> = None;
    let mut buf = vec![0u8; 65536];
    // ordinals of large datagrams per direction: [towards server, towards client]
    let mut ord = [0u64; 2];
    let mut held: Option<(Vec<u8>, std::net::SocketAddr)> = None;
    loop {
        let Ok((n, from)) = sock.recv_from(&mut buf).await else { return };
        let to_client = from == server;
        if !to_client {
            client = Some(from);
        }
        let Some(dst) = (if to_client { client } else { Some(server) }) else { continue };
        let to_adapter = to_client == adapter_is_client;
        let mut drop_it = false;
        let mut hold_it = false;
        if n >= 600 {
            let k = ord[to_client as usize];
            ord[to_client as usize] += 1;
            if to_adapter {
                drop_it = rc.drop_to_adapter.contains(&k);
                hold_it = !drop_it && rc.swap_to_adapter.contains(&k);
            } else {
                drop_it = rc.drop_to_raw.contains(&k);
            }
        }
        if drop_it {
            stats.lock().unwrap().dropped += 1;
            continue;
        }
        if hold_it && held.is_none() {
            held = Some((buf[..n].to_vec(), dst));
            continue;
        }
        let _ = sock.send_to(&buf[..n], dst).await;
        stats.lock().unwrap().forwarded += 1;
        if to_adapter {
            if let Some((b, d)) = held.take() {
                let _ = sock.send_to(&b, d).await;
                let mut st = stats.lock().unwrap();
                st.forwarded += 1;
                st.swapped += 1;
            }
        }
    }
}

// ---------------------------------------------------------------------------------------------
// observations collected by a scenario (applied to the Report by the property afterwards)

#[derive(Default, Debug)]
pub struct Obs {
    pub counters: BTreeMap<String, u64>,
    pub evaluations: u64,
    /// (signature without the "C17/" prefix, detail)
    pub violations: Vec<(String, String)>,
    pub inconclusive: Vec<String>,
    /// human-readable trace of the scenario (for samples / replay files)
    pub trace: Vec<String>,
}

impl Obs {
    pub fn count(&mut self, k: &str) {
        *self.counters.entry(k.to_string()).or_insert(0) += 1;
    }
    pub fn add(&mut self, k: &str, n: u64) {
        *self.counters.entry(k.to_string()).or_insert(0) += n;
    }
    pub fn violation(&mut self, sig: impl Into<String>, detail: impl Into<String>) {
        let sig = sig.into();
        // one report per signature and scenario
        if !self.violations.iter().any(|(s, _)| *s == sig) {
            self.violations.push((sig, detail.into()));
        }
    }
    pub fn inconclusive(&mut self, why: impl Into<String>) {
        self.inconclusive.push(why.into());
    }
    pub fn note(&mut self, s: impl Into<String>) {
        if self.trace.len() < 200 {
            self.trace.push(s.into());
        }
    }
}

pub type ObsCell = RefCell<Obs>;

/// What a scenario future resolves to: `Err` is harness trouble (inconclusive).
pub type ScenarioResult = Result<(), String>;

pub enum Outcome {
    Done,
    /// rig trouble: could not connect, raw peer failed, ...
    RigError(String),
    Watchdog(String),
    Panic(PanicInfo),
}

/// Progress marker readable after a watchdog fired.
#[derive(Clone, Default)]
pub struct Stage(Arc<Mutex<String>>);
impl Stage {
    pub fn set(&self, s: impl Into<String>) {
        *self.0.lock().unwrap() = s.into();
    }
    pub fn get(&self) -> String {
        self.0.lock().unwrap().clone()
    }
}

/// Future wrapper that attributes a panic raised while polling `F` (the thread-local panic record
/// is on the polling thread).
pub struct CatchPanic<F>(pub Pin<Box<F>>);
impl<F: Future> Future for CatchPanic<F> {
    type Output = Result<F::Output, PanicInfo>;
    fn poll(mut self: Pin<&mut Self>, cx: &mut Context<'_>) -> Poll<Self::Output> {
        let inner = self.0.as_mut();
        match panics::catch(move || inner.poll(cx)) {
            Ok(Poll::Pending) => Poll::Pending,
            Ok(Poll::Ready(v)) => Poll::Ready(Ok(v)),
            Err(p) => Poll::Ready(Err(p)),
        }
    }
}

/// Run one scenario on a fresh runtime under the watchdog.
pub fn run_scenario<F>(stage: &Stage, fut: F) -> Outcome
where
    F: Future<Output = ScenarioResult>,
{
    let rt = match tokio::runtime::Builder::new_multi_thread()
        .worker_threads(2)
        .enable_all()
        .build()
    {
        Ok(rt) => rt,
        Err(e) => return Outcome::RigError(format!("cannot build tokio runtime: {}", e)),
    };
    let out = rt.block_on(async {
        match tokio::time::timeout(WATCHDOG, CatchPanic(Box::pin(fut))).await {
            Err(_) => Outcome::Watchdog(stage.get()),
            Ok(Err(p)) => Outcome::Panic(p),
            Ok(Ok(Err(e))) => Outcome::RigError(e),
            Ok(Ok(Ok(()))) => Outcome::Done,
        }
    });
    rt.shutdown_background();
    out
}

// ---------------------------------------------------------------------------------------------
// payload buffers handed to the adapter

/// The `B` of `SendStream<B>`: either contiguous `Bytes` or a segmented buffer whose `chunk()`
/// returns one segment at a time (so a single `poll_write` can never take the whole payload).
pub trait Payload: Buf + Send + 'static {
    const NAME: &'static str;
    fn make(data: &[u8], rng: &mut Rng) -> Self;
}

impl Payload for Bytes {
    const NAME: &'static str = "Bytes";
    fn make(data: &[u8], _rng: &mut Rng) -> Self {
        Bytes::copy_from_slice(data)
    }
}

#[derive(Debug, Clone)]
pub struct SegBuf {
    segs: VecDeque<Bytes>,
    rem: usize,
}

impl Payload for SegBuf {
    const NAME: &'static str = "SegBuf";
    fn make(data: &[u8], rng: &mut Rng) -> Self {
        let mut segs = VecDeque::new();
        let mut i = 0;
        let style = rng.below(3);
        while i < data.len() {
            let rem = data.len() - i;
            let n = match style {
                0 => 1 + rng.usize(rem.min(5)),
                1 => 1 + rng.usize(rem.min(1500)),
                _ => 1 + rng.usize(rem),
            };
            segs.push_back(Bytes::copy_from_slice(&data[i..i + n]));
            i += n;
        }
        SegBuf { segs, rem: data.len() }
    }
}

impl Buf for SegBuf {
    fn remaining(&self) -> usize {
        self.rem
    }
    fn chunk(&self) -> &[u8] {
        self.segs.front().map(|s| &s[..]).unwrap_or(&[])
    }
    fn advance(&mut self, mut cnt: usize) {
        assert!(cnt <= self.rem, "SegBuf: advance past end");
        self.rem -= cnt;
        while cnt > 0 {
            let f = self.segs.front_mut().expect("SegBuf: advance past end");
            if cnt < f.len() {
                f.advance(cnt);
                return;
            }
            cnt -= f.len();
            self.segs.pop_front();
        }
    }
}

// ---------------------------------------------------------------------------------------------
// driving the adapter through the h3::quic traits

pub type AConn = h3_quinn::Connection;

pub async fn open_bidi<B: Buf>(c: &mut AConn) -> Result<h3_quinn::BidiStream<B>, StreamErrorIncoming> {
    std::future::poll_fn(|cx| <AConn as quic::OpenStreams<B>>::poll_open_bidi(c, cx)).await
}
pub async fn open_send<B: Buf>(c: &mut AConn) -> Result<h3_quinn::SendStream<B>, StreamErrorIncoming> {
    std::future::poll_fn(|cx| <AConn as quic::OpenStreams<B>>::poll_open_send(c, cx)).await
}
pub async fn opener_open_bidi<B: Buf>(o: &mut h3_quinn::OpenStreams) -> Result<h3_quinn::BidiStream<B>, StreamErrorIncoming> {
    std::future::poll_fn(|cx| <h3_quinn::OpenStreams as quic::OpenStreams<B>>::poll_open_bidi(o, cx)).await
}
pub async fn opener_open_send<B: Buf>(o: &mut h3_quinn::OpenStreams) -> Result<h3_quinn::SendStream<B>, StreamErrorIncoming> {
    std::future::poll_fn(|cx| <h3_quinn::OpenStreams as quic::OpenStreams<B>>::poll_open_send(o, cx)).await
}
pub async fn accept_bidi<B: Buf>(c: &mut AConn) -> Result<h3_quinn::BidiStream<B>, ConnectionErrorIncoming> {
    std::future::poll_fn(|cx| <AConn as quic::Connection<B>>::poll_accept_bidi(c, cx)).await
}
pub async fn accept_recv<B: Buf>(c: &mut AConn) -> Result<h3_quinn::RecvStream, ConnectionErrorIncoming> {
    std::future::poll_fn(|cx| <AConn as quic::Connection<B>>::poll_accept_recv(c, cx)).await
}
pub fn opener<B: Buf>(c: &AConn) -> h3_quinn::OpenStreams {
    <AConn as quic::Connection<B>>::opener(c)
}

/// `poll_data` until it is Ready.
pub async fn read_next<R: quic::RecvStream>(r: &mut R) -> Result<Option<R::Buf>, StreamErrorIncoming> {
    std::future::poll_fn(|cx| r.poll_data(cx)).await
}

/// `poll_ready` until it is Ready.
pub async fn ready<B: Buf, S: quic::SendStream<B>>(s: &mut S) -> Result<(), StreamErrorIncoming> {
    std::future::poll_fn(|cx| s.poll_ready(cx)).await
}

pub async fn finish<B: Buf, S: quic::SendStream<B>>(s: &mut S) -> Result<(), StreamErrorIncoming> {
    std::future::poll_fn(|cx| s.poll_finish(cx)).await
}

pub fn drain_buf<T: Buf>(mut b: T, out: &mut Vec<u8>) {
    while b.has_remaining() {
        let c = b.chunk();
        let n = c.len();
        out.extend_from_slice(c);
        b.advance(n);
    }
}

/// A waker that remembers it was woken and lets async code wait for that: used to poll an adapter
/// operation exactly once ("the caller dropped its future") and still learn when it became ready.
pub struct FlagWaker {
    woke: AtomicBool,
    notify: tokio::sync::Notify,
}

impl FlagWaker {
    pub fn new() -> Arc<Self> {
        Arc::new(FlagWaker {
            woke: AtomicBool::new(false),
            notify: tokio::sync::Notify::new(),
        })
    }
    pub fn waker(self: &Arc<Self>) -> Waker {
        Waker::from(self.clone())
    }
    pub fn was_woken(&self) -> bool {
        self.woke.load(Ordering::SeqCst)
    }
    /// Wait until woken, at most `max` (pacing only: the caller proceeds either way).
    pub async fn wait(&self, max: Duration) -> bool {
        let _ = tokio::time::timeout(max, async {
            while !self.was_woken() {
                self.notify.notified().await;
            }
        })
        .await;
        self.was_woken()
    }
}

impl Wake for FlagWaker {
    fn wake(self: Arc<Self>) {
        self.wake_by_ref();
    }
    fn wake_by_ref(self: &Arc<Self>) {
        self.woke.store(true, Ordering::SeqCst);
        self.notify.notify_one();
    }
}

/// Poll `f` exactly once with a `FlagWaker`.
pub fn poll_once<T>(fw: &Arc<FlagWaker>, f: impl FnOnce(&mut Context<'_>) -> Poll<T>) -> Poll<T> {
    let w = fw.waker();
    let mut cx = Context::from_waker(&w);
    f(&mut cx)
}

// ---------------------------------------------------------------------------------------------
// error classification (h3 side)

/// Stable short name of what the adapter reported.
pub fn conn_err_class(e: &ConnectionErrorIncoming) -> String {
    match e {
        ConnectionErrorIncoming::ApplicationClose { error_code } => format!("ApplicationClose({:#x})", error_code),
        ConnectionErrorIncoming::Timeout => "Timeout".into(),
        ConnectionErrorIncoming::InternalError(_) => "InternalError".into(),
        ConnectionErrorIncoming::Undefined(e) => format!("Undefined({})", e),
    }
}

pub fn stream_err_class(e: &StreamErrorIncoming) -> String {
    match e {
        StreamErrorIncoming::ConnectionErrorIncoming { connection_error } => format!("Connection:{}", conn_err_class(connection_error)),
        StreamErrorIncoming::StreamTerminated { error_code } => format!("StreamTerminated({:#x})", error_code),
        StreamErrorIncoming::Unknown(e) => format!("Unknown({})", e),
    }
}

/// Variant name only (for counters).
pub fn stream_err_kind(e: &StreamErrorIncoming) -> &'static str {
    match e {
        StreamErrorIncoming::ConnectionErrorIncoming { connection_error } => match connection_error {
            ConnectionErrorIncoming::ApplicationClose { .. } => "Connection:ApplicationClose",
            ConnectionErrorIncoming::Timeout => "Connection:Timeout",
            ConnectionErrorIncoming::InternalError(_) => "Connection:InternalError",
            ConnectionErrorIncoming::Undefined(_) => "Connection:Undefined",
        },
        StreamErrorIncoming::StreamTerminated { .. } => "StreamTerminated",
        StreamErrorIncoming::Unknown(_) => "Unknown",
    }
}

pub fn vi(x: u64) -> VarInt {
    VarInt::from_u64(x).expect("code within VarInt range")
}
