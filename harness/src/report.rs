//! Per-run report: what the monitors observed, violations, evidence JSON.

use serde_json::{json, Map, Value};
use std::collections::{BTreeMap, BTreeSet, HashSet};

#[derive(Clone, Debug)]
pub struct Violation {
    /// narrow signature, e.g. `C08/served-declared-rejected[served_id==goaway_id]`
    pub sig: String,
    pub detail: String,
    pub gen: String,
    pub index: u64,
    pub seed: u64,
    pub case: Value,
}

#[derive(Default)]
pub struct Report {
    pub evaluations: u64,
    pub counters: BTreeMap<String, u64>,
    pub distinct: HashSet<u64>,
    /// named secondary distinct-sets (e.g. interleaving signatures), reported as counts
    pub distinct_named: BTreeMap<String, HashSet<u64>>,
    /// cases distinct by construction (complete enumerations), not hashed
    pub distinct_direct: u64,
    pub samples: Vec<Value>,
    pub violations: Vec<Violation>,
    pub inconclusive: Vec<String>,
    /// names of finite sub-domains this run enumerated completely
    pub exhaustive: BTreeSet<String>,
    pub notes: Vec<String>,
    // context of the case currently running (set by the driver loop)
    pub cur_gen: String,
    pub cur_index: u64,
    pub cur_seed: u64,
    pub verbose: bool,
    /// per-case staging area used by monitors that report only the root-cause violation
    pub staged: Vec<(u32, String, String)>,
}

pub const MAX_SAMPLES: usize = 6;
pub const MAX_VIOLATIONS_KEPT: usize = 40;

impl Report {
    pub fn new() -> Self {
        Self::default()
    }
    pub fn count(&mut self, key: &str) {
        *self.counters.entry(key.to_string()).or_insert(0) += 1;
    }
    pub fn add(&mut self, key: &str, n: u64) {
        *self.counters.entry(key.to_string()).or_insert(0) += n;
    }
    pub fn max(&mut self, key: &str, n: u64) {
        let e = self.counters.entry(key.to_string()).or_insert(0);
        if n > *e {
            *e = n;
        }
    }
    pub fn get(&self, key: &str) -> u64 {
        self.counters.get(key).copied().unwrap_or(0)
    }
    /// record a non-trivial case signature (hashed) for distinct counting
    pub fn sig(&mut self, h: u64) {
        // bounded memory: past 2M signatures per worker the set stops growing (the reported number
        // of distinct cases is then a lower bound)
        if self.distinct.len() < 2_000_000 {
            self.distinct.insert(h);
        } else {
            *self.counters.entry("distinct_set_saturated(lower bound reported)".to_string()).or_insert(0) += 1;
        }
    }
    pub fn sig_in(&mut self, set: &str, h: u64) {
        let e = self.distinct_named.entry(set.to_string()).or_default();
        if e.len() < 1_000_000 {
            e.insert(h);
        }
    }
    pub fn sample(&mut self, v: Value) {
        if self.samples.len() < MAX_SAMPLES {
            self.samples.push(v);
        }
    }
    pub fn want_sample(&self) -> bool {
        self.samples.len() < MAX_SAMPLES
    }
    pub fn violation(&mut self, sig: impl Into<String>, detail: impl Into<String>, case: Value) {
        let sig = sig.into();
        let detail = detail.into();
        if self.verbose {
            eprintln!("[violation] {} :: {}", sig, detail);
        }
        // keep the first few per signature, count the rest
        self.count(&format!("violations_raw[{}]", sig));
        let same = self.violations.iter().filter(|v| v.sig == sig).count();
        if same < 3 && self.violations.len() < MAX_VIOLATIONS_KEPT {
            self.violations.push(Violation {
                sig,
                detail,
                gen: self.cur_gen.clone(),
                index: self.cur_index,
                seed: self.cur_seed,
                case,
            });
        }
    }
    pub fn inconclusive(&mut self, why: impl Into<String>) {
        let why = why.into();
        if !self.inconclusive.contains(&why) && self.inconclusive.len() < 20 {
            self.inconclusive.push(why);
        }
    }
    pub fn merge(&mut self, o: Report) {
        self.evaluations += o.evaluations;
        for (k, v) in o.counters {
            if k.starts_with("max:") {
                let e = self.counters.entry(k).or_insert(0);
                if v > *e {
                    *e = v;
                }
            } else {
                *self.counters.entry(k).or_insert(0) += v;
            }
        }
        self.distinct.extend(o.distinct);
        for (k, v) in o.distinct_named {
            self.distinct_named.entry(k).or_default().extend(v);
        }
        self.distinct_direct += o.distinct_direct;
        for s in o.samples {
            if self.samples.len() < MAX_SAMPLES {
                self.samples.push(s);
            }
        }
        for v in o.violations {
            let same = self.violations.iter().filter(|x| x.sig == v.sig).count();
            if same < 3 && self.violations.len() < MAX_VIOLATIONS_KEPT {
                self.violations.push(v);
            }
        }
        for i in o.inconclusive {
            self.inconclusive(i);
        }
        // a sub-domain is exhaustive only if the shard(s) that own it say so; union is right
        // because shards partition the enumeration and each marks it after finishing its part.
        self.exhaustive.extend(o.exhaustive);
        for n in o.notes {
            if !self.notes.contains(&n) {
                self.notes.push(n);
            }
        }
    }
    pub fn distinct_nontrivial(&self) -> u64 {
        self.distinct.len() as u64 + self.distinct_direct
    }
}

pub struct KnownFindings {
    pub entries: Vec<(String, String, String)>, // (property, signature, description)
}

impl KnownFindings {
    pub fn load(path: Option<&str>) -> Self {
        let mut entries = Vec::new();
        if let Some(p) = path {
            if let Ok(s) = std::fs::read_to_string(p) {
                if let Ok(v) = serde_json::from_str::<Value>(&s) {
                    if let Some(arr) = v.get("findings").and_then(|x| x.as_array()) {
                        for f in arr {
                            let g = |k: &str| {
                                f.get(k)
                                    .and_then(|x| x.as_str())
                                    .unwrap_or_default()
                                    .to_string()
                            };
                            entries.push((g("property"), g("signature"), g("what_fails")));
                        }
                    }
                }
            }
        }
        KnownFindings { entries }
    }
    pub fn lookup(&self, prop: &str, sig: &str) -> Option<&str> {
        self.entries
            .iter()
            .find(|(p, s, _)| p == prop && s == sig)
            .map(|(_, _, d)| d.as_str())
    }
}

pub struct EvidenceMeta<'a> {
    pub prop: &'a str,
    pub tier: &'a str,
    pub seed: u64,
    pub rule: &'a str,
    pub assumptions: Vec<String>,
    pub wall_s: f64,
    pub shards: usize,
}

pub fn evidence_json(rep: &Report, meta: &EvidenceMeta, unknown_viol: usize, known: &[String]) -> Value {
    let mut cov = Map::new();
    cov.insert("evaluations".into(), json!(rep.evaluations));
    cov.insert("distinct_nontrivial".into(), json!(rep.distinct_nontrivial()));
    cov.insert("rule".into(), json!(meta.rule));
    cov.insert("samples".into(), Value::Array(rep.samples.clone()));
    cov.insert(
        "exhaustive_subdomains".into(),
        json!(rep.exhaustive.iter().cloned().collect::<Vec<_>>()),
    );
    let mut obs = Map::new();
    for (k, v) in &rep.counters {
        obs.insert(k.clone(), json!(v));
    }
    for (k, v) in &rep.distinct_named {
        obs.insert(format!("distinct[{}]", k), json!(v.len()));
    }
    cov.insert("observed".into(), Value::Object(obs));
    if !rep.notes.is_empty() {
        cov.insert("notes".into(), json!(rep.notes));
    }
    cov.insert("shards".into(), json!(meta.shards));
    if !rep.inconclusive.is_empty() {
        cov.insert("inconclusive".into(), json!(rep.inconclusive));
    }
    if !known.is_empty() {
        cov.insert("known_findings_reproduced".into(), json!(known));
    }
    json!({
        "property_id": meta.prop,
        "tier": meta.tier,
        "seed": meta.seed,
        "level": "exploration",
        "coverage": Value::Object(cov),
        "assumptions": meta.assumptions,
        "wall_s": meta.wall_s,
        "violations": unknown_viol,
    })
}
