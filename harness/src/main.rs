//! vcheck — runtime monitors for hyperium/h3 (see /verif/DESIGN.md).
//!
//! `vcheck run <Cxx> --tier quick|thorough --seed N [--threads N] [--evidence F] [--known F]
//!             [--replay-dir D] [--max-secs S] [--only GEN]`
//! `vcheck replay <file>`
//!
//! Exit codes: 0 held on everything explored, 1 violation (prints `VIOLATION property=.. replay=..`),
//! 2 inconclusive (prints `INCONCLUSIVE property=.. reason=..`).

#![allow(clippy::type_complexity, clippy::too_many_arguments)]

use serde_json::{json, Value};
use std::sync::atomic::{AtomicBool, AtomicU64, Ordering};
use std::sync::Arc;
use std::time::Instant;
use vcheck::report::{self, EvidenceMeta, KnownFindings, Report};
use vcheck::{panics, props, util, Gen, PropDef, Tier};

fn arg_val(args: &[String], name: &str) -> Option<String> {
    args.iter()
        .position(|a| a == name)
        .and_then(|i| args.get(i + 1).cloned())
}

fn main() {
    let args: Vec<String> = std::env::args().collect();
    if args.len() < 2 {
        eprintln!("usage: vcheck run <Cxx> ... | vcheck replay <file> | vcheck list");
        std::process::exit(2);
    }
    panics::install_hook();
    match args[1].as_str() {
        "list" => {
            for p in props::all() {
                println!("{}", p.id);
            }
        }
        "corpus" => {
            // vcheck corpus <peer_script|frames|qpack> <dir> [n] [seed]: seed inputs for the libFuzzer targets
            let target = args.get(2).map(|s| s.as_str()).unwrap_or("");
            let dir = args.get(3).cloned().unwrap_or_else(|| ".".into());
            let n: usize = args.get(4).and_then(|s| s.parse().ok()).unwrap_or(200);
            let seed: u64 = args.get(5).and_then(|s| s.parse().ok()).unwrap_or(1);
            let seeds = match target {
                "peer_script" => props::c06::fuzz_seeds(n, seed),
                "frames" => props::c02::fuzz_seeds(n, seed),
                "qpack" => props::c11::fuzz_seeds(n, seed),
                _ => {
                    eprintln!("unknown fuzz target {}", target);
                    std::process::exit(2);
                }
            };
            let _ = std::fs::create_dir_all(&dir);
            for (i, s) in seeds.iter().enumerate() {
                let _ = std::fs::write(format!("{}/seed-{:04}", dir, i), s);
            }
            println!("{} seeds written to {}", seeds.len(), dir);
        }
        "fuzz-replay" => {
            // vcheck fuzz-replay <target> <file> [--known K]: re-execute a libFuzzer input under the monitors
            let target = args.get(2).cloned().unwrap_or_default();
            let file = args.get(3).cloned().unwrap_or_default();
            let Some(prop) = vcheck::fuzzing::property_of(&target) else {
                eprintln!("unknown fuzz target {}", target);
                std::process::exit(2);
            };
            let data = match std::fs::read(&file) {
                Ok(d) => d,
                Err(e) => {
                    eprintln!("cannot read {}: {}", file, e);
                    std::process::exit(2);
                }
            };
            let known = KnownFindings::load(arg_val(&args[2..], "--known").as_deref());
            let mut bad = false;
            for (sig, detail) in vcheck::fuzzing::run(&target, &data) {
                if let Some(desc) = known.lookup(prop, &sig) {
                    println!("KNOWN-FINDING: property={} {} :: {}", prop, sig, desc);
                } else {
                    println!("VIOLATION property={} replay={}", prop, file);
                    println!("  signature: {}", sig);
                    println!("  detail: {}", detail);
                    bad = true;
                }
            }
            if !bad {
                println!("{} input {} ({} bytes): no violation", target, file, data.len());
            }
            std::process::exit(if bad { 1 } else { 0 });
        }
        "run" => {
            let code = cmd_run(&args[2..]);
            std::process::exit(code);
        }
        "replay" => {
            let code = cmd_replay(&args[2..]);
            std::process::exit(code);
        }
        other => {
            eprintln!("unknown command {}", other);
            std::process::exit(2);
        }
    }
}

fn find_prop(id: &str) -> Option<PropDef> {
    props::all().into_iter().find(|p| p.id.eq_ignore_ascii_case(id))
}

/// Run one case under catch_unwind; a panic that escapes the monitors' own catchers is
/// classified by where it was raised.
// ---------------------------------------------------------------------------------------------
// A process abort (allocation failure on a peer-chosen size, abort() in a dependency, stack
// overflow) escapes catch_unwind. Each worker publishes the case it is executing; a SIGABRT /
// SIGSEGV handler prints it, so that the runner (./check) can re-execute that one case in a fresh
// process and, if it dies again, report it as a violation instead of a dead monitor.

const MAX_WORKERS: usize = 256;
static CUR_CASE: [[AtomicU64; 3]; MAX_WORKERS] = {
    #[allow(clippy::declare_interior_mutable_const)]
    const Z: AtomicU64 = AtomicU64::new(0);
    #[allow(clippy::declare_interior_mutable_const)]
    const ROW: [AtomicU64; 3] = [Z; 3];
    [ROW; MAX_WORKERS]
};

thread_local! {
    static WORKER_SLOT: std::cell::Cell<usize> = const { std::cell::Cell::new(usize::MAX) };
}

fn publish_case(gen_idx: usize, index: u64, seed: u64) {
    let slot = WORKER_SLOT.with(|w| w.get());
    if slot < MAX_WORKERS {
        CUR_CASE[slot][0].store(gen_idx as u64 + 1, Ordering::Relaxed);
        CUR_CASE[slot][1].store(index, Ordering::Relaxed);
        CUR_CASE[slot][2].store(seed, Ordering::Relaxed);
    }
}

extern "C" fn on_fatal_signal(sig: libc::c_int) {
    // async-signal-safe: fixed buffer, write(2), _exit
    fn put(buf: &mut [u8; 160], at: &mut usize, s: &[u8]) {
        for b in s {
            if *at < buf.len() {
                buf[*at] = *b;
                *at += 1;
            }
        }
    }
    fn put_u64(buf: &mut [u8; 160], at: &mut usize, mut v: u64) {
        let mut tmp = [0u8; 20];
        let mut n = 0;
        loop {
            tmp[n] = b'0' + (v % 10) as u8;
            v /= 10;
            n += 1;
            if v == 0 {
                break;
            }
        }
        while n > 0 {
            n -= 1;
            put(buf, at, &tmp[n..n + 1]);
        }
    }
    let slot = WORKER_SLOT.with(|w| w.get());
    let mut buf = [0u8; 160];
    let mut at = 0;
    put(&mut buf, &mut at, b"\nFATAL-SIGNAL-IN-CASE signal=");
    put_u64(&mut buf, &mut at, sig as u64);
    if slot < MAX_WORKERS && CUR_CASE[slot][0].load(Ordering::Relaxed) != 0 {
        put(&mut buf, &mut at, b" gen_index=");
        put_u64(&mut buf, &mut at, CUR_CASE[slot][0].load(Ordering::Relaxed) - 1);
        put(&mut buf, &mut at, b" index=");
        put_u64(&mut buf, &mut at, CUR_CASE[slot][1].load(Ordering::Relaxed));
        put(&mut buf, &mut at, b" case_seed=");
        put_u64(&mut buf, &mut at, CUR_CASE[slot][2].load(Ordering::Relaxed));
    } else {
        put(&mut buf, &mut at, b" outside-a-case");
    }
    put(&mut buf, &mut at, b"\n");
    unsafe {
        libc::write(1, buf.as_ptr() as *const libc::c_void, at);
        libc::_exit(134);
    }
}

fn install_fatal_signal_reporter() {
    if cfg!(miri) {
        // Miri has no signal(); an abort under Miri is reported by Miri itself
        return;
    }
    unsafe {
        libc::signal(libc::SIGABRT, on_fatal_signal as *const () as libc::sighandler_t);
        libc::signal(libc::SIGSEGV, on_fatal_signal as *const () as libc::sighandler_t);
    }
}

/// Multiplier applied to the base count of every sampled generator (see cmd_run).
fn workload_scale(prop: &str, tier: Tier) -> u64 {
    let (q, t) = match prop {
        "C01" => (10, 6),
        "C02" => (30, 4),
        "C03" => (60, 40),
        "C04" => (100, 40),
        "C05" => (3, 2),
        "C06" => (20, 6),
        "C07" => (10, 3),
        "C08" => (100, 40),
        "C09" => (200, 40),
        "C10" => (150, 60),
        "C11" => (300, 600),
        "C12" => (30, 18),
        "C13" => (25, 30),
        "C14" => (15, 6),
        "C15" => (400, 100),
        "C16" => (1000, 500),
        "C17" => (6, 4),
        "C18" => (400, 100),
        "C19" => (100, 15),
        "C20" => (40, 4),
        _ => (1, 1),
    };
    match tier {
        Tier::Lite => 1,
        Tier::Quick => q,
        Tier::Thorough => t,
    }
}

fn guarded_case(p: &PropDef, gen: &str, index: u64, seed: u64, tier: Tier, rep: &mut Report) {
    rep.cur_gen = gen.to_string();
    rep.cur_index = index;
    rep.cur_seed = seed;
    fastrand::seed(seed ^ 0x5eed);
    panics::clear();
    vcheck::sim::spin_reset();
    let _ = vcheck::sim::spin_take();
    let _ = vcheck::sim::sched::take_case_stats();
    let r = std::panic::catch_unwind(std::panic::AssertUnwindSafe(|| {
        (p.run_case)(gen, index, seed, tier, rep);
    }));
    let stats = vcheck::sim::sched::take_case_stats();
    if stats.max_steps > 0 {
        rep.max("max:scheduler_steps_of_one_run", stats.max_steps);
    }
    if let Some((cap, pending)) = stats.cap_hit {
        // Bounded progress (DESIGN.md 2.3): the caps are orders of magnitude above what any run on
        // a tree where the property holds needs (see max:scheduler_steps_of_one_run in the
        // evidence) and steps are logical, not wall-clock: a run that is still busy after that
        // many steps is a livelock (e.g. a write that never completes), not a slow machine.
        rep.violation(
            format!("{}/no-quiescence-within-step-cap", p.id),
            format!("a run was still making steps after {} scheduler steps; tasks not finished: {:?}", cap, pending.iter().take(6).collect::<Vec<_>>()),
            json!({"step_cap": cap, "pending_tasks": pending}),
        );
    }
    if let Some(d) = vcheck::sim::spin_take() {
        // h3 busy-looped inside one poll: the call under test can never complete (the simulated
        // transport broke the loop with a panic after SPIN_LIMIT calls)
        rep.violation(
            format!("{}/spins-inside-poll[{}]", p.id, d.split(' ').next().unwrap_or("")),
            format!("h3 kept calling the transport without ever returning Pending or Ready: {}", d),
            json!({"spin": d}),
        );
        return;
    }
    if r.is_err() {
        let info = panics::take().unwrap_or_default();
        if info.in_repo() {
            rep.violation(
                format!("{}/panic@{}", p.id, info.short_loc()),
                format!("h3 panicked: {} at {}", info.msg, info.loc),
                json!({"panic": info.msg, "loc": info.loc}),
            );
        } else {
            rep.inconclusive(format!(
                "harness panic in {}#{}: {} at {}",
                gen, index, info.msg, info.loc
            ));
        }
    }
}

fn cmd_run(args: &[String]) -> i32 {
    let id = match args.first() {
        Some(x) => x.clone(),
        None => {
            eprintln!("missing property id");
            return 2;
        }
    };
    let p = match find_prop(&id) {
        Some(p) => p,
        None => {
            println!("INCONCLUSIVE property={} reason=unknown-property", id);
            return 2;
        }
    };
    let tier = match arg_val(args, "--tier").as_deref() {
        Some("thorough") => Tier::Thorough,
        Some("lite") => Tier::Lite,
        _ => Tier::Quick,
    };
    let seed: u64 = arg_val(args, "--seed")
        .and_then(|s| s.parse().ok())
        .unwrap_or(1);
    let threads: usize = arg_val(args, "--threads")
        .and_then(|s| s.parse().ok())
        .unwrap_or_else(|| {
            std::thread::available_parallelism()
                .map(|n| n.get())
                .unwrap_or(4)
        });
    let max_secs: f64 = arg_val(args, "--max-secs")
        .and_then(|s| s.parse().ok())
        .unwrap_or(1e9);
    let only = arg_val(args, "--only");
    let evidence_path = arg_val(args, "--evidence");
    let known = Arc::new(KnownFindings::load(arg_val(args, "--known").as_deref()));
    let replay_dir = arg_val(args, "--replay-dir");
    let verbose = args.iter().any(|a| a == "--verbose");

    let t0 = Instant::now();
    let gens: Vec<Gen> = (p.gens)(tier)
        .into_iter()
        .filter(|g| only.as_deref().map(|o| o == g.name).unwrap_or(true))
        .map(|mut g| {
            // workload size: the generators state base counts; the sampled (non-exhaustive) ones
            // are multiplied per property and tier so that a quick run takes some 10-25 s and a
            // thorough run several minutes on 16 cores
            if !g.exhaustive {
                g.count = g.count.saturating_mul(workload_scale(p.id, tier));
            }
            // the lite tier (Miri / sanitizer builds) runs a handful of cases of every generator
            if tier == Tier::Lite {
                // under Miri one case of the heavy end-to-end exchanges takes minutes
                let cap = if cfg!(miri) { if matches!(p.id, "C01" | "C07" | "C14") { 1 } else { 2 } } else { 8 };
                if g.count > cap {
                    g.count = cap;
                    g.exhaustive = false;
                }
            }
            g
        })
        .collect();

    println!("GENERATORS {}", gens.iter().map(|g| g.name).collect::<Vec<_>>().join(" "));
    // work queue: batches (gen idx, lo, hi). The lite tier (Miri / sanitizer builds, often cut
    // short by --max-secs) takes one case of every generator in turn so that a slow generator
    // cannot starve the others.
    let mut batches: Vec<(usize, u64, u64)> = Vec::new();
    if tier == Tier::Lite {
        let maxc = gens.iter().map(|g| g.count).max().unwrap_or(0);
        for index in 0..maxc {
            for (gi, g) in gens.iter().enumerate() {
                if index < g.count {
                    batches.push((gi, index, index + 1));
                }
            }
        }
    } else {
        for (gi, g) in gens.iter().enumerate() {
            let batch = (g.count / 256).clamp(1, 64);
            let mut lo = 0;
            while lo < g.count {
                let hi = (lo + batch).min(g.count);
                batches.push((gi, lo, hi));
                lo = hi;
            }
        }
    }
    let batches = Arc::new(batches);
    let cursor = Arc::new(AtomicU64::new(0));
    let done_counts: Arc<Vec<AtomicU64>> =
        Arc::new(gens.iter().map(|_| AtomicU64::new(0)).collect());
    let timed_out = Arc::new(AtomicBool::new(false));
    let nviol = Arc::new(AtomicU64::new(0));
    let stopped_early = Arc::new(AtomicBool::new(false));
    let first_viol_ms = Arc::new(AtomicU64::new(0));
    let gens = Arc::new(gens);
    let mut handles = Vec::new();
    install_fatal_signal_reporter();
    for worker in 0..threads.max(1) {
        let cursor = cursor.clone();
        let batches = batches.clone();
        let gens = gens.clone();
        let done_counts = done_counts.clone();
        let timed_out = timed_out.clone();
        let nviol = nviol.clone();
        let stopped_early = stopped_early.clone();
        let first_viol_ms = first_viol_ms.clone();
        let known = known.clone();
        let pid = p.id;
        handles.push(
            std::thread::Builder::new()
                .stack_size(64 << 20)
                .spawn(move || {
                    WORKER_SLOT.with(|w| w.set(worker));
                    let p = find_prop(pid).unwrap();
                    let mut rep = Report::new();
                    rep.verbose = verbose;
                    loop {
                        if t0.elapsed().as_secs_f64() > max_secs {
                            timed_out.store(true, Ordering::Relaxed);
                            break;
                        }
                        // grab a batch
                        let bi = cursor.fetch_add(1, Ordering::Relaxed) as usize;
                        let Some(&(gi, lo, hi)) = batches.get(bi) else { break };
                        let g = &gens[gi];
                        for index in lo..hi {
                            let cs = util::case_seed(seed, g.name, index);
                            let before = rep.violations.len();
                            publish_case(gi, index, cs);
                            guarded_case(&p, g.name, index, cs, tier, &mut rep);
                            done_counts[gi].fetch_add(1, Ordering::Relaxed);
                            if rep.violations.len() > before {
                                // listed known findings do not count: they are expected on this tree
                                let fresh = rep.violations[before..].iter().filter(|v| known.lookup(pid, &v.sig).is_none()).count();
                                if fresh > 0 {
                                    nviol.fetch_add(fresh as u64, Ordering::Relaxed);
                                    let _ = first_viol_ms.compare_exchange(0, t0.elapsed().as_millis().max(1) as u64, Ordering::Relaxed, Ordering::Relaxed);
                                }
                            }
                            // a tree that violates the property often does so in most cases, and each
                            // failing case can be slow (livelocks run to their step cap): stop after
                            // 200 reports, or 20 s after the first one
                            let first = first_viol_ms.load(Ordering::Relaxed);
                            if nviol.load(Ordering::Relaxed) >= 200 || (first != 0 && t0.elapsed().as_millis() as u64 > first + 20_000) {
                                stopped_early.store(true, Ordering::Relaxed);
                                break;
                            }
                        }
                        if stopped_early.load(Ordering::Relaxed) {
                            break;
                        }
                    }
                    rep
                })
                .unwrap(),
        );
    }
    let mut rep = Report::new();
    for h in handles {
        match h.join() {
            Ok(r) => rep.merge(r),
            Err(_) => rep.inconclusive("worker thread died"),
        }
    }
    for (i, g) in gens.iter().enumerate() {
        let done = done_counts[i].load(Ordering::Relaxed);
        rep.add(&format!("cases[{}]", g.name), done);
        if g.exhaustive && done == g.count {
            rep.exhaustive.insert(g.name.to_string());
        }
    }
    if stopped_early.load(Ordering::Relaxed) {
        rep.notes.push("stopped early: 200 violation reports, or 20 s after the first one".to_string());
    }
    if timed_out.load(Ordering::Relaxed) {
        rep.notes
            .push(format!("stopped by --max-secs {} before all cases ran", max_secs));
    }
    if only.is_none() && tier != Tier::Lite {
        (p.finish)(tier, &mut rep);
    }
    if rep.evaluations == 0 {
        rep.inconclusive("no case was evaluated");
    }

    // classify violations
    let mut known_lines: Vec<String> = Vec::new();
    let mut unknown: Vec<&report::Violation> = Vec::new();
    for v in &rep.violations {
        if let Some(desc) = known.lookup(p.id, &v.sig) {
            let line = format!("KNOWN-FINDING: property={} {} :: {}", p.id, v.sig, desc);
            if !known_lines.contains(&line) {
                known_lines.push(line);
            }
        } else {
            unknown.push(v);
        }
    }
    for l in &known_lines {
        println!("{}", l);
    }
    let mut exit = 0;
    let mut printed_sigs: Vec<String> = Vec::new();
    for v in &unknown {
        if printed_sigs.contains(&v.sig) {
            continue;
        }
        printed_sigs.push(v.sig.clone());
        let mut path = String::from("-");
        if let Some(dir) = &replay_dir {
            let d = format!("{}/{}", dir, p.id);
            let _ = std::fs::create_dir_all(&d);
            let fname = format!(
                "{}/{}-{:016x}.json",
                d,
                v.sig
                    .chars()
                    .map(|c| if c.is_ascii_alphanumeric() { c } else { '_' })
                    .take(60)
                    .collect::<String>(),
                util::hash64(&(v.gen.as_str(), v.index, v.seed))
            );
            let body = json!({
                "property": p.id,
                "signature": v.sig,
                "detail": v.detail,
                "gen": v.gen,
                "index": v.index,
                "case_seed": v.seed,
                "master_seed": seed,
                "tier": tier.name(),
                "case": v.case,
            });
            if std::fs::write(&fname, serde_json::to_string_pretty(&body).unwrap()).is_ok() {
                path = fname;
            }
        }
        println!("VIOLATION property={} replay={}", p.id, path);
        println!("  signature: {}", v.sig);
        println!("  detail: {}", v.detail);
        exit = 1;
    }
    if exit == 0 && !rep.inconclusive.is_empty() {
        for r in &rep.inconclusive {
            println!(
                "INCONCLUSIVE property={} reason={}",
                p.id,
                r.replace('\n', " ")
            );
        }
        exit = 2;
    }

    let wall = t0.elapsed().as_secs_f64();
    let meta = EvidenceMeta {
        prop: p.id,
        tier: if tier == Tier::Thorough { "thorough" } else { "quick" },
        seed,
        rule: p.rule,
        assumptions: (p.assumptions)(),
        wall_s: wall,
        shards: threads,
    };
    let ev = report::evidence_json(&rep, &meta, printed_sigs.len(), &known_lines);
    if let Some(path) = evidence_path {
        if let Some(parent) = std::path::Path::new(&path).parent() {
            let _ = std::fs::create_dir_all(parent);
        }
        if let Err(e) = std::fs::write(&path, serde_json::to_string_pretty(&ev).unwrap()) {
            eprintln!("cannot write evidence {}: {}", path, e);
        }
    }
    println!(
        "{} tier={} seed={} evaluations={} distinct_nontrivial={} violations={} known={} wall={:.1}s",
        p.id,
        tier.name(),
        seed,
        rep.evaluations,
        rep.distinct_nontrivial(),
        printed_sigs.len(),
        known_lines.len(),
        wall
    );
    if verbose {
        for (k, v) in &rep.counters {
            println!("  {} = {}", k, v);
        }
    }
    exit
}

fn cmd_replay(args: &[String]) -> i32 {
    let path = match args.first() {
        Some(p) => p,
        None => {
            eprintln!("usage: vcheck replay <file>");
            return 2;
        }
    };
    let body: Value = match std::fs::read_to_string(path)
        .ok()
        .and_then(|s| serde_json::from_str(&s).ok())
    {
        Some(v) => v,
        None => {
            eprintln!("cannot read replay file {}", path);
            return 2;
        }
    };
    let pid = body["property"].as_str().unwrap_or_default().to_string();
    let p = match find_prop(&pid) {
        Some(p) => p,
        None => {
            eprintln!("unknown property in replay file");
            return 2;
        }
    };
    let gen = body["gen"].as_str().unwrap_or_default().to_string();
    let index = body["index"].as_u64().unwrap_or(0);
    let seed = body["case_seed"].as_u64().unwrap_or(0);
    let tier = match body["tier"].as_str() {
        Some("thorough") => Tier::Thorough,
        Some("lite") => Tier::Lite,
        _ => Tier::Quick,
    };
    let mut rep = Report::new();
    rep.verbose = true;
    install_fatal_signal_reporter();
    WORKER_SLOT.with(|w| w.set(0));
    publish_case(0, index, seed);
    guarded_case(&p, &gen, index, seed, tier, &mut rep);
    println!(
        "replayed {} gen={} index={} seed={}: {} violation(s)",
        pid,
        gen,
        index,
        seed,
        rep.violations.len()
    );
    for v in &rep.violations {
        println!("VIOLATION property={} replay={}", pid, path);
        println!("  signature: {}", v.sig);
        println!("  detail: {}", v.detail);
        println!("  case: {}", v.case);
    }
    if rep.violations.is_empty() {
        0
    } else {
        1
    }
}
