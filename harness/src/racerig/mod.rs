//! racerig (E4) — real OS threads with forced schedules.
//!
//! h3's cfg-guarded pre-emption points (`h3::verif_hooks::preempt(point)`) call one process-global
//! callback. The callback acts only for threads that registered themselves as actors of a rig
//! (thread-local `ActorCtx`); every other thread — other `vcheck` workers, controllers, set-up
//! code — passes straight through. Several rigs are in flight at once (one per worker thread),
//! each with its own actor threads, so everything is keyed by the `Arc<Rig>` in the thread-local.
//!
//! Forced mode: an actor that reaches a hook parks on the rig's condvar. The controller waits
//! until every actor is parked or has finished, asks the chooser which parked actor runs next
//! and releases exactly that one: between two decisions a single actor runs a single
//! hook-delimited segment, so all events of a run are totally ordered and are logged under the
//! rig's lock in that order. An actor that returns early simply drops out (a schedule is a
//! priority order over the actors still alive, never a slot list). A watchdog (no progress for
//! `WATCHDOG`) aborts the run: parking is switched off, every thread runs to completion and the
//! caller reports the run as inconclusive.
//!
//! Free mode: nothing parks and nothing is locked at a hook (no synchronisation is added that
//! could hide a race from TSan/Miri): the hook is stamped with a relaxed sequence number into a
//! thread-local log and the thread spins for a seed-derived number of iterations.

use std::cell::RefCell;
use std::collections::BTreeMap;
use std::sync::atomic::{AtomicBool, AtomicU64, AtomicUsize, Ordering};
use std::sync::{Arc, Condvar, Mutex, MutexGuard, Once};
use std::task::{Wake, Waker};

use std::time::{Duration, Instant};

pub type ActorId = usize;

/// the five positional hook points of H1 (DESIGN.md §3)
pub const POINTS: [&str; 5] = ["driver:pce:0", "driver:pce:1", "driver:pce:2", "stream:scw:0", "stream:scw:1"];

/// pseudo points opening and closing an actor's free-mode log: everything the actor's closure
/// did lies between these two stamps, wherever the hooks are (or whether there are any)
pub const START: &str = "start";
pub const END: &str = "end";

/// A scheduling point of the harness's own (not one of h3's hooks): the simulated transport is about
/// to report a staged connection error to the calling handle (`sim::InjectHook`). It does not
/// depend on which of h3's functions the error then takes, hooked or not.
pub const INJECT: &str = "sim:inject";

pub fn point_index(p: &str) -> usize {
    if p == INJECT {
        // free mode: delayed like the hook before the store
        return 3;
    }
    POINTS.iter().position(|x| *x == p).unwrap_or(POINTS.len())
}

/// Reach a scheduling point from harness code: exactly what an h3 hook does (parks an actor of a
/// forced rig, stamps and spins in a free rig, nothing on any other thread).
pub fn harness_point(point: &'static str) {
    on_hook(point)
}

pub fn watchdog() -> Duration {
    if cfg!(miri) {
        Duration::from_secs(1200)
    } else {
        Duration::from_secs(20)
    }
}

#[derive(Clone, Copy, Debug, PartialEq, Eq)]
pub enum Mode {
    Forced,
    Free,
}

#[derive(Clone, Debug, PartialEq, Eq)]
pub enum EvKind {
    /// the actor reached this hook and parked
    Hook(&'static str),
    /// the controller released the actor parked at this hook: a segment begins
    Release(&'static str),
    /// the actor's closure returned
    Finish,
    /// the rig's counting waker was woken (by the thread of `actor`, if it is one)
    Wake,
    /// the rig's second waker was woken: the one handed to an EARLIER poll of the driver, which the
    /// driver's task no longer listens to (`Rig::stale_waker`)
    StaleWake,
    /// observation made by the controller at a decision point (attributed to the segment before)
    Obs(String),
}

#[derive(Clone, Debug)]
pub struct Event {
    pub step: u64,
    pub actor: Option<ActorId>,
    pub kind: EvKind,
}

#[derive(Clone, Copy, Debug, PartialEq, Eq)]
enum Status {
    Busy,
    Parked(&'static str),
    Finished,
}

struct ASt {
    status: Status,
    go: bool,
    /// the actor is blocked on its condvar (a release must notify it)
    sleeping: bool,
}

struct St {
    actors: Vec<ASt>,
    log: Vec<Event>,
    step: u64,
    progress: u64,
    /// the controller is blocked on its condvar
    ctrl_sleeping: bool,
}

impl St {
    fn push(&mut self, actor: Option<ActorId>, kind: EvKind) {
        let step = self.step;
        self.step += 1;
        self.progress += 1;
        self.log.push(Event { step, actor, kind });
    }
}

pub struct Rig {
    pub mode: Mode,
    st: Mutex<St>,
    /// the controller waits here; actors signal it when they park or finish
    cv_ctrl: Condvar,
    /// one per actor: only the released actor is woken (no thundering herd)
    cv_actor: Vec<Condvar>,
    /// actors that are neither parked nor finished (mirror of the statuses, for waiting without the lock)
    busy: AtomicUsize,
    /// mirror of `ASt::go`
    go_flags: Vec<AtomicBool>,
    abort: AtomicBool,
    /// free mode: relaxed stamp for hook passages and wakes
    seq: AtomicU64,
    wakes: AtomicU64,
    /// wakes of the stale waker
    stale_wakes: AtomicU64,
    last_wake_seq: AtomicU64,
    /// free mode: start line
    arrived: AtomicUsize,
    n_actors: usize,
}

struct ActorCtx {
    rig: Arc<Rig>,
    actor: ActorId,
    /// free mode: (stamp, point)
    free_log: Vec<(u64, &'static str)>,
    /// free mode: spin iterations per hook point
    spin: [u32; 5],
    /// forced mode: points this actor passes without parking (its segments are cut elsewhere)
    pass: &'static [&'static str],
}

thread_local! {
    static CTX: RefCell<Option<ActorCtx>> = const { RefCell::new(None) };
}

static INSTALL: Once = Once::new();
/// hook passages by threads that are not actors of any rig (must stay cheap and never block)
pub static PASS_THROUGH: AtomicU64 = AtomicU64::new(0);

/// Install the process-global callback (idempotent).
pub fn install() {
    INSTALL.call_once(|| {
        for (var, knob) in [("RACERIG_PAUSES", &SPIN_PAUSES), ("RACERIG_YIELDS", &SPIN_YIELDS)] {
            if let Some(v) = std::env::var(var).ok().and_then(|v| v.parse::<u64>().ok()) {
                knob.store(v, Ordering::Relaxed);
            }
        }
        h3::verif_hooks::set_preempt(Some(Arc::new(on_hook)));
    });
}

fn spin(n: u32) {
    for _ in 0..n {
        std::hint::spin_loop();
    }
}

fn on_hook(point: &'static str) {
    // decide under the thread-local borrow, block (if at all) outside of it
    let forced = CTX.with(|c| {
        let mut b = c.borrow_mut();
        match b.as_mut() {
            None => None,
            Some(x) => match x.rig.mode {
                Mode::Free => {
                    let s = x.rig.seq.fetch_add(1, Ordering::Relaxed);
                    x.free_log.push((s, point));
                    let n = x.spin[point_index(point).min(4)];
                    spin(n);
                    None
                }
                Mode::Forced if x.pass.contains(&point) => Some(None),
                Mode::Forced => Some(Some((x.rig.clone(), x.actor))),
            },
        }
    });
    match forced {
        Some(Some((rig, actor))) => rig.park(actor, point),
        // an actor of a forced rig that does not stop here
        Some(None) => {}
        None => {
            if CTX.with(|c| c.borrow().is_none()) {
                PASS_THROUGH.fetch_add(1, Ordering::Relaxed);
            }
        }
    }
}

/// Wait for `done` without blocking: a short spin, then yields; gives up after a while (the
/// caller then blocks on its condvar). Nothing here under Miri (its threads share one OS thread).
fn wait_actively(done: impl Fn() -> bool) {
    if cfg!(miri) {
        return;
    }
    for _ in 0..SPIN_PAUSES.load(Ordering::Relaxed) {
        if done() {
            return;
        }
        std::hint::spin_loop();
    }
    for _ in 0..SPIN_YIELDS.load(Ordering::Relaxed) {
        if done() {
            return;
        }
        std::thread::yield_now();
    }
}

/// tuning knobs of `wait_actively` (performance only; verdicts never depend on them). Measured on
/// the 16-vCPU sandbox: blocking at once (0/0) is fastest as long as nobody is notified
/// needlessly; env RACERIG_PAUSES / RACERIG_YIELDS override.
pub static SPIN_PAUSES: AtomicU64 = AtomicU64::new(0);
pub static SPIN_YIELDS: AtomicU64 = AtomicU64::new(0);

fn lock<'a>(m: &'a Mutex<St>) -> MutexGuard<'a, St> {
    m.lock().unwrap_or_else(|e| e.into_inner())
}

/// marks the actor finished even when its closure unwinds
struct FinishGuard {
    rig: Arc<Rig>,
    actor: ActorId,
}
impl Drop for FinishGuard {
    fn drop(&mut self) {
        CTX.with(|c| *c.borrow_mut() = None);
        if self.rig.mode == Mode::Forced {
            let mut st = lock(&self.rig.st);
            st.actors[self.actor].status = Status::Finished;
            st.push(Some(self.actor), EvKind::Finish);
            self.rig.busy.fetch_sub(1, Ordering::Release);
            let notify = st.ctrl_sleeping;
            drop(st);
            if notify {
                self.rig.cv_ctrl.notify_one();
            }
        }
    }
}

pub struct ControlEnd {
    /// (index chosen among the parked actors, number of parked actors) per decision
    pub decisions: Vec<(usize, usize)>,
    pub watchdog_fired: bool,
}

impl Rig {
    pub fn new(mode: Mode, n_actors: usize) -> Arc<Rig> {
        install();
        Arc::new(Rig {
            mode,
            st: Mutex::new(St {
                actors: (0..n_actors).map(|_| ASt { status: Status::Busy, go: false, sleeping: false }).collect(),
                log: Vec::with_capacity(64),
                step: 0,
                progress: 0,
                ctrl_sleeping: false,
            }),
            cv_ctrl: Condvar::new(),
            cv_actor: (0..n_actors).map(|_| Condvar::new()).collect(),
            busy: AtomicUsize::new(n_actors),
            go_flags: (0..n_actors).map(|_| AtomicBool::new(false)).collect(),
            abort: AtomicBool::new(false),
            seq: AtomicU64::new(0),
            wakes: AtomicU64::new(0),
            stale_wakes: AtomicU64::new(0),
            last_wake_seq: AtomicU64::new(u64::MAX),
            arrived: AtomicUsize::new(0),
            n_actors,
        })
    }

    /// Run `f` on the current thread as actor `actor` of this rig. Returns `f`'s value and, in free
    /// mode, the thread's hook log. `spin` gives the free-mode delay per hook point (iterations),
    /// `skew` a delay between the start line and `f`.
    pub fn enter<T>(self: &Arc<Self>, actor: ActorId, spin_plan: [u32; 5], skew: u32, f: impl FnOnce() -> T) -> (T, Vec<(u64, &'static str)>) {
        self.enter_passing(actor, spin_plan, skew, &[], f)
    }

    /// `enter` for an actor that, in forced mode, does not park at the points in `pass` (free mode
    /// stamps them like any other): its call is cut into segments by the remaining points.
    pub fn enter_passing<T>(self: &Arc<Self>, actor: ActorId, spin_plan: [u32; 5], skew: u32, pass: &'static [&'static str], f: impl FnOnce() -> T) -> (T, Vec<(u64, &'static str)>) {
        CTX.with(|c| {
            *c.borrow_mut() = Some(ActorCtx {
                rig: self.clone(),
                actor,
                free_log: Vec::new(),
                spin: spin_plan,
                pass,
            })
        });
        let guard = FinishGuard { rig: self.clone(), actor };
        if self.mode == Mode::Free {
            // start line: all actors leave together (as far as the OS allows)
            self.arrived.fetch_add(1, Ordering::AcqRel);
            let t0 = Instant::now();
            let mut i = 0u32;
            while self.arrived.load(Ordering::Acquire) < self.n_actors {
                i += 1;
                if cfg!(miri) || i > 2000 {
                    std::thread::yield_now();
                } else {
                    std::hint::spin_loop();
                }
                if i % 4096 == 0 && t0.elapsed() > watchdog() {
                    break;
                }
            }
            spin(skew);
            let s = self.seq.fetch_add(1, Ordering::Relaxed);
            CTX.with(|c| {
                if let Some(x) = c.borrow_mut().as_mut() {
                    x.free_log.push((s, START));
                }
            });
        }
        let v = f();
        if self.mode == Mode::Free {
            // closing stamp: everything `f` did lies between the thread's first stamp and this one
            let s = self.seq.fetch_add(1, Ordering::Relaxed);
            CTX.with(|c| {
                if let Some(x) = c.borrow_mut().as_mut() {
                    x.free_log.push((s, END));
                }
            });
        }
        let log = CTX.with(|c| c.borrow_mut().as_mut().map(|x| std::mem::take(&mut x.free_log)).unwrap_or_default());
        drop(guard);
        (v, log)
    }

    fn park(&self, actor: ActorId, point: &'static str) {
        if self.abort.load(Ordering::Acquire) {
            return;
        }
        let mut st = lock(&self.st);
        st.actors[actor].status = Status::Parked(point);
        st.push(Some(actor), EvKind::Hook(point));
        self.busy.fetch_sub(1, Ordering::Release);
        let notify = st.ctrl_sleeping;
        drop(st);
        if notify {
            self.cv_ctrl.notify_one();
        }
        // a hand-over through a futex costs tens of microseconds on a virtual machine (the idle
        // vCPU has to be kicked): wait actively for a moment first, then politely, then block
        let go = &self.go_flags[actor];
        wait_actively(|| go.load(Ordering::Acquire) || self.abort.load(Ordering::Acquire));
        let mut st = lock(&self.st);
        loop {
            if st.actors[actor].go || self.abort.load(Ordering::Acquire) {
                break;
            }
            st.actors[actor].sleeping = true;
            let (g, _) = self.cv_actor[actor].wait_timeout(st, Duration::from_millis(if cfg!(miri) { 50 } else { 500 })).unwrap_or_else(|e| e.into_inner());
            st = g;
            st.actors[actor].sleeping = false;
        }
        if st.actors[actor].status != Status::Busy {
            // aborted while parked: the controller no longer counts
            self.busy.fetch_add(1, Ordering::Release);
        }
        st.actors[actor].go = false;
        go.store(false, Ordering::Release);
        st.actors[actor].status = Status::Busy;
    }

    /// Forced mode: drive the run until every actor has finished. `choose` gets the parked actors
    /// (ascending id, with the hook each is parked at) and returns an index into that slice;
    /// `observe` is called at every decision point (all actors quiescent) and at the end, its
    /// strings are logged as `Obs` events.
    pub fn control(&self, choose: &mut dyn FnMut(&[(ActorId, &'static str)]) -> usize, observe: &mut dyn FnMut() -> Vec<String>) -> ControlEnd {
        let mut decisions = Vec::new();
        let mut fired = false;
        loop {
            // wait for quiescence
            wait_actively(|| self.busy.load(Ordering::Acquire) == 0);
            let mut st = lock(&self.st);
            let mut last_progress = st.progress;
            let mut since = Instant::now();
            while st.actors.iter().any(|a| a.status == Status::Busy) {
                st.ctrl_sleeping = true;
                let (g, _) = self.cv_ctrl.wait_timeout(st, Duration::from_millis(if cfg!(miri) { 50 } else { 200 })).unwrap_or_else(|e| e.into_inner());
                st = g;
                st.ctrl_sleeping = false;
                if st.progress != last_progress {
                    last_progress = st.progress;
                    since = Instant::now();
                } else if since.elapsed() > watchdog() {
                    fired = true;
                    break;
                }
            }
            if fired {
                drop(st);
                self.abort();
                break;
            }
            // all actors are parked or finished: nothing else touches the scenario now
            drop(st);
            let obs = observe();
            let mut st = lock(&self.st);
            for o in obs {
                st.push(None, EvKind::Obs(o));
            }
            let parked: Vec<(ActorId, &'static str)> = st
                .actors
                .iter()
                .enumerate()
                .filter_map(|(i, a)| if let Status::Parked(p) = a.status { Some((i, p)) } else { None })
                .collect();
            if parked.is_empty() {
                break;
            }
            let k = choose(&parked).min(parked.len() - 1);
            decisions.push((k, parked.len()));
            let (a, p) = parked[k];
            st.actors[a].go = true;
            st.actors[a].status = Status::Busy;
            st.push(Some(a), EvKind::Release(p));
            self.busy.fetch_add(1, Ordering::Release);
            self.go_flags[a].store(true, Ordering::Release);
            let notify = st.actors[a].sleeping;
            drop(st);
            if notify {
                self.cv_actor[a].notify_one();
            }
        }
        ControlEnd { decisions, watchdog_fired: fired }
    }

    /// switch parking off for the rest of this rig's life and release everybody
    pub fn abort(&self) {
        self.abort.store(true, Ordering::Release);
        for c in &self.cv_actor {
            c.notify_all();
        }
        // free mode: open the start line
        self.arrived.store(self.n_actors, Ordering::Release);
    }

    pub fn take_log(&self) -> Vec<Event> {
        std::mem::take(&mut lock(&self.st).log)
    }

    /// wakes counted so far (both modes)
    pub fn wakes(&self) -> u64 {
        self.wakes.load(Ordering::SeqCst)
    }
    /// wakes of the stale waker counted so far (both modes)
    pub fn stale_wakes(&self) -> u64 {
        self.stale_wakes.load(Ordering::SeqCst)
    }
    pub fn reset_wakes(&self) {
        self.wakes.store(0, Ordering::SeqCst);
        self.stale_wakes.store(0, Ordering::SeqCst);
        self.last_wake_seq.store(u64::MAX, Ordering::SeqCst);
    }
    /// free mode: stamp of the latest wake (u64::MAX = none)
    pub fn last_wake_stamp(&self) -> u64 {
        self.last_wake_seq.load(Ordering::SeqCst)
    }

    /// The waker of "the driver's task": counts wakes; in forced mode every wake is an event.
    pub fn waker(self: &Arc<Self>) -> Waker {
        Waker::from(Arc::new(RigWaker { rig: self.clone(), stale: false }))
    }

    /// A second waker, for an earlier poll of the driver made on behalf of another task (or through a
    /// combinator that hands out its own wakers): `will_wake` between the two is false, its wakes are
    /// counted apart (`stale_wakes`, `EvKind::StaleWake`) and never count as a wake of the driver's task.
    pub fn stale_waker(self: &Arc<Self>) -> Waker {
        Waker::from(Arc::new(RigWaker { rig: self.clone(), stale: true }))
    }
}

struct RigWaker {
    rig: Arc<Rig>,
    stale: bool,
}

impl Wake for RigWaker {
    fn wake(self: Arc<Self>) {
        self.wake_by_ref()
    }
    fn wake_by_ref(self: &Arc<Self>) {
        let rig = &self.rig;
        if self.stale {
            rig.stale_wakes.fetch_add(1, Ordering::Relaxed);
        } else {
            rig.wakes.fetch_add(1, Ordering::Relaxed);
        }
        match rig.mode {
            Mode::Free => {
                if !self.stale {
                    let s = rig.seq.fetch_add(1, Ordering::Relaxed);
                    rig.last_wake_seq.store(s, Ordering::Relaxed);
                }
            }
            Mode::Forced => {
                let actor = CTX.with(|c| c.borrow().as_ref().filter(|x| Arc::ptr_eq(&x.rig, rig)).map(|x| x.actor));
                let mut st = lock(&rig.st);
                st.push(actor, if self.stale { EvKind::StaleWake } else { EvKind::Wake });
            }
        }
    }
}

// ---------------------------------------------------------------------------------------------
// actor threads: a small pool per controller thread, reused from schedule to schedule (creating
// and destroying threads for every schedule makes 16 workers fight over the process's mmap lock)

type Job = Box<dyn FnOnce() + Send + 'static>;

pub struct Pool {
    txs: Vec<std::sync::mpsc::Sender<Job>>,
    joins: Vec<std::thread::JoinHandle<()>>,
}

pub struct Ticket<T> {
    rx: std::sync::mpsc::Receiver<T>,
}

impl<T> Ticket<T> {
    /// None: the job did not finish in time (the pool must then be abandoned)
    pub fn wait(self, timeout: Duration) -> Option<T> {
        self.rx.recv_timeout(timeout).ok()
    }
}

impl Pool {
    fn new() -> Self {
        Pool { txs: Vec::new(), joins: Vec::new() }
    }
    /// Run `f` on pool thread `i` (threads are created on first use).
    pub fn submit<T: Send + 'static>(&mut self, i: usize, f: impl FnOnce() -> T + Send + 'static) -> Result<Ticket<T>, String> {
        while self.txs.len() <= i {
            let (tx, rx) = std::sync::mpsc::channel::<Job>();
            let j = std::thread::Builder::new()
                .name(format!("racerig-actor{}", self.txs.len()))
                .spawn(move || {
                    while let Ok(job) = rx.recv() {
                        let _ = std::panic::catch_unwind(std::panic::AssertUnwindSafe(job));
                    }
                })
                .map_err(|e| format!("cannot spawn actor thread: {}", e))?;
            self.txs.push(tx);
            self.joins.push(j);
        }
        let (rtx, rrx) = std::sync::mpsc::channel::<T>();
        self.txs[i]
            .send(Box::new(move || {
                let _ = rtx.send(f());
            }))
            .map_err(|_| "actor thread is gone".to_string())?;
        Ok(Ticket { rx: rrx })
    }
    /// A job never came back: detach the threads (never join them) and start afresh.
    pub fn abandon(&mut self) {
        self.txs.clear();
        self.joins.clear();
    }
}

impl Drop for Pool {
    fn drop(&mut self) {
        self.txs.clear();
        for j in self.joins.drain(..) {
            let _ = j.join();
        }
    }
}

thread_local! {
    static POOL: RefCell<Pool> = RefCell::new(Pool::new());
}

pub fn with_pool<R>(f: impl FnOnce(&mut Pool) -> R) -> R {
    POOL.with(|p| f(&mut p.borrow_mut()))
}

// ---------------------------------------------------------------------------------------------
// choosers

/// Priority order given as a sequence over actor ids (a permutation of a multiset: each actor
/// appears once per segment it can have). At a decision the next entry whose actor is parked is
/// taken; entries of actors that have already finished are skipped. When the sequence is used up
/// (an actor had more segments than planned) the lowest parked id runs and `overrun` counts it.
pub struct SeqChooser {
    pub seq: Vec<ActorId>,
    pub pos: usize,
    pub overrun: u32,
}

impl SeqChooser {
    pub fn new(seq: Vec<ActorId>) -> Self {
        SeqChooser { seq, pos: 0, overrun: 0 }
    }
    pub fn choose(&mut self, parked: &[(ActorId, &'static str)]) -> usize {
        while self.pos < self.seq.len() {
            let a = self.seq[self.pos];
            self.pos += 1;
            if let Some(i) = parked.iter().position(|(p, _)| *p == a) {
                return i;
            }
        }
        self.overrun += 1;
        0
    }
}

/// Depth-first enumeration of all maximal schedules by re-execution: follow `prefix`, then always
/// take the first parked actor; `advance` computes the next prefix from the decisions made.
#[derive(Default)]
pub struct Dfs {
    pub prefix: Vec<usize>,
    pos: usize,
}

impl Dfs {
    pub fn begin(&mut self) {
        self.pos = 0;
    }
    pub fn choose(&mut self, parked: &[(ActorId, &'static str)]) -> usize {
        let c = if self.pos < self.prefix.len() { self.prefix[self.pos] } else { 0 };
        self.pos += 1;
        c.min(parked.len() - 1)
    }
    /// returns false when the tree is exhausted
    pub fn advance(&mut self, decisions: &[(usize, usize)]) -> bool {
        let mut d: Vec<(usize, usize)> = decisions.to_vec();
        while let Some((c, n)) = d.last().copied() {
            if c + 1 < n {
                break;
            }
            d.pop();
        }
        match d.last_mut() {
            None => false,
            Some(l) => {
                l.0 += 1;
                self.prefix = d.iter().map(|x| x.0).collect();
                true
            }
        }
    }
}

fn multinomial(counts: &[usize]) -> u64 {
    // product of binomials; values stay far below 2^63 for the sizes used here
    let mut total = 0u64;
    let mut r = 1u128;
    for &c in counts {
        for i in 1..=c as u64 {
            total += 1;
            r = r * total as u128 / i as u128;
        }
    }
    r as u64
}

/// number of distinct sequences over the multiset with the given multiplicities
pub fn n_orderings(counts: &[usize]) -> u64 {
    multinomial(counts)
}

/// the `idx`-th (lexicographic) sequence over the multiset
pub fn unrank_ordering(counts: &[usize], mut idx: u64) -> Vec<ActorId> {
    let mut c = counts.to_vec();
    let len: usize = c.iter().sum();
    let mut out = Vec::with_capacity(len);
    for _ in 0..len {
        for a in 0..c.len() {
            if c[a] == 0 {
                continue;
            }
            c[a] -= 1;
            let n = multinomial(&c);
            if idx < n {
                out.push(a);
                break;
            }
            idx -= n;
            c[a] += 1;
        }
    }
    out
}

/// hook hits per point in a forced log
pub fn hook_hits(log: &[Event]) -> BTreeMap<&'static str, u64> {
    let mut m = BTreeMap::new();
    for e in log {
        if let EvKind::Hook(p) = e.kind {
            *m.entry(p).or_insert(0) += 1;
        }
    }
    m
}
