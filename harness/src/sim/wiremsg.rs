//! Messages <-> wire bytes through the *reference* codec, for raw peers that have to send valid
//! messages and for monitors that read what h3 wrote.

use super::apps::{Fields, Msg};
use crate::refimpl::frames as rf;
use crate::refimpl::qpack as rq;
use crate::util::Rng;

pub fn request_fields(m: &Msg) -> Vec<rq::Field> {
    let uri: http::Uri = m.uri.parse().expect("valid uri");
    let mut f: Vec<rq::Field> = vec![(b":method".to_vec(), m.method.as_bytes().to_vec())];
    let tunnel = m.method == "CONNECT" && m.protocol.is_none();
    if !tunnel {
        f.push((b":scheme".to_vec(), uri.scheme_str().unwrap_or("https").as_bytes().to_vec()));
    }
    if let Some(a) = uri.authority() {
        f.push((b":authority".to_vec(), a.as_str().as_bytes().to_vec()));
    }
    if !tunnel {
        let pq = uri.path_and_query().map(|p| p.as_str().to_string()).unwrap_or_default();
        f.push((b":path".to_vec(), if pq.is_empty() { b"/".to_vec() } else { pq.into_bytes() }));
    }
    if let Some(p) = &m.protocol {
        f.push((b":protocol".to_vec(), p.as_bytes().to_vec()));
    }
    for (n, v) in &m.headers {
        f.push((n.as_bytes().to_vec(), v.clone()));
    }
    f
}

pub fn response_fields(m: &Msg) -> Vec<rq::Field> {
    let mut f: Vec<rq::Field> = vec![(b":status".to_vec(), m.status.to_string().into_bytes())];
    for (n, v) in &m.headers {
        f.push((n.as_bytes().to_vec(), v.clone()));
    }
    f
}

fn enc_opts(rng: &mut Rng) -> rq::EncOpts {
    rq::EncOpts {
        use_static_exact: rng.bool(),
        use_static_name: rng.bool(),
        huffman: rng.bool(),
        never_index_bit: rng.bool(),
    }
}

/// The frames of a complete message, in order (HEADERS, DATA per piece, optional trailers), with
/// unknown/grease frames sprinkled in when `grease` is set.
pub fn message_frames(m: &Msg, is_request: bool, grease: bool, rng: &mut Rng) -> Vec<Vec<u8>> {
    let mut v = Vec::new();
    let head = if is_request { request_fields(m) } else { response_fields(m) };
    if grease && rng.chance(1, 3) {
        v.push(rf::frame(0x21 + 0x1f * rng.below(1000), b"g"));
    }
    v.push(rf::frame(rf::T_HEADERS, &rq::encode_section(&head, &enc_opts(rng))));
    for p in &m.body {
        if grease && rng.chance(1, 6) {
            v.push(rf::frame(0x0f, b"unknown"));
        }
        v.push(rf::frame(rf::T_DATA, p));
    }
    if let Some(t) = &m.trailers {
        let tf: Vec<rq::Field> = t.iter().map(|(n, v)| (n.as_bytes().to_vec(), v.clone())).collect();
        v.push(rf::frame(rf::T_HEADERS, &rq::encode_section(&tf, &enc_opts(rng))));
    }
    v
}

#[derive(Debug, Clone, Default, PartialEq, Eq)]
pub struct Decoded {
    pub head: Option<Vec<rq::Field>>,
    pub body: Vec<u8>,
    pub trailers: Option<Vec<rq::Field>>,
    /// the bytes ended inside a frame
    pub partial_tail: bool,
    pub problems: Vec<String>,
}

/// Decode what an h3 endpoint wrote on a request stream.
pub fn decode_stream(bytes: &[u8]) -> Decoded {
    let (frames, tail) = rf::segment(bytes);
    let mut d = Decoded { partial_tail: tail != rf::Tail::Clean, ..Default::default() };
    for f in &frames {
        match f.ty {
            rf::T_HEADERS => match rq::judge_stateless(&f.payload) {
                rq::Stateless::MustAccept(fl) | rq::Stateless::DontCare(fl, _) => {
                    if d.head.is_none() {
                        d.head = Some(fl);
                    } else if d.trailers.is_none() {
                        d.trailers = Some(fl);
                    } else {
                        d.problems.push("third HEADERS frame".into());
                    }
                }
                rq::Stateless::MustReject(w) => d.problems.push(format!("undecodable HEADERS: {}", w)),
            },
            rf::T_DATA => {
                if d.head.is_none() {
                    d.problems.push("DATA before HEADERS".into());
                }
                if d.trailers.is_some() {
                    d.problems.push("DATA after trailers".into());
                }
                d.body.extend_from_slice(&f.payload);
            }
            _ => {}
        }
    }
    d
}

pub fn regular_fields(f: &[rq::Field]) -> Fields {
    f.iter()
        .filter(|(n, _)| n.first() != Some(&b':'))
        .map(|(n, v)| (String::from_utf8_lossy(n).to_string(), v.clone()))
        .collect()
}

pub fn pseudo(f: &[rq::Field], name: &str) -> Option<Vec<u8>> {
    f.iter().find(|(n, _)| n == name.as_bytes()).map(|(_, v)| v.clone())
}
