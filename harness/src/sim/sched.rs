//! Deterministic single-threaded executor. Tasks, network actions and raw-peer script steps
//! are all "enabled actions"; every step picks one with the PRNG. A run ends at quiescence
//! (nothing enabled) or at a step cap.

use super::{lock, Net, NetAction};
use crate::panics::{self, PanicInfo};
use crate::util::Rng;
use std::future::Future;
use std::pin::Pin;
use std::sync::atomic::{AtomicBool, AtomicU64, Ordering};
use std::sync::{Arc, Mutex};
use std::task::{Context, Poll, Wake, Waker};

pub struct TaskWaker {
    pub woken: AtomicBool,
    pub wakes: AtomicU64,
}
impl Wake for TaskWaker {
    fn wake(self: Arc<Self>) {
        self.wake_by_ref();
    }
    fn wake_by_ref(self: &Arc<Self>) {
        self.woken.store(true, Ordering::SeqCst);
        self.wakes.fetch_add(1, Ordering::SeqCst);
    }
}

pub type BoxFut = Pin<Box<dyn Future<Output = ()>>>;

pub struct Task {
    pub name: String,
    fut: Option<BoxFut>,
    pub waker: Arc<TaskWaker>,
    pub done: bool,
    pub panicked: Option<PanicInfo>,
    pub polls: u64,
    /// polls that returned Pending, then a later wake arrived
    pub pending_then_woken: u64,
    last_pending: bool,
}

/// Handle with which running tasks spawn further tasks.
#[derive(Clone, Default)]
pub struct Spawner {
    q: Arc<Mutex<Vec<(String, BoxFut)>>>,
}
// BoxFut is !Send, but the executor is single-threaded and the queue never leaves the thread.
unsafe impl Send for Spawner {}
unsafe impl Sync for Spawner {}

impl Spawner {
    pub fn spawn(&self, name: impl Into<String>, fut: impl Future<Output = ()> + 'static) {
        self.q.lock().unwrap().push((name.into(), Box::pin(fut)));
    }
}

/// A raw-peer script step: runs against the network when chosen. `ready` gates it.
pub struct ScriptStep {
    pub label: String,
    pub ready: Box<dyn Fn(&super::NetInner) -> bool>,
    pub run: Box<dyn FnOnce(&mut super::NetInner, &mut Rng)>,
}

#[derive(Debug, Clone, Copy, PartialEq, Eq)]
pub enum RunEnd {
    Quiescent,
    StepCap,
}

pub struct Sched {
    pub net: Net,
    pub tasks: Vec<Task>,
    pub spawner: Spawner,
    pub rng: Rng,
    pub steps: u64,
    /// hash chain over the choices made: the interleaving signature
    pub sig: u64,
    /// scripts: each is a queue of steps executed in order; different scripts interleave freely
    pub scripts: Vec<std::collections::VecDeque<ScriptStep>>,
    /// 1/n chance per step of polling a task that was not woken (legal for futures)
    pub spurious_poll_one_in: u64,
    pub net_actions: u64,
    pub task_polls: u64,
    /// weight of choosing a task over a network action when both are enabled (percent)
    pub task_bias_percent: u64,
}

impl Sched {
    pub fn new(net: Net, seed: u64) -> Self {
        let mut rng = Rng::new(seed);
        let bias = *rng.pick(&[20u64, 50, 50, 80]);
        Sched {
            net,
            tasks: Vec::new(),
            spawner: Spawner::default(),
            rng,
            steps: 0,
            sig: 0xcbf29ce484222325,
            scripts: Vec::new(),
            spurious_poll_one_in: 40,
            net_actions: 0,
            task_polls: 0,
            task_bias_percent: bias,
        }
    }

    pub fn spawn(&mut self, name: impl Into<String>, fut: impl Future<Output = ()> + 'static) {
        self.tasks.push(Task {
            name: name.into(),
            fut: Some(Box::pin(fut)),
            waker: Arc::new(TaskWaker {
                woken: AtomicBool::new(true),
                wakes: AtomicU64::new(0),
            }),
            done: false,
            panicked: None,
            polls: 0,
            pending_then_woken: 0,
            last_pending: false,
        });
    }

    pub fn add_script(&mut self, steps: Vec<ScriptStep>) -> usize {
        self.scripts.push(steps.into());
        self.scripts.len() - 1
    }

    fn drain_spawner(&mut self) {
        let new: Vec<(String, BoxFut)> = std::mem::take(&mut *self.spawner.q.lock().unwrap());
        for (name, fut) in new {
            self.tasks.push(Task {
                name,
                fut: Some(fut),
                waker: Arc::new(TaskWaker {
                    woken: AtomicBool::new(true),
                    wakes: AtomicU64::new(0),
                }),
                done: false,
                panicked: None,
                polls: 0,
                pending_then_woken: 0,
                last_pending: false,
            });
        }
    }

    fn mix(&mut self, a: u64, b: u64) {
        self.sig = (self.sig ^ a.wrapping_mul(0x9e3779b97f4a7c15) ^ b).wrapping_mul(0x100000001b3);
    }

    pub fn poll_task(&mut self, i: usize) {
        let t = &mut self.tasks[i];
        if t.done {
            return;
        }
        if t.last_pending && t.waker.woken.load(Ordering::SeqCst) {
            t.pending_then_woken += 1;
        }
        t.waker.woken.store(false, Ordering::SeqCst);
        t.polls += 1;
        self.task_polls += 1;
        let waker = Waker::from(t.waker.clone());
        let mut cx = Context::from_waker(&waker);
        let mut fut = t.fut.take().expect("future present");
        super::spin_reset();
        let r = panics::catch(|| fut.as_mut().poll(&mut cx));
        let t = &mut self.tasks[i];
        match r {
            Ok(Poll::Ready(())) => {
                t.done = true;
                drop(fut);
            }
            Ok(Poll::Pending) => {
                t.last_pending = true;
                t.fut = Some(fut);
            }
            Err(info) => {
                t.done = true;
                t.panicked = Some(info);
                // dropping a future that panicked mid-poll may panic again; contain it
                let _ = panics::catch(move || drop(fut));
            }
        }
        self.drain_spawner();
    }

    /// Run until nothing is enabled or `max_steps` more steps were taken.
    pub fn run(&mut self, max_steps: u64) -> RunEnd {
        let r = self.run_inner(max_steps);
        CASE_STATS.with(|c| {
            let mut c = c.borrow_mut();
            c.max_steps = c.max_steps.max(self.steps);
            if r == RunEnd::StepCap && c.cap_hit.is_none() {
                c.cap_hit = Some((max_steps, self.pending_tasks().iter().map(|s| s.to_string()).collect()));
            }
        });
        r
    }

    /// Like `run`, but reaching `max_steps` is not noted as a step-cap hit: for monitors that run
    /// in slices and look at intermediate states (they call `note_step_cap` at their real cap).
    pub fn run_slice(&mut self, max_steps: u64) -> RunEnd {
        let r = self.run_inner(max_steps);
        CASE_STATS.with(|c| {
            let mut c = c.borrow_mut();
            c.max_steps = c.max_steps.max(self.steps);
        });
        r
    }

    pub fn note_step_cap(&self, cap: u64) {
        CASE_STATS.with(|c| {
            let mut c = c.borrow_mut();
            if c.cap_hit.is_none() {
                c.cap_hit = Some((cap, self.pending_tasks().iter().map(|s| s.to_string()).collect()));
            }
        });
    }

    fn run_inner(&mut self, max_steps: u64) -> RunEnd {
        let limit = self.steps + max_steps;
        loop {
            if self.steps >= limit {
                return RunEnd::StepCap;
            }
            self.drain_spawner();
            let runnable: Vec<usize> = self
                .tasks
                .iter()
                .enumerate()
                .filter(|(_, t)| !t.done && t.waker.woken.load(Ordering::SeqCst))
                .map(|(i, _)| i)
                .collect();
            let (actions, ready_scripts): (Vec<NetAction>, Vec<usize>) = {
                let n = lock(&self.net);
                let a = n.enabled_actions();
                let s = self
                    .scripts
                    .iter()
                    .enumerate()
                    .filter(|(_, q)| q.front().map(|st| (st.ready)(&n)).unwrap_or(false))
                    .map(|(i, _)| i)
                    .collect();
                (a, s)
            };
            let n_other = actions.len() + ready_scripts.len();
            if runnable.is_empty() && n_other == 0 {
                return RunEnd::Quiescent;
            }
            self.steps += 1;
            // occasional spurious poll of a parked task
            if self.spurious_poll_one_in > 0 && self.rng.below(self.spurious_poll_one_in) == 0 {
                let parked: Vec<usize> = self
                    .tasks
                    .iter()
                    .enumerate()
                    .filter(|(_, t)| !t.done && !t.waker.woken.load(Ordering::SeqCst))
                    .map(|(i, _)| i)
                    .collect();
                if !parked.is_empty() {
                    let i = *self.rng.pick(&parked);
                    self.mix(3, i as u64);
                    self.poll_task(i);
                    continue;
                }
            }
            let pick_task = if runnable.is_empty() {
                false
            } else if n_other == 0 {
                true
            } else {
                self.rng.below(100) < self.task_bias_percent
            };
            if pick_task {
                let i = *self.rng.pick(&runnable);
                self.mix(1, i as u64);
                self.poll_task(i);
            } else {
                let k = self.rng.usize(n_other);
                if k < actions.len() {
                    let a = actions[k];
                    self.mix(2, crate::util::hash64(&a));
                    self.net_actions += 1;
                    let mut n = lock(&self.net);
                    n.apply(a, &mut self.rng);
                } else {
                    let si = ready_scripts[k - actions.len()];
                    let step = self.scripts[si].pop_front().unwrap();
                    self.mix(4, si as u64);
                    let mut n = lock(&self.net);
                    n.time += 1;
                    (step.run)(&mut n, &mut self.rng);
                }
            }
        }
    }

    pub fn all_done(&self) -> bool {
        self.tasks.iter().all(|t| t.done)
    }

    pub fn first_panic(&self) -> Option<(&str, &PanicInfo)> {
        self.tasks
            .iter()
            .find_map(|t| t.panicked.as_ref().map(|p| (t.name.as_str(), p)))
    }

    pub fn pending_tasks(&self) -> Vec<&str> {
        self.tasks
            .iter()
            .filter(|t| !t.done)
            .map(|t| t.name.as_str())
            .collect()
    }

    pub fn scripts_done(&self) -> bool {
        self.scripts.iter().all(|q| q.is_empty())
    }

    pub fn pending_then_woken(&self) -> u64 {
        self.tasks.iter().map(|t| t.pending_then_woken).sum()
    }
}

/// Per-thread statistics of the runs of the current case (read by the runner after each case).
#[derive(Default)]
pub struct CaseStats {
    /// largest number of scheduler steps any run of this case needed
    pub max_steps: u64,
    /// a run hit its step cap: (cap, tasks still pending)
    pub cap_hit: Option<(u64, Vec<String>)>,
}

thread_local! {
    static CASE_STATS: std::cell::RefCell<CaseStats> = std::cell::RefCell::new(CaseStats::default());
}

pub fn take_case_stats() -> CaseStats {
    CASE_STATS.with(|c| std::mem::take(&mut *c.borrow_mut()))
}

impl Drop for Sched {
    fn drop(&mut self) {
        // Futures may panic in Drop after an earlier panic; never let that escape a monitor.
        let tasks = std::mem::take(&mut self.tasks);
        let _ = panics::catch(move || drop(tasks));
    }
}
